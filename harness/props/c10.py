"""C10 — link-layer envelopes are transparent: Nack, PIT token and wrapped packets.

Both front-ends (ndn.appv2.NDNApp, ndn.app.NDNApp) run on the virtual-time loop with a recording face.

 A. prologue: for (typ, wire) the unwrap prologue of _receive is observed through recorders in place of
    _on_interest/_on_data/_on_nack and compared with the extracted model (unwrap_v2/unwrap_v1); the extracted
    specification (Spec/LpSpec.v spec_receive, an order-insensitive reading of the envelope) is evaluated on
    the same observation:   O1 (every wire)  whatever is delivered is what the spec reads;
                            O2 (well-formed streams)  what the spec says must be delivered is delivered.
 B. end to end (nothing patched): twin applications in the same state receive a packet bare / wrapped with a
    subset of optional headers; handler calls, bytes on the face and completions of pending Interests must be
    the same, except that the reply of the wrapped run is spec_reply_wire(token, reply of the bare run).
 C. Nack: pending Interests complete with exactly the reason of the envelope (all width boundaries, reason-less
    header = 0), nothing else completes, no handler runs.  C' (run_nack_table): the same against a populated
    table -- several Interests under the returned name (1..6, any order, interleaved with entries of the same
    node that carry another implicit digest, with parents / children / other names, with entries whose caller
    gives up in the loop turn of the Nack or gave up earlier): ONE envelope completes ALL the waiting Interests
    it names, and only those.
 D. token echo: 1..5 Interests with distinct tokens (length 0..40, one possibly without), replies in every
    order; every reply is spec_reply_wire(token_i, data_i); the closure model (lp_run) agrees.
 E. codec functions: make_network_nack / parse_lp_packet / parse_network_nack / _put_raw_packet_with_pit_token
    against model and spec bytes.
"""
import itertools
import struct

from harness.lib import gen as G
from harness.lib import tlvdesc as D
from harness.lib import tlvgen as TG
from harness.lib import vtloop
from harness.lib.model import is_err, exc_code

RULE = ('real Interests/Data (make_interest/make_data: plain, parameterised+digest-signed, all InterestParam flags; Data '
        'with/without content, digest-signed) bare and wrapped in an LpPacket with every subset (quick: sampled + all '
        'subsets for a few packets) of the 9 optional headers, unknown headers (critical and not) at any position, Nack '
        'headers with reasons at all integer-width boundaries / non-minimal widths / without reason, FragIndex/FragCount, '
        'misordered headers, idle and empty fragments, byte/length mutants and random bytes; tokens of length 0..40; '
        '1-5 Interests with distinct tokens answered in every order.  Nack against a populated table: tables given by a '
        'word over {named N waiting, named N and given up in the loop turn of the Nack, named N and given up earlier, '
        'named N + implicit digest a / b, CanBePrefix parent of N, N/x, another name} in expression order -- 1..6 '
        'Interests under one name, every word of length <= 2 (thorough: 3), sampled words of length 3-7 biased to '
        'shared names -- and ONE Nack envelope returning the Interest of any entry (every distinct name): exactly the '
        'waiting Interests with the returned name complete with InterestNack(reason of the envelope), all others '
        'keep their fate (time out / Canceled), no handler runs, nothing is sent or raised; reasons cycle over the '
        'width boundaries, reason-less and non-minimal widths, sampled header subsets.  '
        'non-trivial = an envelope with >= 1 header or a '
        'history with >= 2 events; distinct by (front-end, typ, wire) / history hash')
ASSUMPTIONS = ['the reception pipeline after the unwrap prologue (packet decoding, PIT, dispatch, validation) is an '
               'abstract function of (state, typ, token, bytes) in the theorems; it is exercised for real in streams B-D',
               'v1 front-end (ndn.app) has no PIT-token support by design: the token clause is checked on appv2 only']

LP = 0x64
# NDNLPv2: header fields in ascending Type order, Fragment last (what forwarders emit; independent of the library)
ORDER = [0x52, 0x53, 0x62, 0x320, 0x32C, 0x330, 0x334, 0x340, 0x344, 0x348, 0x34C, 0x350, 0x50]
LDESC = [None]    # reflected descriptor of LpPacketValue (value conversion only)
T_FRAG, T_FIDX, T_FCNT, T_TOKEN, T_NACK, T_REASON = 0x50, 0x52, 0x53, 0x62, 0x320, 0x321


# ------------------------------------------------------------------------------------------------
class RecFace:
    def __init__(self):
        self.running = True
        self.sent = []
        self.callback = None

    def send(self, data):
        self.sent.append(bytes(data))

    def shutdown(self):
        self.running = False

    async def open(self):
        self.running = True

    async def run(self):
        return


class NullReg:
    def set_app(self, app):
        pass


def mk_app(ver):
    face = RecFace()
    if ver == 2:
        from ndn import appv2
        app = appv2.NDNApp(face=face, client_conf={'transport': 'unix:///nonexistent'}, registerer=NullReg())
    else:
        from ndn import app as appv1
        app = appv1.NDNApp(face=face, keychain=object())
    return app, face


class Env:
    """one virtual-time loop with ndn.utils.timestamp patched to it"""

    def __init__(self):
        import ndn.utils
        self.loop = vtloop.new_loop()
        self._old = ndn.utils.timestamp
        ndn.utils.timestamp = lambda: self.loop.now_ms()

    def close(self):
        import ndn.utils
        ndn.utils.timestamp = self._old
        try:
            self.loop.advance_to(self.loop.time() + 30)
        except Exception:   # noqa
            pass
        self.loop.close()

    def receive(self, app, typ, wire):
        """deliver as the face does; -> None or the exception that left _receive"""
        try:
            self.loop.run_until_complete(app._receive(typ, memoryview(wire)))
            self.loop.settle()
            return None
        except Exception as e:   # noqa
            return e


def name_bytes(name):
    return b''.join(bytes(c) for c in name)


def caught_decode(e):
    from ndn.encoding import DecodeError
    return isinstance(e, (DecodeError, TypeError, ValueError, struct.error, IndexError))


def exc_obs(e):
    return ('raise', type(e).__name__)


# ---- A. prologue -------------------------------------------------------------------------------
class Prologue:
    def __init__(self, env, ver):
        self.env, self.ver = env, ver
        self.app, self.face = mk_app(ver)
        self.rec = rec = []
        if ver == 2:
            async def oi(name, pit_token, param, app_param, sig, raw_packet):
                rec.append(('interest', None if pit_token is None else bytes(pit_token), bytes(raw_packet)))
        else:
            async def oi(name, param, app_param, sig, raw_packet):
                rec.append(('interest', None, bytes(raw_packet)))

        async def od(name, meta_info, content, sig, raw_packet):
            rec.append(('data', bytes(raw_packet)))

        def on(name, reason):
            rec.append(('nack', reason, name_bytes(name)))
        self.app._on_interest, self.app._on_data, self.app._on_nack = oi, od, on

    def observe(self, typ, wire):
        del self.rec[:]
        e = self.env.receive(self.app, typ, wire)
        obs = list(self.rec)
        if e is not None:
            obs.append(exc_obs(e))
        return obs


def expected_from(ver, u):
    """model/spec answer (3 t tok d) / (2 r frag) / ... -> the callbacks the rest of _receive makes (using the
    library's own decoders for the part after the prologue)."""
    from ndn.encoding import parse_interest, parse_data
    k = u[0]
    if k in (0, 11, 12):
        return []
    if k == 1:
        return [('raise', u[1])]
    if k == 2:
        try:
            name = parse_interest(u[2])[0]
        except Exception as e:   # noqa
            return [] if caught_decode(e) else [exc_obs(e)]
        return [('nack', u[1], name_bytes(name))]
    if k == 3:
        t, tok, d = u[1], u[2], u[3]
        tok = bytes(tok[0]) if tok else None
        if ver == 1:
            tok = None
        try:
            if t == 5:
                parse_interest(d)
                return [('interest', tok, bytes(d))]
            if t == 6:
                parse_data(d)
                return [('data', bytes(d))]
        except Exception as e:   # noqa
            return [] if caught_decode(e) else [exc_obs(e)]
        return []
    raise ValueError(u)


def norm_raise(obs):
    """exception class names -> model codes for comparison"""
    return obs


def top_elements(wire):
    """independent walker: [(type, payload)] of the LpPacket value, or None"""
    try:
        t, a = TG.read_num(wire, 0)
        l, b = TG.read_num(wire, a)
    except Exception:   # noqa
        return None
    if t != LP or a + b + l != len(wire):
        return None
    return TG.tlv_walk(wire[a + b:])


def in_declared_order(els, order):
    """do the headers NDNLPv2 defines appear in the prescribed order (strictly increasing Type, Fragment last)?"""
    last = -1
    for t, _ in els:
        if t in order:
            i = order.index(t)
            if i <= last:
                return False
            last = i
    return True


def check_prologue(ctx, P, typ, wire, origin, wellformed, order):
    """correspondence + oracle for one (typ, wire) on one front-end"""
    ver = P.ver
    obs = P.observe(typ, wire)
    u = ctx.call([1 if ver == 2 else 2, typ, wire])
    s = ctx.call([3, typ, wire])
    case = {'front_end': 'appv2' if ver == 2 else 'app', 'typ': typ, 'wire': wire, 'origin': origin}
    site = f'_receive.v{ver}'
    exp = expected_from(ver, u)
    if u[0] == 1:
        # the model says an exception leaves _receive
        if not (obs and obs[-1][0] == 'raise'):
            ctx.disagree(site, 'model: exception escapes, implementation: none', case, u, obs)
    elif obs != exp:
        ctx.disagree(site, 'different deliveries after the unwrap prologue', case, [u, exp], obs)
    # ---- oracle
    if any(o[0] == 'raise' for o in obs):
        ctx.violation(site, 'exception-escapes:' + obs[-1][1], f'_receive raised {obs[-1][1]}', case)
    delivered = [o for o in obs if o[0] != 'raise']
    if s[0] != 10:
        sexp = expected_from(ver, s)
        bad = None
        if delivered and delivered != sexp:
            bad = 'delivers'
        elif not delivered and sexp and wellformed:
            bad = 'drops'
        if bad:
            els = top_elements(wire) if typ == LP else None
            if els is not None and not in_declared_order(els, order):
                cls = 'header-out-of-order'
            elif s[0] == 11:
                cls = 'fragmented-accepted'
            elif s[0] == 12:
                cls = 'idle-delivered'
            elif s[0] == 2:
                cls = 'nack-' + ('wrong-reason' if delivered and delivered[0][0] == 'nack' else 'not-a-nack')
            elif delivered and delivered[0][0] == 'nack':
                cls = 'plain-packet-nacked'
            elif bad == 'drops':
                cls = 'wrapped-packet-dropped'
            elif delivered[0][0] == 'interest' and sexp and sexp[0][0] == 'interest' and delivered[0][2] == sexp[0][2]:
                cls = 'token-' + ('lost' if delivered[0][1] is None else 'altered')
            else:
                cls = 'wrapped-packet-altered'
            ctx.violation(site, cls, f'specification reads {sexp!r}, the front-end delivered {delivered!r}', case)
    nt = typ == LP and len(wire) > 6
    ctx.case((ver, typ, wire), nt, case if delivered else None, f'A.v{ver}.{origin}.{"deliv" if delivered else "none"}')
    return obs, u, s


# ---- generators ----------------------------------------------------------------------------------
def nni(v, width=None):
    if width is None:
        width = 1 if v <= 0xFF else 2 if v <= 0xFFFF else 4 if v <= 0xFFFFFFFF else 8
    return v.to_bytes(width, 'big')


OPTIONAL = ['pit_token', 'incoming_face_id', 'next_hop_face_id', 'cache_policy', 'congestion_mark', 'tx_sequence',
            'ack', 'non_discovery', 'prefix_announcement']
TOKEN_LENS = list(range(0, 41))
UNKNOWN_TYPES = [0x51, 0x54, 0x3E8, 0x3E9, 0x7F, 9, 0x10001, 0x35C, 0x321]
REASONS = [0, 1, 50, 100, 150, 255, 256, 65535, 65536, 0xFFFFFFFF, 0x100000000, (1 << 63), (1 << 64) - 1]


def header_element(rng, h, token=None):
    if h == 'pit_token':
        return (T_TOKEN, token if token is not None else G.rand_bytes(rng, rng.choice(TOKEN_LENS)))
    if h == 'incoming_face_id':
        return (0x32C, nni(rng.choice(TG.UINT_EDGES)))
    if h == 'next_hop_face_id':
        return (0x330, nni(rng.choice(TG.UINT_EDGES)))
    if h == 'cache_policy':
        return (0x334, G.tlv(0x335, nni(rng.choice([1, 0, 300]))) if rng.random() < 0.9 else b'')
    if h == 'congestion_mark':
        return (0x340, nni(rng.choice([0, 1, 1 << 40])))
    if h == 'tx_sequence':
        return (0x348, G.rand_bytes(rng, 8))
    if h == 'ack':
        return (0x344, G.rand_bytes(rng, rng.choice([0, 8])))
    if h == 'non_discovery':
        return (0x34C, b'')
    if h == 'prefix_announcement':
        return (0x350, G.rand_bytes(rng, rng.choice([0, 3, 40])))
    raise KeyError(h)


def envelope(rng, order, hdrs, pkt, nack=None, frag=(), unknown=0, token=None):
    """LpPacket bytes: known headers in the library's declared order, Fragment last, [unknown] unrecognised
    elements at random positions.  nack: None | 'noreason' | int | (int, width)"""
    els = [header_element(rng, h, token) for h in hdrs]
    if nack is not None:
        if nack == 'noreason':
            els.append((T_NACK, b''))
        else:
            r, wd = nack if isinstance(nack, tuple) else (nack, None)
            els.append((T_NACK, G.tlv(T_REASON, nni(r, wd))))
    for t, v in frag:
        els.append((t, nni(v)))
    els.sort(key=lambda e: order.index(e[0]))
    if pkt is not None:
        els.append((T_FRAG, pkt))
    for _ in range(unknown):
        els.insert(rng.randint(0, len(els)), (rng.choice(UNKNOWN_TYPES), G.rand_bytes(rng, rng.choice([0, 1, 4, 9]))))
    return G.tlv(LP, TG.ser(els)), els


def packet_stream(ctx, n):
    """real network packets: (kind, wire)"""
    from ndn.encoding import make_interest, make_data, InterestParam, MetaInfo
    from ndn.security.signer import DigestSha256Signer
    rng = ctx.rng
    out = []
    dsig = DigestSha256Signer()
    isig = DigestSha256Signer(for_interest=True)
    for i in range(n):
        nm = '/h/' + '/'.join(rng.choice(['a', 'b', 'seg', '%00x', 'v=1']) for _ in range(rng.randint(0, 3))) + f'/{i}'
        ip = InterestParam(can_be_prefix=rng.random() < 0.5, must_be_fresh=rng.random() < 0.5,
                           nonce=rng.getrandbits(32), lifetime=rng.choice([None, 4000, 100, 70000]),
                           hop_limit=rng.choice([None, 0, 255]))
        k = rng.random()
        if k < 0.6:
            out.append(('interest', bytes(make_interest(nm, ip))))
        elif k < 0.8:
            out.append(('interest', bytes(make_interest(nm, ip, G.rand_bytes(rng, rng.choice([0, 5, 300])), isig))))
        else:
            out.append(('interest', bytes(make_interest(nm, ip, G.rand_bytes(rng, rng.choice([0, 5])), None))))
        mi = MetaInfo(content_type=rng.choice([None, 0, 3]), freshness_period=rng.choice([None, 1000]))
        out.append(('data', bytes(make_data(nm.replace('/h/', '/p/', 1), mi,
                                            rng.choice([None, b'', G.rand_bytes(rng, rng.choice([1, 252, 253, 400]))]),
                                            rng.choice([dsig, dsig, None])))))
    return out


def small_mutants(rng, w, k):
    out = [G.mutate_bytes(rng, w) for _ in range(k)]
    # one Length/Type number changed
    pos = []
    off = 0
    try:
        t, a = TG.read_num(w, 0)
        l, b = TG.read_num(w, a)
        pos += [(0, a, t), (a, b, l)]
        off = a + b
        while off < len(w) and len(pos) < 40:
            t, a = TG.read_num(w, off)
            l, b = TG.read_num(w, off + a)
            pos += [(off, a, t), (off + a, b, l)]
            off += a + b + l
    except Exception:   # noqa
        pass
    for _ in range(k):
        if not pos:
            break
        o, sz, v = rng.choice(pos)
        nv = rng.choice([v + 1, max(0, v - 1), 0, v * 2, 253, 65536, T_FRAG, T_FIDX, T_NACK, T_TOKEN])
        out.append(w[:o] + G.tl(nv) + w[o + sz:])
    return out


# ---- B..D: end-to-end scenarios ---------------------------------------------------------------------
class Scenario:
    """an application with a handler at /h (replies at once with Data named like the Interest, or keeps the
    reply closure) and pending Interests /p/<i>; everything observable is appended to self.obs"""

    def __init__(self, env, ver, pending=(), defer=False, handler_prefixes=('/h',)):
        from ndn import encoding as enc
        from ndn.security.signer import DigestSha256Signer
        import asyncio
        self.env, self.ver = env, ver
        self.app, self.face = mk_app(ver)
        self.obs = []
        self.closures = []
        self.tasks = []
        self.defer = defer
        self.enc = enc
        signer = DigestSha256Signer()
        obs = self.obs

        if ver == 2:
            from ndn import appv2

            def handler(name, app_param, reply, context):
                tok = context['pit_token']
                obs.append(('handler', name_bytes(name), None if app_param is None else bytes(app_param),
                            None if tok is None else bytes(tok), bytes(context['raw_packet'])))
                if defer:
                    self.closures.append(reply)
                else:
                    reply(enc.make_data(name, enc.MetaInfo(), b'reply', signer))
            for p in handler_prefixes:
                self.app.attach_handler(p, handler, validator=appv2.pass_all)
        else:
            def handler(name, param, app_param, raw_packet=None):
                obs.append(('handler', name_bytes(name), None if app_param is None else bytes(app_param), None,
                            bytes(raw_packet)))
                self.app.put_raw_packet(enc.make_data(name, enc.MetaInfo(), b'reply', signer))

            async def ok(name, sig):
                return True
            for p in handler_prefixes:
                self.app.set_interest_filter(p, handler, validator=ok, need_raw_packet=True)

        async def waiter(i, coro):
            from ndn import types
            try:
                r = await coro
                content = r[2] if ver == 1 else r[1]
                obs.append(('done', i, 'data', name_bytes(r[0]), None if content is None else bytes(content)))
            except types.InterestNack as e:
                obs.append(('done', i, 'nack', e.reason))
            except Exception as e:   # noqa
                obs.append(('done', i, type(e).__name__))

        async def start():
            for i, (nm, kw) in enumerate(pending):
                if ver == 2:
                    from ndn import appv2
                    coro = self.app.express(nm, appv2.pass_all, **kw)
                else:
                    coro = self.app.express_interest(nm, **kw)
                self.tasks.append(asyncio.ensure_future(waiter(i, coro)))
        env.loop.run_until_complete(start())
        env.loop.settle()
        self.expressed = list(self.face.sent)
        del self.face.sent[:]

    def deliver(self, typ, wire):
        e = self.env.receive(self.app, typ, wire)
        if e is not None:
            self.obs.append(exc_obs(e))

    def cancel(self, idxs):
        """the callers of these pending Interests give up; the loop runs until their entries have left the table"""
        for i in idxs:
            self.tasks[i].cancel()
        self.env.loop.settle()

    def deliver_in_turn_of_cancel(self, idxs, typ, wire):
        """the callers of [idxs] give up in the very loop turn in which the packet is processed: their waiters are
        cancelled, their entries are still in the table"""
        async def go():
            for i in idxs:
                self.tasks[i].cancel()
            await self.app._receive(typ, memoryview(wire))
        try:
            self.env.loop.run_until_complete(go())
        except Exception as e:   # noqa
            self.obs.append(exc_obs(e))
        self.env.loop.settle()

    def finish(self, wait=8.0):
        self.env.loop.advance_to(self.env.loop.time() + wait)
        errs = self.env.loop.collect_errors()
        for c in errs:
            self.obs.append(('loop-error', type(c.get('exception')).__name__))
        del self.env.loop.errors[:]
        return self.obs, list(self.face.sent)


def pending_for(pkts, rng):
    """Interests to express so that the Data packets of the stream satisfy something"""
    from ndn.encoding import parse_data, Name
    out = []
    for kind, w in pkts:
        if kind == 'data':
            name = parse_data(w)[0]
            cut = rng.choice([0, 0, 1]) if len(name) > 2 else 0
            nm = Name.to_str(name[:len(name) - cut])
            out.append((nm, {'nonce': 7, 'lifetime': 2000, 'can_be_prefix': bool(cut) or rng.random() < 0.3,
                             'must_be_fresh': False}))
    return out


def typ_of(w):
    return TG.read_num(w, 0)[0]


def echoes(ctx, out, tok, data):
    """the oracle for one reply: [out] = wires put on the face.  Without token: the data itself.  With token:
    ONE envelope that the specification reads as (token, data unmodified) - other headers are not forbidden."""
    if len(out) != 1:
        return False
    if tok is None:
        return out[0] == data
    s = ctx.call([3, LP, out[0]])
    if s[0] == 12:      # [data] is not a network packet (empty / no Type number): read the elements directly
        els = top_elements(out[0]) or []
        first = {}
        for t, v in els:
            first.setdefault(t, v)
        return first.get(T_TOKEN) == tok and first.get(T_FRAG) == data and not {T_FIDX, T_FCNT, T_NACK} & set(first)
    return s[0] == 3 and s[2] and bytes(s[2][0]) == tok and bytes(s[3]) == data


def check_transparent(ctx, ver, pend, pkt, env_wire, token, origin, case_extra):
    """twin run: [pkt] bare vs inside [env_wire]"""
    res = []
    for wire in (pkt, env_wire):
        env = Env()
        try:
            sc = Scenario(env, ver, pending=pend)
            sc.deliver(typ_of(wire), wire)
            res.append(sc.finish())
        finally:
            env.close()
    (obs_b, sent_b), (obs_w, sent_w) = res
    case = {'front_end': 'appv2' if ver == 2 else 'app', 'packet': pkt, 'envelope': env_wire, 'origin': origin}
    case.update(case_extra)
    site = f'NDNApp.v{ver}'
    tok = token if ver == 2 else None
    exp_obs = [(o[0], o[1], o[2], tok, o[4]) if o[0] == 'handler' else o for o in obs_b]
    if obs_w != exp_obs:
        cls = 'wrapped-differs'
        hb = [o for o in obs_b if o[0] == 'handler']
        hw = [o for o in obs_w if o[0] == 'handler']
        if hb and hw and hb[0][:3] == hw[0][:3] and hb[0][4] == hw[0][4] and hw[0][3] != tok:
            cls = 'token-lost' if hw[0][3] is None else 'token-altered'
        ctx.violation(site, cls, f'bare: {obs_b!r}; wrapped: {obs_w!r}', case)
    exp_sent = [bytes(ctx.call([9, [tok] if tok is not None else [], s])) for s in sent_b]
    if len(sent_w) != len(sent_b) or not all(echoes(ctx, [w], tok, s) for w, s in zip(sent_w, sent_b)):
        cls = 'reply-not-echoing-token' if tok is not None else 'reply-differs'
        ctx.violation(site, cls, f'bare run sent {sent_b!r}, wrapped run sent {sent_w!r}, expected {exp_sent!r}', case)
    nontriv = bool(obs_b) or bool(sent_b)
    ctx.case((ver, env_wire), True, case if nontriv else None, f'B.v{ver}.{origin}.{"effect" if nontriv else "noeffect"}')
    return obs_b, sent_b


def run_nacks(ctx, ver, order, n, plan, origin):
    """n pending Interests /p/0../p/n-1 (a handler also sits on /p); plan = [(index, nack-spec, hdrs, unknown)]"""
    from ndn.encoding import make_network_nack
    rng = ctx.rng
    env = Env()
    try:
        pend = [(f'/p/{i}', {'nonce': 100 + i, 'lifetime': 3000}) for i in range(n)]
        sc = Scenario(env, ver, pending=pend, handler_prefixes=('/h', '/p'))
        expect = {}
        wires = []
        for idx, nack, hdrs, unk in plan:
            interest = sc.expressed[idx]
            if hdrs is None:
                r = nack
                w = bytes(make_network_nack(interest, r))
                m = ctx.call([4, interest, r])
                if is_err(m) or bytes(m[1]) != w:
                    ctx.disagree('make_network_nack', 'bytes differ', {'interest': interest, 'reason': r}, m, w)
            else:
                w, _ = envelope(rng, order, hdrs, interest, nack=nack, unknown=unk)
                r = 0 if nack == 'noreason' else (nack[0] if isinstance(nack, tuple) else nack)
            wires.append(w)
            s = ctx.call([3, LP, w])
            if s[0] != 2 or s[1] != r or bytes(s[2]) != interest:
                ctx.disagree('spec_receive', 'harness expects a Nack envelope', {'wire': w}, s, r)
            if idx not in expect:
                expect[idx] = r
            sc.deliver(LP, w)
        obs, sent = sc.finish()
        if ver == 1 and len(plan) != len(expect) and ('raise', 'KeyError') in obs:
            # ndn.app._on_nack with nothing pending raises KeyError: outside the envelope (property C03, DESIGN +13)
            obs = [o for o in obs if o != ('raise', 'KeyError')]
            ctx.stat('C.v1.nack-for-nothing-pending.KeyError(C03)')
        exp = [('done', i, 'nack', expect[i]) for i, *_ in plan if i in expect]
        seen, exp2 = set(), []
        for e in exp:
            if e[1] not in seen:
                seen.add(e[1])
                exp2.append(e)
        exp2 += [('done', i, 'InterestTimeout') for i in range(n) if i not in expect]
        case = {'front_end': 'appv2' if ver == 2 else 'app', 'pending': n, 'envelopes': wires, 'origin': origin}
        # Interests that only time out share one deadline: their relative order is the timer heap's business
        key = lambda o: (0, 0) if o[2] == 'nack' else (1, o[1])      # noqa
        obs = sorted(obs, key=key) if all(o[0] == 'done' for o in obs) else obs
        if obs != exp2 or sent:
            got = [o for o in obs if o[0] == 'done' and o[2] == 'nack']
            cls = 'nack-wrong-reason' if len(got) == len([e for e in exp2 if e[2] == 'nack']) else 'nack-not-completing'
            if any(o[0] == 'handler' for o in obs):
                cls = 'nack-dispatched-as-interest'
            ctx.violation(f'NDNApp.v{ver}', cls, f'expected {exp2!r} and nothing sent; got {obs!r}, sent {sent!r}', case)
        ctx.case((ver, tuple(wires)), True, case, f'C.v{ver}.{origin}')
    finally:
        env.close()


# ---- C'. Nack against a populated pending-Interest table ---------------------------------------------
# One letter per pending Interest, in the order in which they were expressed (= their order in the table):
#   S  named N, waiting                      C  named N, its caller gives up in the loop turn of the Nack
#   G  named N, given up earlier (gone)      A/B  named N + implicit digest a / b, waiting
#   P  named by the parent of N with CanBePrefix, waiting     L  named N/x, waiting     O  another name
TABLE_KINDS = 'SCGABPLO'


def run_nack_table(ctx, ver, order, shape, target, nack, hdrs, unk, origin):
    """[shape]: a word over TABLE_KINDS; one Nack envelope returns the Interest of entry [target].  The envelope
    names the Interests whose (full) name is that of the returned Interest: exactly those that are still waiting
    complete with InterestNack(reason of the envelope); every other entry keeps its own fate."""
    rng = ctx.rng
    env = Env()
    try:
        n_ = '/p/q/%d' % rng.randrange(3)
        dig = {'A': 'aa' * 32, 'B': '5b' * 32}
        full = {'S': n_, 'C': n_, 'G': n_, 'A': n_ + '/sha256digest=' + dig['A'], 'B': n_ + '/sha256digest=' + dig['B'],
                'P': '/p/q', 'L': n_ + '/x', 'O': '/p/other'}
        pend = []
        for i, k in enumerate(shape):
            pend.append((full[k], {'nonce': 500 + i, 'lifetime': 3000, 'must_be_fresh': rng.random() < 0.3,
                                   'can_be_prefix': True if k == 'P' else rng.random() < 0.3}))
        sc = Scenario(env, ver, pending=pend, handler_prefixes=('/h', '/p'))
        sc.cancel([i for i, k in enumerate(shape) if k == 'G'])
        interest = sc.expressed[target]
        w, _ = envelope(rng, order, hdrs, interest, nack=nack, unknown=unk)
        r = 0 if nack == 'noreason' else (nack[0] if isinstance(nack, tuple) else nack)
        s = ctx.call([3, LP, w])
        if s[0] != 2 or s[1] != r or bytes(s[2]) != interest:
            ctx.disagree('spec_receive', 'harness expects a Nack envelope', {'wire': w}, s, r)
        sc.deliver_in_turn_of_cancel([i for i, k in enumerate(shape) if k == 'C'], LP, w)
        obs, sent = sc.finish()
        expect = {}
        for i, k in enumerate(shape):
            if k in 'CG':
                expect[i] = ('InterestCanceled',)
            elif full[k] == full[shape[target]]:
                expect[i] = ('nack', r)
            else:
                expect[i] = ('InterestTimeout',)
        got, extra = {}, []
        for o in obs:
            if o[0] == 'done' and o[1] not in got:
                got[o[1]] = tuple(o[2:])
            else:
                extra.append(o)
        case = {'front_end': 'appv2' if ver == 2 else 'app', 'table': shape, 'returned_interest_of_entry': target,
                'names': [nm for nm, _ in pend], 'envelope': w, 'origin': origin}
        if got != expect or extra or sent:
            named = [i for i in expect if expect[i][0] == 'nack']
            if any(o[0] == 'handler' for o in extra):
                cls = 'nack-dispatched-as-interest'
            elif any(o[0] in ('raise', 'loop-error') for o in extra):
                cls = 'nack-raises:' + [o[1] for o in extra if o[0] in ('raise', 'loop-error')][0]
            elif any(got.get(i) != expect[i] for i in named):
                cls = 'nack-wrong-reason' if all(got.get(i, ('',))[0] == 'nack' for i in named) else 'nack-not-completing-all-named'
            else:
                cls = 'nack-completes-unnamed'
            ctx.violation(f'NDNApp.v{ver}', cls,
                          f'table {shape!r}, Nack(reason {r}) returning the Interest of entry {target}: expected outcomes '
                          f'{sorted(expect.items())!r} and nothing else; got {sorted(got.items())!r}, other observations '
                          f'{extra!r}, sent {sent!r}', case)
        ctx.case((ver, shape, target, w), True, case,
                 f'C.v{ver}.table.{origin}.same{sum(1 for k in shape if k in "SC")}')
    finally:
        env.close()


def nack_tables(ctx, order, all_subsets):
    """the family: every table word up to a length (multiplicity sweep S..S separately), every distinct returned
    name, reasons over the width boundaries, sampled header subsets"""
    rng = ctx.rng
    words = ['S' * k for k in range(1, 7)]
    maxlen = 3 if ctx.thorough else 2
    for n in range(1, maxlen + 1):
        words += [''.join(t) for t in itertools.product(TABLE_KINDS, repeat=n)]
    sampled = []
    for _ in range(ctx.n(120, 1500)):
        n = rng.randint(3, 7)
        # tables in which several entries share the returned name are the point: bias towards S/C/A
        sampled.append(''.join(rng.choice('SSSCCGAABPLO') for _ in range(n)))
    ri = 0
    for origin, ws in (('enum', words), ('sampled', sampled)):
        for wd in ws:
            cands = [i for i, k in enumerate(wd) if k in 'SCGAB']
            if not cands:
                continue
            seen, targets = set(), []
            for i in (cands if origin == 'enum' else rng.sample(cands, len(cands))):
                key = 'N' if wd[i] in 'SCG' else wd[i]
                if key not in seen:
                    seen.add(key)
                    # the returned Interest is any of those with that name
                    targets.append(rng.choice([j for j in cands if ('N' if wd[j] in 'SCG' else wd[j]) == key]))
            if origin == 'sampled':
                targets = targets[:1]
            for tg in targets:
                for ver in (2, 1):
                    r = REASONS[ri % len(REASONS)]
                    ri += 1
                    nack = 'noreason' if ri % 11 == 0 else (r, 8 if (r < 256 and ri % 5 == 0) else None)
                    hs = () if ri % 3 else rng.choice(all_subsets)
                    run_nack_table(ctx, ver, order, wd, tg, nack, hs, rng.choice([0, 0, 2]), origin)


def run_tokens(ctx, order, tokens, perms, origin, hdr_extra=True, late=None, down=False):
    """appv2: one Interest per token (None = bare), closures kept; replies in every order of [perms]"""
    from ndn.encoding import make_interest, make_data, InterestParam, MetaInfo
    rng = ctx.rng
    env = Env()
    try:
        sc = Scenario(env, 2, defer=True)
        t0 = env.loop.now_ms()
        events = []
        for i, tok in enumerate(tokens):
            lifetime = 4000
            pkt = bytes(make_interest(f'/h/t/{i}', InterestParam(nonce=i, lifetime=lifetime)))
            if tok is None:
                sc.deliver(5, pkt)
            else:
                hdrs = ['pit_token'] + ([h for h in OPTIONAL[1:] if rng.random() < 0.3] if hdr_extra else [])
                w, _ = envelope(rng, order, hdrs, pkt, token=tok, unknown=rng.choice([0, 0, 2]) if hdr_extra else 0)
                sc.deliver(LP, w)
            events.append([0, [tok] if tok is not None else [], env.loop.now_ms() + lifetime])
        case0 = {'tokens': tokens, 'origin': origin}
        if len(sc.closures) != len(tokens):
            ctx.violation('NDNApp.v2', 'wrapped-packet-dropped', f'{len(tokens)} Interests delivered, {len(sc.closures)} handler calls', case0)
            return
        got_tok = [o[3] for o in sc.obs if o[0] == 'handler']
        if got_tok != list(tokens):
            ctx.violation('NDNApp.v2', 'token-lost' if None in got_tok else 'token-altered',
                          f'tokens seen by the handlers {got_tok!r}', case0)
        if down:
            sc.face.running = False       # the face went down between the Interests and the replies
        for perm in perms:
            if late is not None and perm is perms[-1]:
                env.loop.advance_to(env.loop.time() + late)
            hist = list(events)
            outs = []
            before_all = len(sc.face.sent)
            for j in perm:
                data = bytes(make_data(f'/h/t/{j}', MetaInfo(), bytes([j]) * rng.choice([0, 1, 30]), None))
                before = len(sc.face.sent)
                now = env.loop.now_ms()
                try:
                    sc.closures[j](data)
                    out = sc.face.sent[before:]
                except Exception as e:   # noqa
                    out = exc_obs(e)
                outs.append((j, data, out, now))
                hist.append([1, j, now, data])
            m = ctx.call([11, 0 if down else 1, hist])
            case = {'tokens': tokens, 'order': list(perm), 'origin': origin}
            for (j, data, out, now), mo in zip(outs, m):
                deadline = events[j][2]
                spec = [] if now > deadline else [bytes(ctx.call([9, events[j][1], data]))]
                mod = [bytes(x) for x in mo[1][1]] if not is_err(mo[1]) else ('raise', 'NetworkError' if mo[1][1] == 101 else mo[1][1])
                if down:
                    # property: nothing may be put on a face that is down; the reply fails with NetworkError
                    if sc.face.sent[before_all:]:
                        ctx.violation('NDNApp.v2.reply', 'sent-on-closed-face', f'{sc.face.sent[before_all:]!r}', case)
                    if mo[0] != j or mod != out:
                        ctx.disagree('reply', 'face down: model and implementation differ', case, mo, out)
                    continue
                if mo[0] != j or mod != out:
                    ctx.disagree('reply', 'model and implementation send different bytes', case, mo, out)
                tok = tokens[j]
                if (out != [] if not spec else (isinstance(out, tuple) or not echoes(ctx, out, tok, data))):
                    cls = 'reply-differs' if tok is None else ('reply-not-echoing-token:empty' if tok == b'' else 'reply-not-echoing-token')
                    ctx.violation('NDNApp.v2.reply', cls,
                                  f'Interest {j} arrived with token {tok!r}; reply put {out!r} on the face, expected {spec!r}', case)
            ctx.case((tuple(tokens), tuple(perm)), len(perm) >= 2, case, f'D.k{len(tokens)}.{origin}')
    finally:
        env.close()


# ---- E. codec functions ----------------------------------------------------------------------------
def check_codecs(ctx, wire):
    from ndn.encoding import ndnlp_v2 as LPM
    for op, fn, nm in ((5, LPM.parse_lp_packet, 'parse_lp_packet'), (6, LPM.parse_network_nack, 'parse_network_nack')):
        try:
            r, f = fn(wire)
            impl = [[] if r is None else [r], [] if f is None else [bytes(f)]]
        except Exception as e:   # noqa
            impl = ('err', type(e).__name__, caught_decode(e))
        m = ctx.call([op, wire])
        case = {'function': nm, 'wire': wire}
        if is_err(m):
            if not (isinstance(impl, tuple)):
                ctx.disagree(nm, 'model rejects, implementation accepts', case, m, impl)
        else:
            mm = [m[1][0], [bytes(x) for x in m[1][1]]]
            if isinstance(impl, tuple):
                ctx.disagree(nm, 'implementation rejects, model accepts', case, mm, impl)
            elif mm != impl:
                ctx.disagree(nm, 'different result', case, mm, impl)
        if isinstance(impl, tuple) and not impl[2]:
            ctx.violation(nm, 'undocumented-exception:' + impl[1], f'raises {impl[1]}', case)
        # spec: on a well-formed envelope the function reports the spec's reason and fragment
        s = ctx.call([3, LP, wire])
        if not isinstance(impl, tuple) and s[0] == 2:
            if impl != [[s[1]], [bytes(s[2])]]:
                els = top_elements(wire)
                cls = 'header-out-of-order' if els is not None and not in_declared_order(els, ORDER) else 'nack-wrong-reason'
                ctx.violation(nm, cls, f'spec reads Nack {s[1]}, function returned {impl!r}', case)
        ctx.case((op, wire), len(wire) > 6, None, f'E.{nm}')
    # parse_lp_packet_v2 with and without the outer Type/Length
    ldesc = LDESC[0]
    inner = None
    try:
        _, a = TG.read_num(wire, 0)
        _, b = TG.read_num(wire, a)
        inner = wire[a + b:]
    except Exception:   # noqa
        pass
    for with_tl, w in ((True, wire), (False, inner)):
        if w is None:
            continue
        try:
            impl = D.from_py(ldesc, LPM.parse_lp_packet_v2(w, with_tl))[1]
        except Exception as e:   # noqa
            impl = ('err', type(e).__name__, caught_decode(e))
        m = ctx.call([13, 1 if with_tl else 0, w])
        case = {'function': 'parse_lp_packet_v2', 'with_tl': with_tl, 'wire': w}
        if is_err(m):
            if not isinstance(impl, tuple):
                ctx.disagree('parse_lp_packet_v2', 'model rejects, implementation accepts', case, m, impl)
        else:
            mv = [D.val_of_sexp(x) for x in m[1]]
            if isinstance(impl, tuple):
                ctx.disagree('parse_lp_packet_v2', 'implementation rejects, model accepts', case, mv, impl)
            elif mv != impl:
                ctx.disagree('parse_lp_packet_v2', 'different fields', case, mv, impl)
        if isinstance(impl, tuple) and not impl[2]:
            ctx.violation('parse_lp_packet_v2', 'undocumented-exception:' + impl[1], f'raises {impl[1]}', case)
        # oracle: a fragmented envelope is refused, with or without the outer Type/Length
        if not isinstance(impl, tuple) and ctx.call([3, LP, wire]) == [11]:
            els = top_elements(wire)
            cls = 'header-out-of-order' if els is not None and not in_declared_order(els, ORDER) else 'fragmented-accepted'
            ctx.violation('parse_lp_packet_v2', cls, 'the envelope carries FragIndex/FragCount and is accepted', case)
        ctx.case((13, with_tl, w), len(w) > 6, None, f'E.parse_lp_packet_v2.tl{int(with_tl)}')


def check_make_nack(ctx, interest, r):
    from ndn.encoding import make_network_nack
    try:
        w = bytes(make_network_nack(interest, r))
    except Exception as e:   # noqa
        w = ('err', type(e).__name__)
    m = ctx.call([4, interest, r])
    case = {'interest': interest, 'reason': r}
    if is_err(m) != isinstance(w, tuple) or (not is_err(m) and bytes(m[1]) != w):
        ctx.disagree('make_network_nack', 'model and implementation differ', case, m, w)
    if r < (1 << 64):
        spec = bytes(ctx.call([10, interest, r]))
        if w != spec:
            ctx.violation('make_network_nack', 'nack-bytes', f'expected {spec!r}, got {w!r}', case)
    ctx.case(('mk', interest, r), True, case, 'E.make_network_nack')


def check_put_token(ctx, env, data, token, running=True):
    app, face = mk_app(2)
    face.running = running
    try:
        app._put_raw_packet_with_pit_token(data, token)
        out = list(face.sent)
    except Exception as e:   # noqa
        out = ('err', type(e).__name__)
    m = ctx.call([7, 1 if running else 0, data, token])
    case = {'data': data, 'token': token, 'running': running}
    if is_err(m):
        if not isinstance(out, tuple) or (m[1] == 101) != (out[1] == 'NetworkError'):
            ctx.disagree('_put_raw_packet_with_pit_token', 'model raises, implementation differs', case, m, out)
    elif isinstance(out, tuple) or [bytes(x) for x in m[1]] != out:
        ctx.disagree('_put_raw_packet_with_pit_token', 'different bytes', case, m, out)
    if running:
        spec = [bytes(ctx.call([9, [token], data]))]
        if isinstance(out, tuple) or not echoes(ctx, out, token, data):
            ctx.violation('NDNApp.v2.reply', 'reply-not-echoing-token' + (':empty' if token == b'' else ''),
                          f'expected {spec!r}, got {out!r}', case)
    ctx.case(('put', data, token, running), True, None, 'E.put_with_token')
    # the stream-face variant kept "as a backup": header and data are sent separately; on the wire they are one envelope
    if hasattr(app, '_put_raw_packet_with_pit_token_nocopy'):
        del face.sent[:]
        try:
            app._put_raw_packet_with_pit_token_nocopy(data, token)
            sends = list(face.sent)
            out2 = [b''.join(sends)]
        except Exception as e:   # noqa
            sends = out2 = ('err', type(e).__name__)
        m2 = ctx.call([14, 1 if running else 0, data, token])
        if is_err(m2):
            if not isinstance(out2, tuple) or (m2[1] == 101) != (out2[1] == 'NetworkError'):
                ctx.disagree('_put_raw_packet_with_pit_token_nocopy', 'model raises, implementation differs', case, m2, out2)
        elif isinstance(out2, tuple) or [bytes(x) for x in m2[1]] != sends:
            ctx.disagree('_put_raw_packet_with_pit_token_nocopy', 'the two sends differ', case, m2, sends)
        if running and (isinstance(out2, tuple) or not echoes(ctx, out2, token, data)):
            ctx.violation('NDNApp.v2.reply_nocopy', 'reply-not-echoing-token' + (':empty' if token == b'' else ''),
                          f'the bytes sent {out2!r} are not an envelope carrying token {token!r} and the data unmodified', case)
        ctx.case(('put-nocopy', data, token, running), True, None, 'E.put_with_token_nocopy')


# ---- driver --------------------------------------------------------------------------------------
def run(ctx):
    import logging
    logging.disable(logging.CRITICAL)      # the library logs a warning for every dropped packet
    from ndn.encoding import ndnlp_v2 as LPM
    rng = ctx.rng
    order = ORDER
    LDESC[0] = D.reflect_class(LPM.LpPacketValue)
    pkts = packet_stream(ctx, ctx.n(40, 400))
    interests = [w for k, w in pkts if k == 'interest']

    # ---------------- A: prologue, both front-ends
    env = Env()
    try:
        P = {2: Prologue(env, 2), 1: Prologue(env, 1)}

        def both(typ, wire, origin, wellformed):
            for ver in (2, 1):
                check_prologue(ctx, P[ver], typ, wire, origin, wellformed, order)
            if typ == LP:
                check_codecs(ctx, wire)

        # corpus: the witnesses of the findings, replayed first
        i0 = interests[0]
        both(LP, G.tlv(LP, G.tlv(T_NACK, b'') + G.tlv(T_FRAG, i0)), 'corpus.nack-noreason', True)
        both(LP, G.tlv(LP, b''), 'corpus.idle', True)
        both(LP, G.tlv(LP, G.tlv(T_FRAG, b'')), 'corpus.empty-fragment', True)
        both(LP, G.tlv(LP, G.tlv(T_FRAG, b'\xfd\x00')), 'corpus.short-fragment', True)
        both(LP, G.tlv(LP, G.tlv(T_TOKEN, b'') + G.tlv(T_FRAG, i0)), 'corpus.empty-token', True)
        both(LP, G.tlv(LP, G.tlv(T_TOKEN, b'k') + G.tlv(T_FIDX, b'\x00') + G.tlv(T_FRAG, i0)), 'corpus.misordered-fragindex', False)
        both(LP, G.tlv(LP, G.tlv(0x32C, b'\x01') + G.tlv(T_NACK, b'') + G.tlv(T_FRAG, i0)), 'corpus.misordered-nack', False)
        both(LP, G.tlv(LP, G.tlv(0x32C, b'\x01') + G.tlv(T_TOKEN, b'k') + G.tlv(T_FRAG, i0)), 'corpus.misordered-token', False)

        all_subsets = [tuple(h for j, h in enumerate(OPTIONAL) if m >> j & 1) for m in range(1 << len(OPTIONAL))]
        for pi, (kind, pkt) in enumerate(pkts):
            both(typ_of(pkt), pkt, 'bare', True)
            if pi < ctx.n(2, 40):
                subsets = all_subsets
            else:
                subsets = rng.sample(all_subsets, ctx.n(12, 64)) + [(), ('pit_token',)]
            for hs in subsets:
                w, _ = envelope(rng, order, hs, pkt, unknown=rng.choice([0, 0, 1, 3]))
                both(LP, w, 'wrapped', True)
            for _ in range(ctx.n(3, 8)):
                hs = rng.choice(all_subsets)
                # Nack headers (only meaningful around an Interest, but the prologue must behave for any fragment)
                r = rng.choice(REASONS)
                wd = rng.choice([None, None, 8, 4]) if r < (1 << 32) else None
                w, _ = envelope(rng, order, hs, pkt, nack=rng.choice([(r, wd), 'noreason']), unknown=rng.choice([0, 2]))
                both(LP, w, 'nack', True)
                # fragmentation headers in their declared place
                fr = rng.choice([[(T_FIDX, 0)], [(T_FCNT, 1)], [(T_FIDX, 0), (T_FCNT, 1)], [(T_FIDX, 3), (T_FCNT, 9)]])
                w, _ = envelope(rng, order, hs, pkt, frag=fr, nack=rng.choice([None, None, 50]), unknown=rng.choice([0, 1]))
                both(LP, w, 'fragmented', True)
                # any order of the headers (malformed order: correspondence + O1 only)
                w, els = envelope(rng, order, hs, pkt, nack=rng.choice([None, None, 150, 'noreason']),
                                  frag=rng.choice([[], [], [(T_FIDX, 1)]]), unknown=rng.choice([0, 1]))
                rng.shuffle(els)
                both(LP, G.tlv(LP, TG.ser(els)), 'shuffled', False)
                # no fragment / empty fragment / fragment too short for a Type
                w, _ = envelope(rng, order, hs, rng.choice([None, b'', b'\xfd', b'\xfe\x00\x00', b'\xff' + b'\x00' * 7, b'\x05']),
                                nack=rng.choice([None, 50]), unknown=rng.choice([0, 1]))
                both(LP, w, 'idle', True)
            # nested envelope, other outer types
            w, _ = envelope(rng, order, (), G.tlv(LP, G.tlv(T_FRAG, pkt)))
            both(LP, w, 'nested', True)
            w, _ = envelope(rng, order, rng.choice(all_subsets), pkt, unknown=1)
            for m in small_mutants(rng, w, ctx.n(4, 12)):
                both(LP, m, 'mutant', False)
                if rng.random() < 0.3 and len(m) > 0:
                    both(m[0], m, 'mutant-typ', False)
        for _ in range(ctx.n(300, 6000)):
            body = G.rand_bytes(rng, rng.choice([0, 1, 2, 3, 5, 8, 16, 40, 200]))
            both(LP, body if rng.random() < 0.2 else G.tlv(LP, body), 'random', False)
            both(rng.choice([5, 6, 7, 0x65, 0]), body, 'random-bare', False)
    finally:
        env.close()

    # ---------------- E: codec functions
    for r in REASONS + [(1 << 64), (1 << 64) + 5]:
        for it in (interests[0], b'', interests[1][:3]):
            check_make_nack(ctx, it, r)
    for _ in range(ctx.n(40, 600)):
        check_make_nack(ctx, rng.choice(interests), rng.getrandbits(rng.randint(1, 64)))
    env = Env()
    try:
        for tl_ in TOKEN_LENS + [252, 253, 300]:
            check_put_token(ctx, env, rng.choice(interests), G.rand_bytes(rng, tl_))
        for dl in [0, 1, 200, 245, 246, 247, 248, 252, 253, 254, 65530, 65535, 65536, 70000]:
            check_put_token(ctx, env, G.rand_bytes(rng, dl), G.rand_bytes(rng, rng.choice([0, 4, 32])))
        check_put_token(ctx, env, interests[0], b'tok', running=False)
    finally:
        env.close()

    # ---------------- B: end to end, twin runs
    pend = pending_for(pkts, rng)
    for pi, (kind, pkt) in enumerate(pkts[:ctx.n(24, 200)]):
        for ver in (2, 1):
            subsets = all_subsets if (ctx.thorough and pi < 6) else rng.sample(all_subsets, ctx.n(3, 10)) + [('pit_token',)]
            for hs in subsets:
                tok = G.rand_bytes(rng, rng.choice(TOKEN_LENS)) if 'pit_token' in hs else None
                if tok is not None and rng.random() < 0.25:
                    tok = b''
                w, _ = envelope(rng, order, hs, pkt, token=tok, unknown=rng.choice([0, 0, 2]))
                # only the pending Interests that matter for this packet keep the run cheap
                mine = [pend[pi // 2]] if kind == 'data' else []
                check_transparent(ctx, ver, mine, pkt, w, tok, kind, {'headers': list(hs)})

    # ---------------- C: Nack
    for ver in (2, 1):
        for r in REASONS:
            run_nacks(ctx, ver, order, 2, [(0, r, None, 0)], 'make_network_nack')
        for _ in range(ctx.n(25, 300)):
            n = rng.randint(1, 5)
            idxs = list(range(n))
            rng.shuffle(idxs)
            plan = []
            for i in idxs[:rng.randint(1, n)]:
                r = rng.choice(REASONS)
                nack = rng.choice([(r, rng.choice([None, 8]) if r < 256 else None), 'noreason'])
                plan.append((i, nack, rng.choice(all_subsets), rng.choice([0, 0, 2])))
            if rng.random() < 0.3:
                plan.append(plan[0][:1] + (77, (), 0))     # a second Nack for an Interest already completed
            run_nacks(ctx, ver, order, n, plan, 'headers')
    import time
    t0 = time.time()
    nack_tables(ctx, order, all_subsets)
    ctx.extra['wall_nack_tables_s'] = round(time.time() - t0, 1)

    # ---------------- D: token echo
    def toks(k):
        lens = rng.sample(TOKEN_LENS, k)
        ts = [G.rand_bytes(rng, n) for n in lens]
        if rng.random() < 0.4:
            ts[rng.randrange(k)] = None
        return ts
    for L in TOKEN_LENS:       # every token length once, alone
        run_tokens(ctx, order, [G.rand_bytes(rng, L)], [(0,), (0,)], 'len', hdr_extra=False)
    for k in range(1, 6):
        allp = list(itertools.permutations(range(k)))
        for rep in range(ctx.n(2, 6)):
            perms = allp if (ctx.thorough or k <= 3) else rng.sample(allp, 8)
            run_tokens(ctx, order, toks(k), perms, 'perm', late=(5.0 if rep == 0 else None))
        run_tokens(ctx, order, toks(k), allp[:2], 'face-down', down=True)


def replay(ctx, data):
    """single-case replay of a prologue / codec case (typ, wire); anything else: the seeded run is repeated"""
    import logging
    logging.disable(logging.CRITICAL)
    from harness.lib.core import unjson
    case = unjson(data.get('case', {}))
    from ndn.encoding import ndnlp_v2 as LPM
    LDESC[0] = D.reflect_class(LPM.LpPacketValue)
    if isinstance(case, dict) and 'wire' in case and ('typ' in case or 'function' in case):
        env = Env()
        try:
            typ = case.get('typ', LP)
            for ver in (2, 1):
                check_prologue(ctx, Prologue(env, ver), typ, case['wire'], 'replay', True, ORDER)
            if typ == LP:
                check_codecs(ctx, case['wire'])
        finally:
            env.close()
    elif isinstance(case, dict) and 'table' in case:
        # a table scenario: same table word and returned entry, the reason the stored envelope carries
        sp = ctx.call([3, LP, case['envelope']])
        r = sp[1] if sp[0] == 2 else 0
        run_nack_table(ctx, 2 if case.get('front_end') == 'appv2' else 1, ORDER, case['table'],
                       case['returned_interest_of_entry'], r, (), 0, 'replay')
    else:
        run(ctx)
