"""C20 — client configuration resolves with environment over file over platform default.

Every case is run three ways:
 * correspondence: the extracted Coq model (Model/ClientConf.v over Model/ConfBase.v) against
   ndn.client_conf on the same world — real files in a temporary tree, real os.environ, the
   answers of os.path.exists handed to the model as a finite set;
 * direct oracle: Spec/ClientConfSpec.v (extracted) evaluated on what the implementation returned
   (precedence per key, location clause, face denoted by a URI, unknown scheme = error);
 * primitive checks: the CPython pieces the model re-implements (configparser, urlsplit,
   os.path.join/dirname/expandvars, ipaddress, str.isspace) against CPython itself.

Two ways of presenting the file system: 'direct' (HOME inside the temp tree, nothing patched, only
the per-user candidate can exist) and 'remap' (os.path.exists / open seen by client_conf are
redirected below the temp root, so that /etc/ndn/client.conf, /run/nfd.sock ... can exist).
"""
import builtins
import configparser
import io
import itertools
import os
import posixpath
import pwd
import shutil
import tempfile
import urllib.parse

from harness.lib.model import is_err

RULE = ('worlds: {3 env vars present/absent} x {3 keys present/absent in the file} x {no file, each candidate, '
        'several candidates} x 7 store-location scenarios (exists as given / missing+default / relative to the file / '
        'relative to cwd / nothing exists / location containing ":" / no location), in a real temp tree, direct and '
        'remapped; random well-formed client.conf texts (comments, blank lines, padding, odd values) and a malformed '
        'corner list; HOME variants; NFD socket variants.  URIs: 13 schemes x hosts (names, IPv4, IPv6 incl. zones, '
        'bad brackets) x ports (none, bounds, 0, >65535, non-digits) x tails, plus a raw corner list and mutants.  '
        'non-trivial = at least one source (env/file) set or a URI with a host; distinct by case hash')
ASSUMPTIONS = [
    'Linux platform only (sys.platform == "linux"); osx/win32 branches of Platform and of default_keychain are not modelled',
    'CPython 3.12 semantics of configparser (interpolation=None), urllib.parse.urlsplit/.hostname/.port, ipaddress, '
    'os.path.join/dirname/expanduser/expandvars and str.strip are re-implemented in Model/ConfBase.v and compared with '
    'CPython on every run (not verified)',
    'option names in client.conf and host names in URIs: non-ASCII letters are caseless (str.lower is modelled for ASCII only); netloc of a '
    'URI: the NFKC check of urlsplit (unicodedata) is an oracle answered by CPython itself',
    'os.path.exists is a finite set supplied by the harness (evaluated with the real function over every path string '
    'the case mentions or the implementation asked about); file decoding/newline translation is CPython\'s',
]

T, P_, M_ = 'transport', 'pib', 'tpm'
KEYS = (T, P_, M_)
ENV = {k: 'NDN_CLIENT_' + k.upper() for k in KEYS}


# ---- encoding helpers ---------------------------------------------------------------------------
def s_of_str(s):
    cps = [ord(c) for c in s]
    return bytes(cps) if all(c < 256 for c in cps) else cps


def m_str(x):
    return ''.join(chr(c) for c in x)


def m_opt(x, f=m_str):
    return None if len(x) == 0 else f(x[0])


def exc_code(e):
    if isinstance(e, configparser.Error):
        return 102
    if isinstance(e, NameError):
        return 103
    if isinstance(e, UnicodeError):
        return 6
    if isinstance(e, ValueError):
        return 3
    if isinstance(e, OSError):
        return 101
    if isinstance(e, TypeError):
        return 5
    if isinstance(e, KeyError):
        return 7
    if isinstance(e, AttributeError):
        return 9
    if isinstance(e, IndexError):
        return 2
    return 1000


def impl(fn, *a):
    try:
        return ('ok', fn(*a))
    except Exception as e:   # noqa
        return ('err', exc_code(e), type(e).__name__)


def cmp_res(ctx, site, case, m, r, conv=lambda x: x, mconv=lambda x: x):
    if is_err(m):
        if m[1] in (98, 99):
            ctx.disagree(site, 'model: bad request / fuel / out of scope', case, m, r[1:])
            return False
        if r[0] == 'ok':
            ctx.disagree(site, 'model raises, implementation returns', case, m, conv(r[1]))
            return False
        if m[1] != r[1]:
            ctx.disagree(site, 'different exception classes', case, m, r[1:])
            return False
        return True
    if r[0] == 'err':
        ctx.disagree(site, 'implementation raises, model returns', case, mconv(m[1]), r[1:])
        return False
    a, b = mconv(m[1]), conv(r[1])
    if a != b:
        ctx.disagree(site, 'different results', case, a, b)
        return False
    return True


# ---- the sandbox ------------------------------------------------------------------------------------
class Sandbox:
    """Real environment + real files; in 'remap' mode the paths client_conf uses are looked up below root."""
    VCWD = '/work'

    def __init__(self, root, mode, env):
        self.root, self.mode, self.env = root, mode, env
        self.queries = []

    def real(self, p):
        if p.startswith('/'):
            return self.root + p if self.mode == 'remap' else p
        return self.root + self.VCWD + '/' + p

    def __enter__(self):
        import ndn.client_conf as CC
        self.CC = CC
        self.saved_env = dict(os.environ)
        os.environ.clear()
        os.environ.update(self.env)
        self.saved_cwd = os.getcwd()
        self.real_exists = posixpath.exists
        sb = self

        def exists(p):
            r = sb.real_exists(sb.real(p)) if isinstance(p, str) else sb.real_exists(p)
            sb.queries.append(p)
            return r
        posixpath.exists = exists
        if self.mode == 'remap':
            CC.open = lambda p, *a, **k: builtins.open(sb.real(p), *a, **k)
        else:
            os.chdir(self.root + self.VCWD)
        return self

    def __exit__(self, *a):
        posixpath.exists = self.real_exists
        if 'open' in self.CC.__dict__:
            del self.CC.open
        os.chdir(self.saved_cwd)
        os.environ.clear()
        os.environ.update(self.saved_env)

    def exists_now(self, p):
        return posixpath.exists(self.real(p))


def wipe(root):
    for n in os.listdir(root):
        p = os.path.join(root, n)
        if os.path.isdir(p) and not os.path.islink(p):
            shutil.rmtree(p)
        else:
            os.remove(p)


# ---- client.conf text --------------------------------------------------------------------------------
def enc_line(l):
    if l[0] == 'E':
        _, k, w1, d, w2, v, w3 = l
        return [0, s_of_str(k), s_of_str(w1), ord(d), s_of_str(w2), s_of_str(v), s_of_str(w3)]
    if l[0] == 'C':
        return [1, s_of_str(l[1]), ord(l[2]), s_of_str(l[3])]
    return [2, s_of_str(l[1])]


PADS = ['', '', '', ' ', ' ', '  ', '\t', ' \t', '\xa0', '\u3000', '\x0c', '\x1f']
COMMENTS = ['', ' a comment', 'transport=tcp://commented:1', ' pib=pib-sqlite3:/nowhere', ' [section]', ' 100% ; # = :']


def rand_lines(rng, entries, fancy=True):
    """entries: list of (key, value).  Interleave comments / blank lines, random padding."""
    ls = []
    for k, v in entries:
        while rng.random() < 0.35:
            if rng.random() < 0.6:
                ls.append(('C', rng.choice(PADS) if fancy else '', rng.choice(';#'), rng.choice(COMMENTS)))
            else:
                ls.append(('B', rng.choice(PADS) if fancy else ''))
        if fancy:
            ls.append(('E', k, rng.choice(PADS), rng.choice('===:'), rng.choice(PADS), v, rng.choice(PADS)))
        else:
            ls.append(('E', k, '', '=', '', v, ''))
    while rng.random() < 0.3:
        ls.append(('C', '', ';', rng.choice(COMMENTS)) if rng.random() < 0.5 else ('B', ''))
    return ls


RAW_TEXTS = [
    'transport=tcp://a:1\ntransport=tcp://b:2\n',            # duplicate key
    'transport=tcp://a:1\nTransport=tcp://b:2\n',            # duplicate up to case
    'transport=tcp://a:1\n tpm=tpm-file:/x\n',               # continuation line
    'transport=tcp://a:1\n\n  more\npib=pib-sqlite3:/x\n',   # continuation after an empty line
    '  transport=tcp://a:1\npib=pib-sqlite3\n',              # indented first entry
    '  transport=tcp://a:1\n pib=pib-sqlite3\n',             # less indented than the first
    'transport tcp://a\n',                                   # ':' is a delimiter too
    'transport\n',                                           # no delimiter
    'just some words\npib=pib-sqlite3\n',
    '=value\n', ': value\n', ' = \n',
    '[other]\ntransport=tcp://a:1\n',                        # key hidden in another section
    '[other]\ntransport=tcp://a:1\n[DEFAULT]\npib=pib-sqlite3:/y\n',
    '[other]\na=1\n[other]\nb=2\n',                          # duplicate section
    '[DEFAULT]\ntransport=tcp://a:1\n',
    '[DEFAULT]\ntransport=tcp://a:1\n[DEFAULT]\ntransport=tcp://b:1\n',
    '[]\n', '[]x]\ntransport=udp://h\n', '[a] trailing\ntpm=tpm-file\n', '[a\ntpm=tpm-file\n',
    'transport=tcp://a:1 ; not a comment\n', 'transport=tcp://a:1 # neither\n',
    'transport=\n', 'transport=\npib=\ntpm=\n', 'pib\n=x\n',
    'transport=tcp://h%41\n', 'transport=tcp://h%%41\n', 'pib=%(tpm)s\ntpm=tpm-file\n', 'tpm=%(\n',
    'transport=tcp://a:1', 'transport=tcp://a:1\n\n\n', '\n\n\ntransport=tcp://a:1\n',
    '', '\n', ';only a comment', '#x\n;y\n',
    'TRANSPORT = udp://UP:9\nPIB : pib-sqlite3\n',
    'transport=tcp://a:1\r\npib=pib-sqlite3\r\n', 'transport=tcp://a:1\rpib=pib-sqlite3\r',
    'transport=tcp://a:1\x0bpib=x\n', 'transport=tcp://a:1\x0c\n', 'tr\u00e4nsport=1\n\u2003pib=pib-sqlite3\n',
    'transport=tcp://a:1\n;c\n more\n', 'transport=tcp://a:1\n ;c\n', 'transport=a\n\n;c\n\n b\n',
    'tpm = tpm-file : /x : y\n', 'a=1\nb=2\nc=3\ntpm=tpm-file:/k\nd=4\n',
    '\ufefftransport=tcp://bom:1\n',
]


# ---- conf cases -----------------------------------------------------------------------------------------
class Conf:
    """One world for read_client_conf, described with virtual paths; pfx is '' (remap) or the temp root (direct)."""

    def __init__(self, mode, pfx):
        self.mode, self.pfx = mode, pfx
        self.env = {}
        self.dirs, self.files = set(), {}
        self.confs = {}          # candidate index -> ('lines', ls) | ('raw', text) | ('dir',)
        self.mentions = set()
        self.desc = {}

    def P(self, p):
        return self.pfx + p if p.startswith('/') else p


def conf_candidates_virtual(home):
    return [home.rstrip('/') + '/.ndn/client.conf', '/usr/local/etc/ndn/client.conf',
            '/opt/local/etc/ndn/client.conf', '/etc/ndn/client.conf']


def run_conf_case(ctx, root, c, M, stratum):
    """c: Conf.  Builds the tree, runs implementation and model, compares, evaluates the oracle."""
    from ndn.client_conf import read_client_conf
    wipe(root)
    os.makedirs(root + Sandbox.VCWD, exist_ok=True)
    sb = Sandbox(root, c.mode, c.env)
    for d in sorted(c.dirs):
        os.makedirs(sb.real(c.P(d)), exist_ok=True)
    for f, text in sorted(c.files.items()):
        rp = sb.real(c.P(f))
        os.makedirs(os.path.dirname(rp), exist_ok=True)
        with open(rp, 'w', newline='', encoding='utf-8') as fh:
            fh.write(text)
    with sb:
        r = impl(read_client_conf)
    # the finite os.path.exists oracle for the model
    universe = set(c.P(p) for p in c.mentions) | set(q for q in sb.queries if isinstance(q, str))
    env_pairs = [[s_of_str(k), s_of_str(v)] for k, v in c.env.items()]
    pw = pwd.getpwuid(os.getuid()).pw_dir
    plat0 = M([11, env_pairs, [], s_of_str(pw)])
    for p in plat0[0] + plat0[3] + plat0[5]:
        universe.add(m_str(p))
    universe |= {'/run/nfd/nfd.sock', '/run/nfd.sock'}
    fs = sorted(p for p in universe if '\x00' not in p and sb.exists_now(p))
    fs_m = [s_of_str(p) for p in fs]
    files_m = []
    for p in fs:
        if p.endswith('client.conf'):
            try:
                with open(sb.real(p)) as fh:
                    files_m.append([s_of_str(p), [1, s_of_str(fh.read())]])
            except UnicodeDecodeError:
                files_m.append([s_of_str(p), [0, 6]])
            except OSError:
                files_m.append([s_of_str(p), [0, 101]])
    m = M([1, env_pairs, fs_m, files_m, s_of_str(pw)])
    case = {'mode': c.mode, 'pfx': c.pfx, 'env': c.env, 'dirs': sorted(c.dirs), 'files': c.files, 'desc': c.desc,
            'confs': {str(k): list(v) for k, v in c.confs.items()}, 'mentions': sorted(c.mentions)}
    cmp_res(ctx, 'read_client_conf', case, m, r, lambda d: [d.get(T), d.get(P_), d.get(M_)],
            lambda x: [m_str(y) for y in x])
    # ---- direct oracle: Spec on the implementation's answer ----
    plat = M([11, env_pairs, fs_m, s_of_str(pw)])
    cand = [m_str(x) for x in plat[0]]
    dflt = {T: m_str(plat[1]), P_: m_str(plat[2]), M_: m_str(plat[4])}
    dpaths = {P_: [m_str(x) for x in plat[3]], M_: [m_str(x) for x in plat[5]]}
    home = c.env.get('HOME', pw)
    if '$' in home:
        ctx.stat('oracle.skipped.home-with-dollar')
        ctx.case(('conf', repr(case)), True, case, stratum)
        return r
    cfg = next((p for p in cand if p in fs), None)
    file_vals, structured = {k: None for k in KEYS}, True
    if cfg is not None:
        idx = cand.index(cfg)
        kind = c.confs.get(idx, ('raw', None))
        if kind[0] == 'lines':
            sp = M([20, [enc_line(l) for l in kind[1]]])
            if not sp[0]:
                structured = False
                ctx.stat('oracle.lines-not-wf')
            else:
                if m_str(sp[1]) != c.files.get(c_virtual(c, cfg)):
                    ctx.disagree('spec.render', 'rendered text differs from the file written', case, m_str(sp[1]), None)
                file_vals = {T: m_opt(sp[2]), P_: m_opt(sp[3]), M_: m_opt(sp[4])}
        else:
            structured = False
    if r[0] == 'err':
        if structured:
            ctx.violation('read_client_conf', f'well-formed-config-raises:{r[2]}',
                          f'read_client_conf raised {r[2]} on a well-formed configuration', case)
        ctx.case(('conf', repr(case)), True, case, stratum)
        return r
    d = r[1]
    for k in KEYS:
        env_v = c.env.get(ENV[k])
        if not structured and env_v is None:
            continue                               # file content outside the specified class: only the env clause
        src = 'env' if env_v is not None else ('file' if file_vals[k] is not None else 'platform')
        raw = m_str(M([21, [s_of_str(env_v)] if env_v is not None else [],
                       [s_of_str(file_vals[k])] if file_vals[k] is not None else [], s_of_str(dflt[k])]))
        got = d.get(k)
        if not isinstance(got, str):
            ctx.violation('read_client_conf', f'precedence-{k}-{src}', f'{k} is {got!r}', case)
            continue
        if k == T:
            if got != raw:
                ctx.violation('read_client_conf', f'precedence-{k}-{src}',
                              f'transport is {got!r}, the {src} value is {raw!r}', case)
            continue
        sch, loc = [m_str(x) for x in M([25, s_of_str(raw)])]
        gsch, gsep, gloc = got.partition(':')
        if gsch != sch or not gsep:
            ctx.violation('read_client_conf', f'precedence-{k}-{src}',
                          f'{k} is {got!r}, the {src} value is {raw!r} (scheme {sch!r})', case)
            continue
        exp = M([22, fs_m, [s_of_str(cfg)] if cfg is not None else [], [s_of_str(x) for x in dpaths[k]], s_of_str(loc)])
        if len(exp) == 0:
            ctx.stat(f'location.{k}.unconstrained')
            continue
        exp = m_str(exp[0])
        if loc and loc in fs:
            clause = 'as-given'
        elif loc and cfg is not None and posixpath.join(posixpath.dirname(cfg), loc) in fs:
            clause = 'relative-to-config'
        else:
            clause = 'platform-default'
        ctx.stat(f'location.{k}.{clause}')
        if gloc != exp:
            ctx.violation('read_client_conf', f'location-{k}-{clause}',
                          f'{k} location is {gloc!r}, expected {exp!r} ({clause}; setting {raw!r})', case)
    ctx.case(('conf', repr(case)), bool(c.confs) or any(v in c.env for v in ENV.values()), case, stratum)
    return r


def c_virtual(c, real_path):
    return real_path[len(c.pfx):] if c.pfx and real_path.startswith(c.pfx) else real_path


# store-location scenarios: returns the location text and creates what must exist
def store_loc(c, item, scen, tag, cfgdir):
    """tag distinguishes sources (E/F); cfgdir: virtual dir of the config file in use or None."""
    base = f'/data/{item}{tag}'
    dflt_dir = c.desc['home_eff'] + ('/.ndn' if item == P_ else '/.ndn/ndnsec-key-file')
    if scen == 'abs-exists':
        c.dirs.add(base)
        c.mentions.add(base)
        return c.P(base)
    if scen == 'abs-missing-default':
        c.dirs.add(dflt_dir)
        c.mentions.add(base)
        return c.P(base)
    if scen == 'rel-config':
        rel = f'stores/{item}{tag}'
        if cfgdir is not None:
            c.dirs.add(cfgdir + '/' + rel)
            c.mentions.add(cfgdir + '/' + rel)
        c.mentions.add(rel)
        return rel
    if scen == 'rel-cwd':
        rel = f'cwdstores/{item}{tag}'
        c.dirs.add(Sandbox.VCWD + '/' + rel)
        c.mentions.add(rel)
        return rel
    if scen == 'nothing':
        c.mentions.add(base)
        return c.P(base)
    if scen == 'colon':
        p = f'/data/{item}{tag}:site:a'
        c.dirs.add(p)
        c.mentions.add(p)
        return c.P(p)
    if scen == 'empty':
        c.dirs.add(dflt_dir)
        return None
    raise AssertionError(scen)


SCENARIOS = ['abs-exists', 'abs-missing-default', 'rel-config', 'rel-cwd', 'nothing', 'colon', 'empty']
CONF_SETS = {'remap': [(), (0,), (1,), (3,), (0, 2), (1, 3), (2,)], 'direct': [(), (0,)]}


def product_cases(ctx, root, M, mode, rng, sample=1.0):
    pfx = '' if mode == 'remap' else root
    for envmask in range(8):
        for filemask in range(8):
            for confset in CONF_SETS[mode]:
                for si, scen in enumerate(SCENARIOS):
                    if sample < 1.0 and rng.random() > sample:
                        continue
                    c = Conf(mode, pfx)
                    home = '/home/u'
                    c.env['HOME'] = c.P(home)
                    c.desc = {'env': envmask, 'file': filemask, 'confs': confset, 'scen': scen, 'home_eff': home}
                    cands = conf_candidates_virtual(home)
                    for x in cands:
                        c.mentions.add(x)
                    cfgdir = posixpath.dirname(cands[confset[0]]) if confset else None
                    scen_t = SCENARIOS[(si + 3) % len(SCENARIOS)]
                    # file entries (first existing candidate gets the keys of filemask; later candidates get
                    # decoy values that must never win)
                    for j, ci in enumerate(confset):
                        ents = []
                        for bit, k in enumerate(KEYS):
                            if j == 0 and not (filemask >> bit) & 1:
                                continue
                            tag = 'F' if j == 0 else 'X'
                            if k == T:
                                v = f'udp://file-host{tag}:2' if bit % 2 == 0 else 'tcp://file:3'
                            else:
                                loc = store_loc(c, k, scen if k == P_ else scen_t, tag, cfgdir if j == 0 else None) \
                                    if j == 0 else c.P('/data/decoy')
                                sch = 'pib-sqlite3' if k == P_ else 'tpm-file'
                                v = sch if loc is None else f'{sch}:{loc}'
                            ents.append((k if rng.random() < 0.8 else k.upper(), v))
                        rng.shuffle(ents)
                        if rng.random() < 0.5:
                            ents.insert(rng.randint(0, len(ents)), (rng.choice(['protocol', 'x.y', 'tpm2', 'Other']), rng.choice(['1', '', 'a b'])))
                        ls = rand_lines(rng, ents, fancy=rng.random() < 0.5)
                        text = ''.join(line_text(l) + '\n' for l in ls)
                        c.files[cands[ci]] = text
                        c.confs[ci] = ('lines', ls)
                    for bit, k in enumerate(KEYS):
                        if not (envmask >> bit) & 1:
                            continue
                        if k == T:
                            c.env[ENV[k]] = 'tcp://env-host:1'
                        else:
                            loc = store_loc(c, k, scen if k == P_ else scen_t, 'E', cfgdir)
                            sch = 'pib-sqlite3' if k == P_ else 'tpm-file'
                            c.env[ENV[k]] = sch if loc is None else f'{sch}:{loc}'
                    run_conf_case(ctx, root, c, M, f'conf.product.{mode}')


def line_text(l):
    if l[0] == 'E':
        return l[1] + l[2] + l[3] + l[4] + l[5] + l[6]
    if l[0] == 'C':
        return l[1] + l[2] + l[3]
    return l[1]


ODD_VALUES = ['tcp://h%41', '100%', '%(pib)s', 'a=b', 'a:b:c', 'x ; y', 'x # y', '[v]', 'sp ace', '$HOME/x', '${HOME}',
              'tcp://h#frag', '\u00e9\u4e2d', 'v\xa0w', '"quoted"', "it's", '\\', '~', 'unix:///run/nfd/nfd.sock', '']


def random_cases(ctx, root, M, rng, n):
    for i in range(n):
        mode = 'remap' if rng.random() < 0.7 else 'direct'
        c = Conf(mode, '' if mode == 'remap' else root)
        home = rng.choice(['/home/u', '/home/u', '/home/u/', '/home/u//', '/h'])
        c.env['HOME'] = c.P(home)
        heff = home.rstrip('/')
        c.desc = {'random': i, 'home_eff': heff}
        cands = conf_candidates_virtual(home)
        for x in cands:
            c.mentions.add(x)
        which = rng.choice([(), (0,), (0,), (0,), (1,), (2,), (3,), (0, 1), (2, 3)]) if mode == 'remap' else rng.choice([(), (0,), (0,)])
        cfgdir = posixpath.dirname(cands[which[0]]) if which else None
        for j, ci in enumerate(which):
            ents = []
            for k in KEYS:
                if rng.random() < 0.6:
                    if k == T:
                        v = rng.choice(ODD_VALUES + ['tcp://f:1', 'udp://f'])
                    else:
                        sch = rng.choice(['pib-sqlite3', 'tpm-file', 'other', ''])
                        loc = store_loc(c, k, rng.choice(SCENARIOS), f'F{j}', cfgdir) if rng.random() < 0.8 else rng.choice(ODD_VALUES)
                        v = sch if loc is None else f'{sch}:{loc}'
                    ents.append((rng.choice([k, k, k.upper(), k.capitalize()]), v))
            for _ in range(rng.randint(0, 2)):
                ents.append((rng.choice(['a', 'b.c', 'Zed', 'k_%d' % rng.randint(0, 99)]) + str(len(ents)), rng.choice(ODD_VALUES)))
            rng.shuffle(ents)
            ls = rand_lines(rng, ents)
            c.files[cands[ci]] = ''.join(line_text(l) + '\n' for l in ls)
            c.confs[ci] = ('lines', ls)
        for k in KEYS:
            if rng.random() < 0.4:
                if k == T:
                    c.env[ENV[k]] = rng.choice(ODD_VALUES + ['tcp://e:1', ' tcp://padded:1 ', 'TCP://Upper:1'])
                else:
                    sch = rng.choice(['pib-sqlite3', 'tpm-file', 'other', ''])
                    loc = store_loc(c, k, rng.choice(SCENARIOS), 'E', cfgdir) if rng.random() < 0.8 else rng.choice(ODD_VALUES)
                    c.env[ENV[k]] = sch if loc is None else f'{sch}:{loc}'
                    if rng.random() < 0.1:
                        c.env[ENV[k]] = ' ' + c.env[ENV[k]] + '\t'
        if rng.random() < 0.3:
            c.dirs.add(heff + '/.ndn/ndnsec-key-file')
        if mode == 'remap' and rng.random() < 0.3:
            for s in ('/run/nfd/nfd.sock', '/run/nfd.sock'):
                if rng.random() < 0.5:
                    c.files[s] = ''
        run_conf_case(ctx, root, c, M, f'conf.random.{mode}')


def raw_cases(ctx, root, M, rng):
    for text in RAW_TEXTS:
        for envmask in (0, 7, 2):
            for mode in ('remap', 'direct'):
                c = Conf(mode, '' if mode == 'remap' else root)
                home = '/home/u'
                c.env['HOME'] = c.P(home)
                c.desc = {'raw': text, 'env': envmask, 'home_eff': home}
                cands = conf_candidates_virtual(home)
                c.mentions |= set(cands)
                ci = 0 if mode == 'direct' else rng.choice([0, 0, 1, 3])
                c.files[cands[ci]] = text
                c.confs[ci] = ('raw', text)
                c.dirs.add(home + '/.ndn/ndnsec-key-file')
                for bit, k in enumerate(KEYS):
                    if (envmask >> bit) & 1:
                        c.env[ENV[k]] = 'tcp://env:1' if k == T else ('pib-sqlite3' if k == P_ else 'tpm-file:' + c.P(home))
                run_conf_case(ctx, root, c, M, 'conf.raw')


def special_cases(ctx, root, M, rng):
    # HOME variants (remap: nothing outside the temp root is touched)
    homes = [None, '', '/', '/home/u/', 'relative/home', '/home/$USER', '/home/${WHO}/x', '/home/$', '/home/${unclosed',
             '/home/$WHO$WHO', '/ho me', '/h\u00f6me']
    for h in homes:
        for extra in ({}, {'USER': 'u', 'WHO': 'w$USER'}):
            for withfile in (False, True):
                c = Conf('remap', '')
                if h is not None:
                    c.env['HOME'] = h
                c.env.update(extra)
                env_home = h if h is not None else pwd.getpwuid(os.getuid()).pw_dir
                heff = env_home.rstrip('/')
                c.desc = {'home': h, 'extra': extra, 'home_eff': heff}
                # what the candidate expands to is computed by the model; here only create plausible trees
                for hh in {heff, heff.replace('$USER', 'u').replace('${WHO}', 'w$USER').replace('$WHO', 'w$USER')}:
                    cand = hh + '/.ndn/client.conf'
                    c.mentions.add(cand)
                    c.mentions.add(hh + '/.ndn')
                    if withfile:
                        ls = [('E', 'transport', '', '=', '', 'tcp://home-file:1', '')]
                        c.files[cand] = 'transport=tcp://home-file:1\n'
                        c.confs[0] = ('lines', ls)
                run_conf_case(ctx, root, c, M, 'conf.home')
    # the configuration "file" is a directory; unreadable bytes
    for ci in (0, 3):
        c = Conf('remap', '')
        c.env['HOME'] = '/home/u'
        c.desc = {'conf-is-dir': ci, 'home_eff': '/home/u'}
        cands = conf_candidates_virtual('/home/u')
        c.mentions |= set(cands)
        c.dirs.add(cands[ci])
        c.confs[ci] = ('dir',)
        c.env[ENV[T]] = 'tcp://e:1'
        run_conf_case(ctx, root, c, M, 'conf.dir')
    # NFD socket variants decide the platform transport
    for new in (False, True):
        for old in (False, True):
            for asdir in (False, True):
                c = Conf('remap', '')
                c.env['HOME'] = '/home/u'
                c.desc = {'sock-new': new, 'sock-old': old, 'asdir': asdir, 'home_eff': '/home/u'}
                c.mentions |= set(conf_candidates_virtual('/home/u'))
                for flag, s in ((new, '/run/nfd/nfd.sock'), (old, '/run/nfd.sock')):
                    if flag:
                        if asdir:
                            c.dirs.add(s)
                        else:
                            c.files[s] = ''
                run_conf_case(ctx, root, c, M, 'conf.sockets')


# ---- faces ------------------------------------------------------------------------------------------------
def face_obs(f):
    n = type(f).__name__
    if n == 'UnixFace':
        return [0, f.path]
    if n == 'TcpFace':
        return [1, f.host, f.port]
    if n == 'UdpFace':
        return [2, f.host, f.port]
    return [n]


def nfkc_bad(uri):
    """CPython's own answer for the NFKC check of urlsplit (unicodedata is external to the model)."""
    saved = urllib.parse._checknetloc
    seen = []

    def spy(netloc):
        try:
            saved(netloc)
        except ValueError:
            seen.append(netloc)
            raise
    urllib.parse._checknetloc = spy
    try:
        urllib.parse.urlsplit.cache_clear()
        urllib.parse.urlsplit(uri)
    except ValueError:
        pass
    finally:
        urllib.parse._checknetloc = saved
        urllib.parse.urlsplit.cache_clear()
    return bool(seen)


def m_face(x):
    if x[0] == 0:
        return [0, m_str(x[1])]
    if x[0] == 1:
        return [1, m_str(x[1]), x[2]]
    return [2, m_opt(x[1]), x[2]]


SCHEMES = ['unix', 'tcp', 'tcp4', 'tcp6', 'udp', 'udp4', 'udp6', 'foo', 'http', 'tcp5', 'unixx', 'ws+x', 'TCP', 'Udp4']
HOSTS = [('n', 'localhost'), ('n', 'Example.ORG'), ('n', '10.0.0.1'), ('n', 'a-b_c.d~e'), ('n', 'h!$&\'()*+,;='),
         ('6', '::1'), ('6', '2001:DB8::8:800:200C:417a'), ('6', 'fe80::1%Eth0'), ('6', '::ffff:1.2.3.4'),
         ('6', '1:2:3:4:5:6:7:8'), ('6', 'v1.Fut'), ('6', '::'), ('6', '1::'),
         ('6', '1.2.3.4'), ('6', '1:2:3:4:5:6:7'), ('6', ':1::2'), ('6', '1::2::3'), ('6', '12345::'), ('6', 'g::'),
         ('6', '::1.2.3.256'), ('6', '::01.2.3.4'), ('6', '1:2:3:4:5:6:7:8:9'), ('6', ''), ('6', 'fe80::1%'), ('6', 'v.x'),
         ('6', '1:2:3:4:5:6:1.2.3.4'), ('6', '1:2:3:4:5:6:7:1.2.3.4'), ('6', '::1:2:3:4:5:6:7'), ('6', '1:2:3:4:5:6:7::'),
         ('n', ''), ('n', 'us er@h'), ('n', 'u:p@Host'), ('n', 'h%41')]
PORTS = [None, '1', '6363', '65535', '06363', '0', '00', '65536', '99999999999999999999', 'abc', '12a', '', '-1', '+5', '6363 ', '\u0663']
TAILS = ['', '/', '/a/b', '?q=1', '#frag', '/p?q#f']


def face_cases(ctx, M, rng):
    from ndn.client_conf import default_face
    # structured product (Spec.uri_text / denoted_face)
    for sc in SCHEMES:
        for hk, h in HOSTS:
            for p in PORTS:
                for t in TAILS if (sc in ('tcp', 'udp6', 'unix', 'foo') or p in (None, '6363')) else ['']:
                    sp = M([23, s_of_str(sc), [0 if hk == 'n' else 1, s_of_str(h)], [s_of_str(p)] if p is not None else [], s_of_str(t)])
                    ok, uri = bool(sp[0]), m_str(sp[1])
                    r = impl(default_face, uri)
                    cmp_res(ctx, 'default_face', uri, M([3, s_of_str(uri), nfkc_bad(uri)]), r, face_obs, m_face)
                    low = sc.lower()
                    kind = M([24, s_of_str(low)])
                    known = len(kind) > 0
                    if not known:
                        if r[0] == 'ok':
                            ctx.violation('default_face', 'unknown-scheme-accepted',
                                          f'{uri!r} (scheme {sc!r}) gives {face_obs(r[1])!r} instead of an error', uri)
                    elif ok and low != 'unix':
                        # the structured URI meets the spec's side conditions: the denoted face is demanded
                        spl = M([23, s_of_str(low), [0 if hk == 'n' else 1, s_of_str(h)], [s_of_str(p)] if p is not None else [], s_of_str(t)])
                        exp = m_face(spl[2][0][1])
                        if r[0] != 'ok':
                            ctx.violation('default_face', f'valid-uri-refused:{low}', f'{uri!r} raises {r[2]}', uri)
                        elif face_obs(r[1]) != exp:
                            what = 'port' if face_obs(r[1])[:2] == exp[:2] else ('type' if face_obs(r[1])[0] != exp[0] else 'host')
                            ctx.violation('default_face', f'wrong-{what}:{low}:{"default" if p is None else "explicit"}-port',
                                          f'{uri!r} gives {face_obs(r[1])!r}, denotes {exp!r}', uri)
                    elif known and low != 'unix' and p is not None and p.isascii() and p.isdigit() and int(p) == 0:
                        # an explicit port 0 is still the port the URI denotes (known finding C20-port-zero)
                        sp1 = M([23, s_of_str(low), [0 if hk == 'n' else 1, s_of_str(h)], [s_of_str('1')], s_of_str(t)])
                        if sp1[0] and r[0] == 'ok' and face_obs(r[1])[2] != 0:
                            ctx.violation('default_face', 'explicit-port-zero-replaced',
                                          f'{uri!r} gives port {face_obs(r[1])[2]!r}, the URI says 0', uri)
                    ctx.case(('face', uri), bool(h), {'uri': uri}, 'face.product.' + ('spec' if ok and known else r[0]))
    # unix paths
    for path in ['/run/nfd/nfd.sock', '/run/nfd.sock', '/tmp/a b', '/x/../y', '//double', '/\u00fc', '/a;b', '/a%20b']:
        for sc in ('unix', 'UNIX'):
            uri = sc + '://' + path
            r = impl(default_face, uri)
            cmp_res(ctx, 'default_face', uri, M([3, s_of_str(uri), nfkc_bad(uri)]), r, face_obs, m_face)
            if M([26, s_of_str(path)]):
                if r[0] != 'ok' or face_obs(r[1]) != [0, path]:
                    ctx.violation('default_face', 'wrong-unix-path', f'{uri!r} gives {r[1:] if r[0] != "ok" else face_obs(r[1])!r}', uri)
            ctx.case(('face', uri), True, {'uri': uri}, 'face.unix')
    raw = ['', ':', '://h', '/run/nfd.sock', 'unix:', 'unix://', 'unix:/run/x', 'unix://run/nfd.sock', 'unix:///a?b', 'unix:///a#b',
           'unix:///a\tb', 'tcp://', 'tcp:', 'tcp:h:5', 'tcp:/h:5', 'tcp:///path', ' tcp://h:5', '\ntcp://h:5', 'tcp://h\n:5', 'tcp://h:5\n',
           'tcp://h:5 ', 'tc p://h', '1tcp://h', 'tcp+x://h', 'tcp://[::1', 'tcp://::1]:5', 'tcp://]::1[:5', 'tcp://[::1]x:5',
           'tcp://[::1]:5:6', 'tcp://[::1]5', 'tcp://h:5:6', 'tcp://h:', 'tcp://:5', 'tcp://@:5', 'tcp://a@b@c:5', 'tcp://[::1]@h:5',
           'tcp://h[x]:5', 'udp://', 'udp://:0', 'udp://h:0', 'tcp://h:0', 'TCP://H', 'tcp://h:６', 'tcp://ｈ:5', 'tcp://h\u2100:5', 'tcp://h\uff03x:5', 'tcp://é:5', 'tcp://h\\x:5', 'tcp://h?x:5',
           'tcp://h#x:5', 'tcp://[V1.x]:5', 'tcp://[v1f.x]:5', 'tcp://[v1]:5', 'tcp://[vg.x]:5', 'tcp://[v1.]:5', 'foo://[bad', 'foo://h:bad',
           'tcp://%', 'tcp://h%', 'tcp://H%Ab:5', 'tcp://[FE80::A%25Eth0]:5']
    for uri in raw:
        r = impl(default_face, uri)
        cmp_res(ctx, 'default_face', uri, M([3, s_of_str(uri), nfkc_bad(uri)]), r, face_obs, m_face)
        ctx.case(('face', uri), len(uri) > 3, {'uri': uri}, 'face.raw.' + r[0])
    alphabet = 'tcpud46unix:/[]@.%?#-+ \t\nAZaz09:/::'
    for i in range(ctx.n(3000, 60000)):
        base = rng.choice(['tcp://h:5', 'udp4://[::1]:77', 'unix:///run/nfd.sock', 'tcp6://u@[fe80::1%e]:1/p', 'udp://1.2.3.4'])
        s = list(base)
        for _ in range(rng.randint(1, 3)):
            k = rng.random()
            j = rng.randrange(len(s) + 1)
            if k < 0.4 and s:
                del s[min(j, len(s) - 1)]
            elif k < 0.8:
                s.insert(j, rng.choice(alphabet))
            elif s:
                s[min(j, len(s) - 1)] = rng.choice(alphabet)
        uri = ''.join(s)
        r = impl(default_face, uri)
        cmp_res(ctx, 'default_face', uri, M([3, s_of_str(uri), nfkc_bad(uri)]), r, face_obs, m_face)
        # oracle on mutants: a face is only ever produced for a known scheme, and of that scheme's type
        if r[0] == 'ok':
            pre, sep, _ = uri.lstrip(''.join(chr(x) for x in range(33))).replace('\t', '').replace('\n', '').replace('\r', '').partition(':')
            kind = M([24, s_of_str(pre.lower())]) if sep else []
            if len(kind) == 0 or kind[0] != face_obs(r[1])[0]:
                ctx.violation('default_face', 'unknown-scheme-accepted', f'{uri!r} gives {face_obs(r[1])!r}', uri)
        ctx.case(('face', uri), True, None, 'face.mutant.' + r[0])


# ---- keychain dispatch ---------------------------------------------------------------------------------------
def keychain_cases(ctx, root, M, rng):
    import ndn.client_conf as CC

    class RecTpm:
        def __init__(self, path):
            self.path = path

    class RecPib:
        def __init__(self, path, tpm):
            self.path, self.tpm = path, tpm
    tpms = ['tpm-file', 'tpm-osxkeychain', 'tpm-cng', 'tpm-other', '', 'TPM-FILE', 'tpm-file ']
    pibs = ['pib-sqlite3', 'pib-memory', '', 'PIB-SQLITE3']
    locs = [None, '', '/a', '/a/', 'rel', '/a:b', ':', '/x/pib.db', '//']
    saved = CC.TpmFile, CC.KeychainSqlite3
    CC.TpmFile, CC.KeychainSqlite3 = RecTpm, RecPib
    try:
        for ts, ps, tl, pl in itertools.product(tpms, pibs, locs, locs):
            if tl not in (None, '/a', '/a:b') and pl not in (None, '/a', '/a:b'):
                if rng.random() < 0.7:
                    continue
            pib = ps if pl is None else f'{ps}:{pl}'
            tpm = ts if tl is None else f'{ts}:{tl}'
            r = impl(CC.default_keychain, pib, tpm)
            obs = (lambda k: [k.path, k.tpm.path if isinstance(k.tpm, RecTpm) else repr(k.tpm)])
            cmp_res(ctx, 'default_keychain', (pib, tpm), M([2, s_of_str(pib), s_of_str(tpm)]), r, obs,
                    lambda x: [m_str(x[0]), m_str(x[1])])
            # oracle: known schemes give exactly the stores named; anything else is an error
            if r[0] == 'ok':
                if ps != 'pib-sqlite3' or ts != 'tpm-file' or pl is None or tl is None:
                    ctx.violation('default_keychain', 'unknown-scheme-accepted', f'{(pib, tpm)!r} accepted', (pib, tpm))
                elif obs(r[1]) != [posixpath.join(pl, 'pib.db'), tl]:
                    ctx.violation('default_keychain', 'wrong-store-path', f'{(pib, tpm)!r} gives {obs(r[1])!r}', (pib, tpm))
            elif ps == 'pib-sqlite3' and ts == 'tpm-file' and pl is not None and tl is not None:
                ctx.violation('default_keychain', 'known-scheme-refused', f'{(pib, tpm)!r} raises {r[2]}', (pib, tpm))
            ctx.case(('kc', pib, tpm), True, {'pib': pib, 'tpm': tpm}, 'keychain.' + r[0])
    finally:
        CC.TpmFile, CC.KeychainSqlite3 = saved
    # the real classes on a real, initialised store (end to end with read_client_conf)
    from ndn.security import KeychainSqlite3, TpmFile
    wipe(root)
    home = root + '/home/k'
    os.makedirs(home + '/.ndn')
    KeychainSqlite3.initialize(home + '/.ndn/pib.db', 'tpm-file', home + '/.ndn/ndnsec-key-file')
    sb = Sandbox(root, 'direct', {'HOME': home})
    os.makedirs(root + Sandbox.VCWD, exist_ok=True)
    with sb:
        r = impl(lambda: CC.default_keychain(**{k: v for k, v in CC.read_client_conf().items() if k != T}))
    if r[0] != 'ok' or not isinstance(r[1], KeychainSqlite3) or r[1].path != home + '/.ndn/pib.db' \
            or not isinstance(r[1].tpm, TpmFile) or r[1].tpm.path != home + '/.ndn/ndnsec-key-file':
        ctx.violation('default_keychain', 'real-store-not-opened', f'platform default store under HOME: {r!r}', {'home': 'HOME'})
    if r[0] == 'ok':
        r[1].conn.close()
    ctx.case(('kc-real',), True, None, 'keychain.real')


# ---- CPython primitives re-implemented in Model/ConfBase.v -------------------------------------------------------
def primitive_cases(ctx, M, rng):
    # str.isspace over the BMP + a few astral points
    cps = list(range(0, 0x3100)) + [0xFEFF, 0x1D7CE, 0x10FFFF]
    ans = M([4, cps])
    for c, a in zip(cps, ans):
        if bool(a) != chr(c).isspace():
            ctx.disagree('str.isspace', 'is_space differs', c, a, chr(c).isspace())
    ctx.case(('isspace',), True, None, 'prim.isspace')
    # configparser
    toks = ['transport', 'pib', 'tpm', 'Key', 'k2', '=', ':', ' = ', '\n', '\n', '\n ', '\n\t', ' ', ';', '#', '[', ']', '[DEFAULT]', '[s]',
            'v', 'tcp://h:1', '%', '%%', '%(pib)s', '\n\n', '  ', '\xa0', 'x y', '\x0c', '\x1c', '\u2028', '\x85']

    def cp(text):
        p = configparser.ConfigParser(interpolation=None)
        p.read_string(text)
        return [[k, v] for k, v in p['DEFAULT'].items()]
    texts = ['[DEFAULT]\n' + t for t in RAW_TEXTS]
    for i in range(ctx.n(4000, 80000)):
        texts.append('[DEFAULT]\n' + ''.join(rng.choice(toks) for _ in range(rng.randint(1, 14))))
    for text in texts:
        r = impl(cp, text)
        cmp_res(ctx, 'configparser', text, M([5, s_of_str(text)]), r, lambda x: x, lambda x: [[m_str(a), m_str(b)] for a, b in x])
        ctx.case(('ini', text), True, None, 'prim.ini.' + r[0])
    # os.path
    pieces = ['', '/', 'a', 'b/', '/c', '//', 'd/e', '.', '..', 'f//', '$X', '${Y}', '$', '${', '}', '$1a', 'é', '${}', '$X$X', '${X', '$ X']
    envs = [{}, {'X': 'xv', 'Y': '/y$X', '1a': 'one'}, {'X': '', 'é': 'acc'}]
    for i in range(ctx.n(1500, 30000)):
        a = ''.join(rng.choice(pieces) for _ in range(rng.randint(0, 3)))
        b = ''.join(rng.choice(pieces) for _ in range(rng.randint(0, 3)))
        if m_str(M([8, s_of_str(a), s_of_str(b)])) != posixpath.join(a, b):
            ctx.disagree('os.path.join', 'differs', (a, b), m_str(M([8, s_of_str(a), s_of_str(b)])), posixpath.join(a, b))
        if m_str(M([9, s_of_str(a)])) != posixpath.dirname(a):
            ctx.disagree('os.path.dirname', 'differs', a, m_str(M([9, s_of_str(a)])), posixpath.dirname(a))
        e = rng.choice(envs)
        saved = dict(os.environ)
        os.environ.clear()
        os.environ.update(e)
        try:
            ev = posixpath.expandvars(a + b)
        finally:
            os.environ.clear()
            os.environ.update(saved)
        mv = m_str(M([7, [[s_of_str(k), s_of_str(v)] for k, v in e.items()], s_of_str(a + b)]))
        if mv != ev:
            ctx.disagree('os.path.expandvars', 'differs', (e, a + b), mv, ev)
        ctx.case(('path', a, b), True, None, 'prim.path')
    # bracketed hosts
    hx = ['', ':', '::', '1', 'ffff', 'FfFf', '12345', 'g', '1.2.3.4', '255.255.255.255', '256.1.1.1', '01.1.1.1', '1.2.3', '%', '%e', 'e%0',
          'v1', 'v1.', 'v1.x', 'vF.', 'v.x', '0', '0:0', '.', '1.2.3.4.5', '١']

    def cbh(h):
        urllib.parse._check_bracketed_host(h)
        return True
    hosts = [h for k, h in HOSTS if k == '6']
    for i in range(ctx.n(3000, 60000)):
        hosts.append(rng.choice(['', ':', '::']).join(rng.choice(hx) for _ in range(rng.randint(1, 9))) if rng.random() < 0.7
                     else ':'.join(rng.choice(hx) for _ in range(rng.randint(1, 10))))
    for h in hosts:
        r = impl(cbh, h)
        a = M([10, s_of_str(h)])
        if bool(a) != (r[0] == 'ok'):
            ctx.disagree('_check_bracketed_host', 'differs', h, a, r)
        ctx.case(('v6', h), True, None, 'prim.v6.' + r[0])
    # urlsplit / hostname / port

    def us(u):
        x = urllib.parse.urlparse(u)
        try:
            port = ('ok', x.port)
        except ValueError:
            port = ('err',)
        return [x.scheme, x.netloc, x.path if x.scheme == 'unix' else None, x.hostname, port]
    alphabet = 'tcpud46unix:/[]@.%?#-+ \t\nAZaz09:/::;'
    for i in range(ctx.n(3000, 60000)):
        u = ''.join(rng.choice(alphabet) for _ in range(rng.randint(0, 16)))
        if rng.random() < 0.5:
            u = rng.choice(['tcp://', 'x:', 'unix://', '//']) + u
        r = impl(us, u)

        def mc(x):
            port = ('ok', m_opt(x[4][1], lambda v: v)) if x[4][0] == 1 else ('err',)
            return [m_str(x[0]), m_str(x[1]), m_str(x[2]) if m_str(x[0]) == 'unix' else None, m_opt(x[3]), port]
        cmp_res(ctx, 'urlparse', u, M([6, s_of_str(u), nfkc_bad(u)]), r, lambda x: x, mc)
        ctx.case(('url', u), True, None, 'prim.url.' + r[0])


# ---- replay of one recorded case ------------------------------------------------------------------------------------
def replay(ctx, data):
    """./check C20 --replay evidence/replays/C20-oracle-….json : re-run the recorded case only."""
    from harness.lib.core import unjson
    import ndn.client_conf as CC
    case = unjson(data.get('case'))
    M = ctx.call
    root = tempfile.mkdtemp(prefix='c20-')
    try:
        if isinstance(case, str):
            r = impl(CC.default_face, case)
            print('default_face(%r) ->' % case, face_obs(r[1]) if r[0] == 'ok' else r[1:],
                  '| model:', M([3, s_of_str(case), nfkc_bad(case)]))
            cmp_res(ctx, 'default_face', case, M([3, s_of_str(case), nfkc_bad(case)]), r, face_obs, m_face)
            pre, sep, _ = case.partition(':')
            kind = M([24, s_of_str(pre.strip().lower())]) if sep else []
            if r[0] == 'ok' and (len(kind) == 0 or kind[0] != face_obs(r[1])[0]):
                ctx.violation('default_face', 'unknown-scheme-accepted', f'{case!r} gives {face_obs(r[1])!r}', case)
            if r[0] == 'ok' and kind and kind[0] != 0:
                port = urllib.parse.urlsplit(case).netloc.rpartition(':')[2]
                if port.isascii() and port.isdigit() and face_obs(r[1])[2] != int(port):
                    ctx.violation('default_face', 'explicit-port-zero-replaced' if int(port) == 0 else 'wrong-port',
                                  f'{case!r} gives port {face_obs(r[1])[2]!r}', case)
            ctx.case(('face', case), True, {'uri': case}, 'replay.face')
        elif isinstance(case, list) and len(case) == 2:
            r = impl(CC.default_keychain, case[0], case[1])
            print('default_keychain%r ->' % (tuple(case),), r, '| model:', M([2, s_of_str(case[0]), s_of_str(case[1])]))
            ctx.case(('kc',) + tuple(case), True, None, 'replay.keychain')
        elif isinstance(case, dict):
            old = case.get('pfx', '')
            mode = case['mode']
            new = '' if mode == 'remap' else root

            def sub(x):
                return x.replace(old, new) if old else x
            c = Conf(mode, new)
            c.env = {k: sub(v) for k, v in case['env'].items()}
            c.dirs = set(case['dirs'])
            c.files = {k: sub(v) for k, v in case['files'].items()}
            c.desc = case.get('desc', {})
            c.mentions = set(case.get('mentions', []))

            def fix(v):
                if v[0] == 'lines':
                    return ('lines', [tuple(sub(x) if isinstance(x, str) else x for x in l) for l in v[1]])
                return tuple(v)
            c.confs = {int(k): fix(v) for k, v in case.get('confs', {}).items()}
            r = run_conf_case(ctx, root, c, M, 'replay.conf')
            print('read_client_conf ->', r)
        else:
            ctx.notes.append('replay: unrecognised case shape; full run')
            run(ctx)
    finally:
        shutil.rmtree(root, ignore_errors=True)


# ---- entry points ---------------------------------------------------------------------------------------------------
def run(ctx):
    import sys
    if sys.platform != 'linux':
        raise RuntimeError('C20 models the Linux platform')
    rng = ctx.rng
    M = ctx.call
    root = tempfile.mkdtemp(prefix='c20-')
    try:
        primitive_cases(ctx, M, rng)
        face_cases(ctx, M, rng)
        keychain_cases(ctx, root, M, rng)
        special_cases(ctx, root, M, rng)
        raw_cases(ctx, root, M, rng)
        product_cases(ctx, root, M, 'remap', rng, sample=ctx.n(0.5, 1.0))
        product_cases(ctx, root, M, 'direct', rng, sample=ctx.n(0.5, 1.0))
        random_cases(ctx, root, M, rng, ctx.n(800, 20000))
    finally:
        shutil.rmtree(root, ignore_errors=True)
