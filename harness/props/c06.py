"""C06 — receive path: exact stream framing, and no failure on any delivered bytes.

(A) stream framing.  A real asyncio.StreamReader is fed chunk by chunk (virtual-time loop, run to quiescence
    after every event) into the real StreamFace.run (UnixFace instance, recording callback):
      * correspondence: deliveries per event and the final face state (running, run() suspended / returned /
        crashed, reader buffer, eof, writer closed) against Model/Stream.v run_events;
      * oracle, independent of the model: concatenated deliveries == the packet list the stream was built
        from; for arbitrary byte strings == Spec/Framing.v packets_of (extracted); nothing delivered twice or
        partially; after end of stream the face is shut down and run() has returned; a callback that raises
        does not stop the reader loop.
    UdpFace: the real PacketHandler (face opened on a loopback socket): datagram_received called directly and
    through the socket; one datagram = at most one callback with the datagram unchanged, never an exception.
(B) reception.  Real NDNApp of both front-ends (appv2, app) on the virtual-time loop with a dummy face:
      * correspondence: _on_interest/_on_data/_on_nack replaced by recorders; what _receive does with
        (typ, bytes) -- raise / drop / which handler with which name, PIT token, reason, raw packet --
        against Model/Receive.v classify with the except tuples reflected from the source;
      * oracle on the untouched application, in states with 0-4 pending Interests and 0-3 attached handlers:
        `await _receive` returns normally; the same packet delivered the way the faces do (a task nobody
        holds) leaves nothing in the loop's exception handler after gc; pending Interests and handlers that
        the packet does not address (by name) are untouched; afterwards every still-pending Interest
        completes normally with its Data and every handler still gets its Interest;
      * the same oracle in the REACHABLE STATES of the pending-Interest table (oracle_states): the table is first
        brought, by a history, into a state described by a word (several Interests under the packet's name:
        waiting, given up / expiring in the very loop turn in which the packet is processed -- entry still listed,
        future already cancelled --, completed earlier in each way, under validation; CanBePrefix parents; foreign
        implicit digests), then the packet is handed over awaited / as a task / as a task in the loop iteration in
        which the lifetime timers fire;
      * Nacks x handler tables (nack_scenario): Nacks in every reason form against Interest handlers attached at,
        above, below and beside the nacked name, with and without somebody waiting for the nacked Interest: a Nack
        never invokes a handler; judged by construction (no model, no classification by the implementation);
      * awaited Data x validators that judge x TLV-level edits (judged_scenario): every single element edit of honest
        Data (and of its MetaInfo / SignatureInfo), re-framed, while Interests wait for it whose validators give every
        verdict (a real DigestSha256 check, each constant, delayed, timing out): each addressed Interest ends at once
        with the Data or with ValidationFailure as its verdict says; no background task ends with an unhandled error;
      * names with odd components (oddname_family): honest Interests -- plain, with ApplicationParameters, DigestSha256-signed --
        whose names carry legal but semantically odd components (digest components of every wrong length, several of them,
        typed components of no integer width, empty / unprintable values, unassigned, three-byte and out-of-range types,
        non-shortest forms) and whose ParametersSha256DigestComponent is right, absent, wrong, cut, extended or doubled,
        delivered to handlers attached above them; Data / Nacks with such names delivered to Interests the application waits
        for; both with the library loggers silent and at DEBUG: reception returns normally, the Interest is handled by the
        longest attached prefix once or dropped as its digest and validator say, nothing else is touched;
      * the packet's name against the names in the tables (relation_family): Nack / Data / Interest named N (depth 0 = the empty
        name .. 3) against every subset of {parent, N, N+1, N+2, sibling, elsewhere} pending and of {root, parent, N, N+1,
        sibling, elsewhere} attached -- in particular tables where N is only an inner node (entries strictly below, nothing at
        it): exactly the entries the packet addresses by name are completed / invoked, reception returns normally;
      * pending Interests that END IN AN IMPLICIT DIGEST at every relation to the packet's name (digest_family): the digest is the
        arriving Data's own, that of the Data the Interest is completed with afterwards, the arriving Data's with one bit changed,
        an unrelated one; the node the Interest waits at is the root, the parent of the packet's name, the name, one / two
        components below, a sibling, elsewhere; CanBePrefix and MustBeFresh set / unset; the Data carries FreshnessPeriod absent /
        0 / 1000 / no MetaInfo; also Nacks for the name with and without that digest: after EVERY delivery (the packet, then one
        completing Data / Nack per Interest still pending) exactly the Interests addressed by name AND digest have ended.
"""
import asyncio
import copy
import gc
import logging
import socket
import struct

from harness.lib import gen as G
from harness.lib import tlvdesc as D
from harness.lib import tlvgen as TG
from harness.lib import vtloop
from harness.lib.model import is_err

RULE = ('(A) packet lists (types/lengths over all four var-number forms incl. non-minimal ones, real Interest/Data '
        'wires, payloads 0..300 and 65536) cut at EVERY position for streams <= 64 bytes (two chunks, byte-by-byte, '
        'empty chunks), random multi-cuts beyond; streams ending at every position; garbage streams; Reset/Shutdown '
        'events.  (B) every kind of valid packet (Interest, Data, LpPacket with each header subset, Nack with and '
        'without reason, IDLE LpPacket, fragmented LpPacket, unknown types) and its C07 mutant stream (byte edits, '
        'truncations, Type/Length edits in all forms, structural edits at every level), with consistent and '
        'inconsistent (typ, outer Length) framing, random byte strings; states with 0-4 pending Interests '
        '(some named like the packet) and 0-3 handlers.  Reachable table states: the table is brought by a history '
        '(express, earlier Data / Nack / cancellation / expiry, Data under validation) into the state given by a word '
        'over {waiting, waiting with a foreign implicit digest, caller gives up in the loop turn of the packet, lifetime '
        'timer fires in the loop turn of the packet, given up / timed out / satisfied / nacked earlier, validator still '
        'running, CanBePrefix parent waiting / given up in this turn, unrelated name, a name strictly below the packet\'s}; several entries share the '
        'packet\'s name, in every order: all words of length <= 2 (thorough: 3) + sampled words of length 3-6, against '
        'Data (bare, in an LpPacket), Nack (with / without reason), Interest and dropped packets (cut, trailing byte, '
        'fragment-labelled), handed over awaited / as a task created in the turn of the cancellation / as a task created in '
        'the loop iteration in which the lifetime timers fire; plus random words around the packets of the mutant stream.  '
        'Oracle there: reception returns normally, the waiting entries the packet addresses complete with it, nobody '
        'else is touched, entries ending in that turn end with Canceled / Timeout (or the packet), everybody still '
        'waiting completes with its own Data afterwards, nothing reaches the loop exception handler.  '
        'Nacks x handler tables (everything known by construction, no model and no classification by the implementation '
        'involved): LpPacket{[PitToken], Nack{reason}, [CongestionMark], Fragment{Interest}} with the reason in each of '
        'the 19 forms of the shared Nack pool (element absent, 0, 1, 50, 100, 150, width boundaries up to 2^64-1, '
        'non-shortest encodings of 0 / 50 / 150 / 255 / 65535) x nacked names of depth 1-3 x Interest handlers attached '
        'at each single position relative to the nacked name (root, every proper prefix, the name, a longer name, a '
        'sibling, elsewhere), at all of them, at the whole prefix chain, nowhere, random subsets x {nobody waits, the '
        'application waits for exactly this Interest (the wire it sent comes back), somebody waits under another name} '
        'x Interest shape (CanBePrefix, no lifetime, ApplicationParameters) x awaited / as a task.  Demanded: reception '
        'returns normally, NO handler is invoked (handler-invoked-by-nack) and nothing is transmitted, the waiting '
        'Interest ends with InterestNack carrying that reason, others are untouched; afterwards a genuine Interest for '
        'the same name reaches exactly the longest attached prefix once and whoever still waits gets its Data.  Without a '
        'model executable (translator abort) the Nacks the harness built itself are Nacks by construction for the other '
        'oracles too (not what the implementation under test makes of them).  '
        'Awaited Data x validators that judge x TLV-level edits: Data as an honest producer emits it (DigestSha256-signed / '
        'unsigned x MetaInfo absent / empty / with three fields x Content absent / empty / 7 / 300 bytes; quick tier: seven of '
        'these bases covering every value) with EVERY single edit of its element sequence and of the children of MetaInfo and '
        'SignatureInfo (element deleted, duplicated, emptied, value cut / extended by a byte, a byte changed, neighbours '
        'swapped, unknown ignorable / critical element inserted at every position; enclosing Lengths re-framed), bare or in an '
        'LpPacket, handed over awaited / as a task, while Interests of depth 1-3 wait for it (alone, two under one name with '
        'opposite verdicts, with a CanBePrefix parent, beside another name) whose validators really judge: a DigestSha256 check '
        '(verdict follows from the edit), every ValidResult constant (v1: True / False / None), the same after a delay, a '
        'validator that runs into TimeoutError.  Whether the bytes are a Data and its name come from the model\'s classification; '
        'Content and signature validity from the harness\'s own TLV walker.  Demanded: reception returns normally; every Interest '
        'the Data addresses ends AT ONCE (after the delay of its validator) with that Data (name, Content or None) when its '
        'verdict is PASS / ALLOW_BYPASS (v1: truthy) and with ValidationFailure carrying that name, Content and verdict '
        'otherwise; nobody else is touched and still gets its own Data afterwards with the outcome its validator dictates; no '
        'background task ends with an unhandled error (loop exception handler, incl. never-retrieved task exceptions after gc).  '
        'Names with odd components (built by the harness\'s own encoder, no library code): component forms = ImplicitSha256 / '
        'ParametersSha256 digest components with values of 0, 1, 2, 31, 32, 33, 64 octets; segment / byte-offset / version / '
        'timestamp / sequence-number components with values of 0, 1, 2, 3, 4, 5, 7, 8, 9, 16 octets; keyword and generic components '
        'that are empty or hold NUL, non-UTF-8, %, =, /, dots, 252 / 253 / 300 octets; component Types 0, 3, 7, 0x24, 0x2c, 252, '
        '253, 0x320, 65535, 65536, 2^32-1, 2^32; non-shortest Type / Length forms.  (i) Interests x handlers: bases {plain, '
        'ApplicationParameters of 0 / 2 / 300 octets, DigestSha256-signed with and without parameters and SignatureNonce/Time, '
        'signed with a wrong SignatureValue, InterestSignatureInfo without ApplicationParameters}; name layouts: every odd '
        'component before and after the (correct) ParametersSha256DigestComponent, the digest component absent / one bit wrong / '
        'all zero / cut or extended to each of the lengths above, in the middle of the name, before the prefix, doubled (right + '
        'each wrong form, in both orders), several digest components of both kinds, sampled mixtures; every layout meets a plain, '
        'a parameterised and a signed base (thorough: all eight, four rotations) on both front-ends; rotating: validator (every '
        'ValidResult constant / True, False, None, a signature check, no validator), handlers at the prefix, the root, its parent, '
        'one component deeper, a sibling, elsewhere, none (half of the quick-tier cases: a passing validator at the prefix), prefix '
        'depth 1-2, bare / in an LpPacket with PIT token and CongestionMark, awaited / as a task, CanBePrefix+MustBeFresh, a '
        'bystander Interest pending, library loggers silent / at DEBUG.  Demanded: reception returns normally, no task ends with '
        'an unhandled error; only the longest attached prefix of the name is invoked, at most once, with the name and parameters '
        'the packet carries; it IS invoked when the Interest is plain without digest component, or carries parameters, exactly '
        'one digest component holding their SHA-256 and the validator the front-end consults passes (interest-not-delivered); it is '
        'NOT invoked when no component holds that digest or the validator refuses (malformed-interest-delivered); nothing is '
        'transmitted, the bystander is untouched; afterwards an honest plain and an honest parameterised Interest under the prefix '
        'are served by exactly the longest attached prefix and the bystander gets its Data.  (ii) Data / Nacks x pending Interests: the '
        'application waits (alone, twice, beside a CanBePrefix Interest for the prefix, beside another name) for a name holding '
        'each odd component the encoder accepts (and sampled runs of 2-4), closed by a plain component or not; the Data of that '
        'name (signed / unsigned; bare / LpPacket) or the Nack returning the very wire (reason 150 / absent) arrives: everybody '
        'waiting for that name ends with the Data / InterestNack, the prefix Interest with the Data, others are untouched and get '
        'their own Data afterwards (beside an Interest ending in an EMPTY ImplicitSha256 component only "returns normally, no '
        'unhandled error" is judged: both front-ends read an empty digest as no digest; C03 owns digest matching).  Also: in the mutant-stream scenarios an Interest whose name no prefix can be '
        'registered with as a whole (every parameterised / signed Interest) now finds a handler at its longest registrable '
        'leading part.  '
        'The packet\'s name against the names in the tables (everything by construction, harness\'s own encoder): the packet -- Nack '
        '(reason 150 / absent / 0 / 50), Data, Interest -- is named N of depth 0 (the EMPTY name), 1, 2, 3; the pending-Interest table '
        'holds EVERY subset of {parent of N, N, N + 1 component, N + 2 components, a sibling of N, elsewhere} (CanBePrefix alternating, '
        'sometimes two Interests at N), the handler table EVERY subset of {root, parent, N, N + 1 component, sibling, elsewhere}: '
        'every pending subset with a rotating handler subset and every handler subset with a rotating pending subset, for each '
        'front-end x packet kind x depth (thorough: + a quarter of all pairs); bare / LpPacket with PIT token, awaited / as a task.  In '
        'particular tables in which the name of the packet is only an INNER node (entries strictly below it, nothing at it) and the '
        'empty name, of which every entry is an extension.  Demanded: reception returns normally, no task ends with an unhandled error; '
        'a Data completes exactly the Interests at N and the CanBePrefix Interests above it, a Nack exactly the Interests at N, an '
        'Interest invokes exactly the longest attached prefix of N once; everything below, beside and elsewhere is untouched, nothing '
        'is transmitted; afterwards every Interest still pending completes with its own Data and every handler serves an Interest '
        'under its prefix.  '
        'Pending Interests that end in an implicit digest (everything by construction, harness\'s own encoder and SHA-256): an Interest '
        'B/<ImplicitSha256Digest=X> waits at table node B; a Data addresses it iff (the Data is named B, or B is a proper prefix of its '
        'name and the Interest has CanBePrefix) AND the SHA-256 of the Data packet is X; a Nack addresses it iff it returns B/<X>.  The '
        'packet is a Data named N of depth 1-3 (FreshnessPeriod absent / 0 / 1000 ms / no MetaInfo element; DigestSha256-signed / '
        'unsigned; bare / LpPacket with PIT token; awaited / as a task), a Nack for N/<digest of that Data> or a Nack for N (reason 150 / '
        'absent / 0 / 50).  B is at each relation to N: the root (the Interest is named by the digest alone), the parent, N itself, N + 1 '
        'component, N + 2 components, a sibling, elsewhere.  X is `own` (the digest of the arriving Data), `its` (the digest of the Data '
        'delivered for this Interest afterwards), `flip` (own with one bit changed, position rotating), `rand` (unrelated); `none` = a '
        'plain Interest.  (1) one digest Interest: front-end x depth x relation x {own, its, flip, rand} x CanBePrefix x MustBeFresh, with '
        'every FreshnessPeriod form where the name condition can hold (root / parent / N, own / flip; rotating elsewhere), alone or beside a '
        'plain Interest at the same node / at N / CanBePrefix parent / below; (2) tables: EVERY subset of the seven relations, kinds, '
        'CanBePrefix, MustBeFresh rotating, Data and both Nack forms; (3) two Interests at ONE node: every ordered pair of the five '
        'kinds at every relation (thorough: full product of (1) with signature x envelope x hand-over, sampled rotations of (2), all '
        'depths of (3)).  Demanded after the packet AND after each packet of the aftermath (every Interest still pending gets, shorter '
        'names first, a packet of its own: plain -> its Data; its -> exactly the Data with that digest; own where that Data addresses it '
        '-> that Data; otherwise the Nack returning the very wire the application sent, reason 150 / absent / 50): reception returns '
        'normally, no task ends with an unhandled error, nothing is transmitted; EXACTLY the Interests the packet addresses have ended, '
        'with that packet (pending-interest-not-completed; in the aftermath pending-interest-lost), every other one is still pending '
        '(pending-interest-disturbed) -- in particular `digest right, name condition wrong` (own below / beside / above without '
        'CanBePrefix), `name right, digest wrong`, MustBeFresh against FreshnessPeriod 0 / absent (the receive path of an application '
        'does not judge freshness), and a Nack for N against N/<X> and vice versa.  '
        'non-trivial = stream/packet of >= 4 bytes; distinct by (part, input) hash')
ASSUMPTIONS = [
    'asyncio.StreamReader.readexactly consumes nothing until n bytes are buffered; tasks start in creation order '
    '(modelled, exercised unmodified by the correspondence run)',
    'user callbacks (Interest handlers, validators) do not raise: C06_receive_total takes the three handlers as '
    'total functions (that _on_data / _on_nack do not raise in any reachable table state -- cancelled waiters still '
    'listed, nothing pending under the name -- was false on the library as found, is fixed in /repo (findings of C03 / '
    'C06), and is checked here by the reachable-table-state family)',
    'documented decoding errors = DecodeError, IndexError, ValueError (incl. UnicodeDecodeError), struct.error (C07)',
]

logging.disable(logging.CRITICAL)

# When a translator aborts (or a generated definition no longer type-checks) there is no model executable;
# the model-independent oracles still run, so that a concrete failing input is reported.
RUNS_WITHOUT_MODEL = True


class Spin(KeyboardInterrupt):
    """raised by the watchdog; a KeyboardInterrupt subclass because asyncio tasks swallow everything else"""


class StopPart(Exception):
    pass


class watchdog:
    """a reader loop that never yields (e.g. shutdown() no longer clears `running`) would hang the harness"""

    def __init__(self, seconds=10):
        self.seconds = seconds

    def __enter__(self):
        import signal

        def onalarm(sig, frm):
            raise Spin()
        self.old = signal.signal(signal.SIGALRM, onalarm)
        signal.setitimer(signal.ITIMER_REAL, self.seconds)

    def __exit__(self, *a):
        import signal
        signal.setitimer(signal.ITIMER_REAL, 0)
        signal.signal(signal.SIGALRM, self.old)
        return False


# =============================================================================================
# (A) streams
# =============================================================================================
class Writer:
    def __init__(self):
        self.closed = False

    def close(self):
        self.closed = True


class StreamRun:
    """One real StreamFace + StreamReader on a shared virtual-time loop."""

    def __init__(self, loop, fail_on=None):
        from ndn.transport.stream_face import UnixFace
        self.loop = loop
        self.face = UnixFace('/nonexistent/c06.sock')
        self.reader = asyncio.StreamReader(loop=loop)
        self.writer = Writer()
        self.face.reader = self.reader
        self.face.writer = self.writer
        self.face.running = True
        self.rec = []
        self.fail_on = fail_on

        async def cb(typ, buf):
            self.rec.append((typ, bytes(buf)))
            if self.fail_on is not None and len(self.rec) - 1 in self.fail_on:
                raise RuntimeError('callback failed (harness)')
        self.face.callback = cb
        self.task = loop.create_task(self.face.run())
        loop.settle()

    def event(self, ev):
        n0 = len(self.rec)
        if ev[0] == 0:
            self.reader.feed_data(ev[1])
        elif ev[0] == 1:
            self.reader.feed_eof()
        elif ev[0] == 2:
            self.reader.set_exception(ConnectionResetError())
        else:
            self.face.shutdown()
        self.loop.settle()
        return self.rec[n0:]

    def state(self):
        if not self.task.done():
            co = [0]
        elif self.task.cancelled():
            co = [2, 'cancelled']
        elif self.task.exception() is not None:
            co = [2, type(self.task.exception()).__name__]
        else:
            co = [1]
        return [int(bool(self.face.running)), co, bytes(self.reader._buffer), int(bool(self.reader._eof)),
                int(self.writer.closed)]

    def close(self):
        if not self.task.done():
            self.task.cancel()
            self.loop.settle()


def pkts_of_sexp(l):
    return [(p[0], bytes(p[1])) for p in l]


def rand_tl_form(rng, v):
    """any legal form of a var-number (shortest or longer)"""
    forms = [G.tl(v)]
    if v <= 0xFFFF:
        forms.append(b'\xfd' + v.to_bytes(2, 'big'))
    if v <= 0xFFFFFFFF:
        forms.append(b'\xfe' + v.to_bytes(4, 'big'))
    forms.append(b'\xff' + v.to_bytes(8, 'big'))
    return forms[0] if rng.random() < 0.7 else rng.choice(forms)


def rand_packet(rng, small):
    t = rng.choice([5, 6, 100, 0, 1, 252, 253, 254, 255, 256, 65535, 65536, 0xFFFFFFFF, 0x100000000, (1 << 64) - 1]) \
        if rng.random() < 0.5 else rng.randrange(0, 300)
    n = rng.choice([0, 0, 1, 2, 3, 5, 8]) if small else rng.choice([0, 1, 7, 40, 252, 253, 254, 300, 65536])
    body = G.rand_bytes(rng, n) if n < 1000 else bytes(n)
    return (t, rand_tl_form(rng, t) + rand_tl_form(rng, n) + body)


def chunkings(rng, s, exhaustive):
    """lists of chunks whose concatenation is s"""
    out = []
    if exhaustive:
        for i in range(len(s) + 1):
            out.append([s[:i], s[i:]])
        out.append([s[i:i + 1] for i in range(len(s))])
        out.append([b''] + [s[i:i + 2] for i in range(0, len(s), 2)] + [b''])
    for _ in range(3):
        k = rng.randint(0, min(8, len(s)))
        cuts = sorted(rng.randrange(0, len(s) + 1) for _ in range(k)) if s else []
        pos = [0] + cuts + [len(s)]
        out.append([s[a:b] for a, b in zip(pos, pos[1:])])
    return out


def check_stream(ctx, M, loop, events, pkts, origin, fail_on=None):
    """events: [(0, chunk) | (1,) | (2,) | (3,)]; pkts: the packet list the fed bytes were built from (or None)"""
    case = {'events': [list(e) for e in events], 'origin': origin}
    sr = StreamRun(loop, fail_on)
    try:
        with watchdog():
            outs = [sr.event(ev) for ev in events]
    except Spin:
        ctx.violation('StreamFace.run', 'reader-loop-spins', 'run() does not return control to the event loop', case)
        raise StopPart()
    st = sr.state()
    sr.close()
    flat = [p for o in outs for p in o]
    fed = b''.join(e[1] for e in events if e[0] == 0)
    # ---- correspondence
    m = M([1, [list(e) for e in events]]) if M else None
    if m is None:
        pass
    elif is_err(m):
        ctx.disagree('StreamFace.run', 'model bad request', case, m, None)
    else:
        mface, mouts = m
        mst = [mface[0], list(mface[1]), bytes(mface[2]), mface[3], mface[4]]
        if mst[1] and mst[1][0] == 2:
            mst[1] = [2, mst[1][1]]
        ist = list(st)
        if ist[1][0] == 2:
            ist[1] = [2, {'IncompleteReadError': 101, 'ConnectionResetError': 102}.get(ist[1][1], ist[1][1])]
        if [pkts_of_sexp(o) for o in mouts] != outs:
            ctx.disagree('StreamFace.run', 'deliveries per event differ', case, mouts, outs)
        elif mst != ist:
            ctx.disagree('StreamFace.run', 'final face state differs', case, mst, ist)
    # ---- oracle (only for histories feed* [eof])
    kinds = [e[0] for e in events]
    plain = all(k == 0 for k in kinds[:-1]) and (not kinds or kinds[-1] in (0, 1))
    if plain:
        ended = bool(kinds) and kinds[-1] == 1
        if pkts is not None:
            want = pkts
        elif M:
            s = M([2, fed])
            want = pkts_of_sexp(s[0])
        else:
            want = flat
        if flat != want:
            cls = 'partial-or-wrong-packet' if any(p not in want for p in flat) else \
                ('packet-lost' if len(flat) < len(want) else 'packet-duplicated-or-reordered')
            ctx.violation('StreamFace.run', cls, f'delivered {len(flat)} packets, the stream contains {len(want)}', case)
        for typ, buf in flat:
            try:
                t2, a = TG.read_num(buf, 0)
                l2, b = TG.read_num(buf, a)
                ok = (t2 == typ and a + b + l2 == len(buf))
            except Exception:
                ok = False
            if not ok:
                ctx.violation('StreamFace.run', 'inconsistent-delivery', 'callback got (typ, buf) with buf not one TLV of Type typ', case)
        if ended:
            if st[0] or st[1] != [1]:
                ctx.violation('StreamFace.run', 'no-shutdown-at-eof', f'after end of stream: running={st[0]} run()={st[1]}', case)
        else:
            if not st[0] or st[1] != [0]:
                ctx.violation('StreamFace.run', 'reader-loop-stopped', f'stream still open but running={st[0]} run()={st[1]}', case)
    ctx.case(('s', tuple(map(tuple, events)), fail_on and tuple(fail_on)), len(fed) >= 4,
             case if len(fed) < 40 else None, 'stream.' + origin)
    return flat, st


def part_stream(ctx, only=None):
    rng, M = ctx.rng, (ctx.call if ctx.model else None)
    loop = vtloop.new_loop()
    if only is not None:
        for events in only:
            check_stream(ctx, M, loop, events, None, 'replay')
        loop.close()
        return
    from ndn.encoding import make_interest, make_data, InterestParam, MetaInfo
    real = [bytes(make_interest('/a/b', InterestParam(nonce=7, lifetime=4000))), bytes(make_data('/a', MetaInfo(), b'xy')),
            bytes(make_data('/long', MetaInfo(), bytes(300)))]
    # exhaustive cut positions on small streams
    for it in range(ctx.n(200, 3000)):
        pk = []
        while sum(len(w) for _, w in pk) < 40 and len(pk) < rng.randint(1, 5):
            pk.append(rand_packet(rng, True))
            if sum(len(w) for _, w in pk) > 64:
                pk.pop()
                break
        if it % 10 == 0:
            pk = [(5, real[0])] + pk[:1]
        s = b''.join(w for _, w in pk)
        for ch in chunkings(rng, s, len(s) <= 64):
            check_stream(ctx, M, loop, [(0, c) for c in ch], pk, 'cuts')
        # the stream ends at every position: complete packets before it, shutdown, nothing partial
        for i in range(len(s) + 1) if len(s) <= 64 else rng.sample(range(len(s) + 1), 20):
            pre = s[:i]
            acc, done = 0, []
            for p in pk:
                if acc + len(p[1]) <= i:
                    done.append(p)
                    acc += len(p[1])
                else:
                    break
            ch = rng.choice(chunkings(rng, pre, False))
            check_stream(ctx, M, loop, [(0, c) for c in ch] + [(1,)], done, 'truncated')
    # larger streams, sampled cuts
    for it in range(ctx.n(150, 3000)):
        pk = [rand_packet(rng, False) if rng.random() < 0.7 else (lambda w: (w[0], w))(rng.choice(real))
              for _ in range(rng.randint(1, 6))]
        s = b''.join(w for _, w in pk)
        for ch in chunkings(rng, s, False)[:2]:
            ev = [(0, c) for c in ch]
            if rng.random() < 0.3:
                cut = rng.randrange(len(s) + 1)
                acc, done, ev2, left = 0, [], [], cut
                for p in pk:
                    if acc + len(p[1]) <= cut:
                        done.append(p)
                        acc += len(p[1])
                    else:
                        break
                for c in ch:
                    ev2.append((0, c[:left]))
                    left -= len(c[:left])
                check_stream(ctx, M, loop, ev2 + [(1,)], done, 'truncated.big')
            else:
                check_stream(ctx, M, loop, ev, pk, 'cuts.big')
    # garbage streams: the oracle is the extracted specification (packets_of)
    for it in range(ctx.n(1500, 30000)):
        n = rng.choice([0, 1, 2, 3, 5, 9, 12, 20, 40, 100])
        s = G.rand_bytes(rng, n) if rng.random() < 0.5 else bytes(rng.choice([0, 1, 2, 5, 6, 100, 252, 253, 254, 255, 3, 8])
                                                                  for _ in range(n))
        ch = rng.choice(chunkings(rng, s, False))
        ev = [(0, c) for c in ch] + ([(1,)] if rng.random() < 0.5 else [])
        check_stream(ctx, M, loop, ev, None, 'garbage')
    # histories with Reset / Shutdown / Eof anywhere (correspondence only)
    for it in range(ctx.n(1500, 30000)):
        pk = [rand_packet(rng, True) for _ in range(rng.randint(1, 4))]
        s = b''.join(w for _, w in pk)
        ev = [(0, c) for c in rng.choice(chunkings(rng, s, False))]
        eof = False
        for _ in range(rng.randint(1, 3)):
            k = rng.choice([1, 2, 3, 3])
            pos = rng.randrange(len(ev) + 1)
            ev.insert(pos, (k,))
        # no feed after eof (asyncio protocol)
        out = []
        for e in ev:
            if e[0] == 1:
                if eof:
                    continue
                eof = True
            if e[0] == 0 and eof:
                continue
            out.append(e)
        check_stream(ctx, M, loop, out, None, 'events')
    # a failing callback must not stop the reader loop (it is spawned as a task per packet)
    for it in range(ctx.n(100, 1000)):
        pk = [rand_packet(rng, True) for _ in range(rng.randint(2, 5))]
        s = b''.join(w for _, w in pk)
        fail_on = {rng.randrange(len(pk))}
        ch = rng.choice(chunkings(rng, s, False))
        loop.errors.clear()
        flat, st = check_stream(ctx, M, loop, [(0, c) for c in ch], pk, 'callback-raises', fail_on)
        errs = loop.collect_errors()
        loop.errors.clear()
        if not all('harness' in str(e.get('exception')) for e in errs):
            ctx.violation('StreamFace.run', 'foreign-error', 'unexpected error in the loop handler', {'errs': [str(e) for e in errs]})
    gc.collect()
    loop.settle()
    bad = [e for e in loop.errors if 'harness' not in str(e.get('exception'))]
    if bad:
        ctx.violation('StreamFace.run', 'loop-error', 'the event loop exception handler was called',
                      {'errs': [str(e.get('message')) + ' ' + repr(e.get('exception')) for e in bad][:3]})
    loop.close()


# =============================================================================================
# UDP
# =============================================================================================
def part_udp(ctx, only=None):
    rng, M = ctx.rng, (ctx.call if ctx.model else None)
    from ndn.transport.udp_face import UdpFace
    loop = vtloop.new_loop()
    srv = socket.socket(socket.AF_INET, socket.SOCK_DGRAM)
    srv.bind(('127.0.0.1', 0))
    srv.setblocking(False)
    port = srv.getsockname()[1]
    face = UdpFace('127.0.0.1', port)
    rec = []

    async def cb(typ, data):
        rec.append((typ, bytes(data)))
    face.callback = cb
    loop.run_until_complete(face.open())
    face.send(b'\x05\x00')
    addr = None
    for _ in range(200):
        loop.settle()
        try:
            _, addr = srv.recvfrom(100)
            break
        except BlockingIOError:
            import time
            time.sleep(0.001)
    handler = face.handler

    def one(data, via_socket):
        n0 = len(rec)
        loop.errors.clear()
        raised = None
        if via_socket and addr is not None:
            srv.sendto(data, addr)
            import time
            for _ in range(300):
                loop.settle()
                if len(rec) > n0 or loop.errors:
                    break
                time.sleep(0.0005)
                if _ > 40 and not data:
                    break
            if loop.errors:
                raised = type(loop.errors[0].get('exception')).__name__
        else:
            async def direct():
                try:
                    handler.datagram_received(data, ('127.0.0.1', port))
                except Exception as e:   # noqa
                    return type(e).__name__
            raised = loop.run_until_complete(direct())
            loop.settle()
        got = rec[n0:]
        case = {'datagram': data, 'via_socket': via_socket}
        imp = ('raise', {'IndexError': 2, 'error': 4}.get(raised, raised)) if raised else ('ok', got)
        if M:
            m = M([3, data])
            exp = ('raise', m[1]) if is_err(m) else ('ok', pkts_of_sexp(m[1]))
        else:
            exp = imp
        if exp != imp:
            ctx.disagree('UdpFace.datagram_received', 'model and implementation differ', case, exp, imp)
        if raised:
            ctx.violation('UdpFace.datagram_received', 'raises:' + raised,
                          f'{raised} out of datagram_received (reaches the event loop exception handler)', case)
        elif len(got) > 1 or (got and got[0][1] != data):
            ctx.violation('UdpFace.datagram_received', 'not-one-callback', 'a datagram must give one callback with the datagram', case)
        elif got:
            try:
                t, _ = TG.read_num(data, 0)
            except Exception:
                t = None
            if t != got[0][0]:
                ctx.violation('UdpFace.datagram_received', 'wrong-type', 'callback typ is not the first number of the datagram', case)
        ctx.case(('u', data, via_socket), len(data) >= 4, case, 'udp.' + ('socket' if via_socket else 'direct'))

    if only is not None:
        for d in only:
            one(d, False)
            one(d, True)
        face.shutdown()
        loop.settle()
        srv.close()
        loop.close()
        return
    fixed = [b'', b'\xfd', b'\xfd\x00', b'\xfe\x00\x00\x00', b'\xff' + bytes(7), b'\xff' + bytes(8), b'\x05\x00', b'\x06\x01a',
             b'\xfd\x00\x05\x00', b'\x64\x00', b'\xfc']
    for d in fixed:
        one(d, False)
        one(d, True)
    for _ in range(ctx.n(2500, 40000)):
        n = rng.choice([0, 1, 2, 3, 4, 5, 9, 10, 30, 200])
        d = G.rand_bytes(rng, n)
        if rng.random() < 0.4 and n:
            d = bytes([rng.choice([5, 6, 100, 253, 254, 255])]) + d[1:]
        one(d, rng.random() < 0.03)
    errs = loop.collect_errors()
    if errs:
        ctx.violation('UdpFace.datagram_received', 'loop-error', 'the event loop exception handler was called',
                      {'errs': [repr(e.get('exception')) for e in errs][:3]})
    face.shutdown()
    loop.settle()
    srv.close()
    loop.close()


# =============================================================================================
# (B) reception
# =============================================================================================
class DFace:
    """dummy face (registered as a virtual subclass of ndn Face on first use)"""
    running = True
    callback = None

    def __init__(self):
        self.sent = []

    async def open(self):
        self.running = True

    def shutdown(self):
        self.running = False

    def send(self, data):
        self.sent.append(bytes(data))

    async def run(self):
        pass

    def isLocalFace(self):
        return True


class DReg:
    def set_app(self, app):
        pass


ERRCODE = {'DecodeError': 1, 'IndexError': 2, 'ValueError': 3, 'error': 4, 'TypeError': 5, 'UnicodeDecodeError': 3,
           'KeyError': 7, 'InvalidStateError': 8, 'AttributeError': 9}


class Front:
    """adapter for one front-end"""

    def __init__(self, ver):
        self.ver = ver
        if ver == 2:
            from ndn import appv2 as mod
        else:
            from ndn import app as mod
        self.mod = mod
        self.nd = None

    def new_app(self):
        if self.ver == 2:
            return self.mod.NDNApp(face=DFace(), registerer=DReg())
        return self.mod.NDNApp(face=DFace(), keychain=object())

    # -- what _receive does before the handlers (handlers replaced by recorders)
    def classify(self, loop, typ, data):
        app = self.new_app()
        calls = []
        if self.ver == 2:
            async def on_i(name, pit_token, param, app_param, sig, raw_packet):
                calls.append([3, [bytes(c) for c in name], None if pit_token is None else bytes(pit_token), bytes(raw_packet)])
        else:
            async def on_i(name, param, app_param, sig, raw_packet):
                calls.append([3, [bytes(c) for c in name], None, bytes(raw_packet)])

        async def on_d(name, meta_info, content, sig, raw_packet):
            calls.append([4, [bytes(c) for c in name], bytes(raw_packet)])

        def on_n(name, reason):
            calls.append([2, [bytes(c) for c in name], reason])
        app._on_interest, app._on_data, app._on_nack = on_i, on_d, on_n

        async def go():
            try:
                await app._receive(typ, data)
                return None
            except Exception as e:   # noqa
                return type(e).__name__
        exc = loop.run_until_complete(go())
        if exc is not None:
            return [1, ERRCODE.get(exc, exc)]
        if len(calls) > 1:
            return ['several-handlers', calls]
        return calls[0] if calls else [0]


def norm_action(a, ver):
    """model answer -> adapter form"""
    k = a[0]
    if k == 0:
        return [0]
    if k == 1:
        return [1, a[1]]
    if k == 2:
        return [2, [bytes(c) for c in a[1]], a[2]]
    if k == 3:
        tok = bytes(a[2][0]) if a[2] else None
        return [3, [bytes(c) for c in a[1]], tok if ver == 2 else None, bytes(a[3])]
    return [4, [bytes(c) for c in a[1]], bytes(a[2])]


def probe_nack_default(front, loop):
    """reason that the front-end gives to a Nack header without NackReason (None today; 0 with C10's fix)"""
    from ndn.encoding import make_interest, InterestParam
    inter = bytes(make_interest('/probe', InterestParam(nonce=1)))
    w = G.tlv(0x64, G.tlv(0x320, b'') + G.tlv(0x50, inter))
    r = front.classify(loop, 0x64, w)
    return r[2] if r[0] == 2 else None


# ---- packets --------------------------------------------------------------------------------
def valid_packets(ctx):
    """(kind, typ, wire, name or None)"""
    from harness.props import c07 as C7
    from ndn.encoding import make_interest, make_data, InterestParam, MetaInfo, Name
    from ndn.encoding import ndnlp_v2 as LP
    from ndn.security.signer import DigestSha256Signer
    rng = ctx.rng
    out = []
    base = C7.valid_packets(ctx)
    if len(base) > 1200:
        base = rng.sample(base, 1200)       # keeps the thorough tier within its 30 min
    for di, w in base:
        if di == 0:
            out.append(('interest', 5, w))
        elif di == 1:
            out.append(('data', 6, w))
        elif di == 2:
            out.append(('lp', 0x64, w))
    names = ['/a', '/a/b', '/a/b/c', '/x', '/pend/0', '/pend/1', '/h/0/q', '/h/1', '/']
    for i in range(ctx.n(40, 400)):
        nm = rng.choice(names)
        inter = bytes(make_interest(nm, InterestParam(nonce=rng.getrandbits(32), lifetime=rng.choice([None, 4000, 10]),
                                                      can_be_prefix=rng.random() < 0.3),
                                    rng.choice([None, None, b'p']), DigestSha256Signer(for_interest=True) if rng.random() < 0.3 else None)) \
            if True else b''
        data = bytes(make_data(nm, MetaInfo(), rng.choice([None, b'', b'content']), rng.choice([None, DigestSha256Signer()])))
        out.append(('interest', 5, inter))
        out.append(('data', 6, data))
        inner = rng.choice([inter, data])
        # LP with a token / other headers
        hdr = b''
        if rng.random() < 0.5:
            hdr += G.tlv(0x62, G.rand_bytes(rng, rng.choice([0, 1, 4, 8, 32])))
        if rng.random() < 0.2:
            hdr += G.tlv(0x34c, b'')            # CongestionMark etc. appear after: order does not matter for ignore_critical
        out.append(('lp', 0x64, G.tlv(0x64, hdr + G.tlv(0x50, inner))))
        # Nack with reason, without reason, with a Data inside, without fragment
        out.append(('nack', 0x64, bytes(LP.make_network_nack(inter, rng.choice([0, 50, 100, 150, 7, 70000])))))
        out.append(('nack-noreason', 0x64, G.tlv(0x64, G.tlv(0x320, b'') + G.tlv(0x50, inter))))
        if rng.random() < 0.3:
            out.append(('nack-data', 0x64, G.tlv(0x64, G.tlv(0x320, G.tlv(0x321, b'\x32')) + G.tlv(0x50, data))))
            out.append(('nack-nofrag', 0x64, G.tlv(0x64, hdr + G.tlv(0x320, G.tlv(0x321, b'\x32')))))
        # IDLE packets, empty / short fragments
        if rng.random() < 0.3:
            out.append(('idle', 0x64, G.tlv(0x64, hdr)))
            out.append(('emptyfrag', 0x64, G.tlv(0x64, hdr + G.tlv(0x50, b''))))
            out.append(('shortfrag', 0x64, G.tlv(0x64, hdr + G.tlv(0x50, rng.choice([b'\xfd', b'\xfe\x00', b'\xff', b'\x05', b'\x06\x05'])))))
        # fragmented LP
        if rng.random() < 0.3:
            out.append(('fragmented', 0x64, G.tlv(0x64, G.tlv(0x52, b'\x00') + G.tlv(0x53, b'\x02') + G.tlv(0x50, inner[:5]))))
            # fragment-labelled envelopes whose payload happens to be a complete packet (seeded regression C06b):
            # every combination of FragIndex / FragCount presence and small values
            fi = rng.choice([None, b'\x00', b'\x01', b'\x02'])
            fc = rng.choice([None, b'\x00', b'\x01', b'\x02', b'\x03'])
            if fi is None and fc is None:
                fi = b'\x01'
            fh = (G.tlv(0x52, fi) if fi is not None else b'') + (G.tlv(0x53, fc) if fc is not None else b'')
            out.append(('fragmented-whole', 0x64, G.tlv(0x64, fh + G.tlv(0x50, rng.choice([inter, data])))))
            out.append(('fragmented-nack', 0x64, G.tlv(0x64, fh + G.tlv(0x320, G.tlv(0x321, b'\x96')) + G.tlv(0x50, inter))))
        # unknown packet types, LP inside LP
        if rng.random() < 0.3:
            t = rng.choice([0, 1, 7, 8, 9, 0x65, 0x320, 253, 65536])
            out.append(('unknown', t, G.tlv(t, G.rand_bytes(rng, rng.choice([0, 3, 10])))))
            out.append(('lp-unknown', 0x64, G.tlv(0x64, G.tlv(0x50, G.tlv(t, b'ab')))))
            out.append(('lp-lp', 0x64, G.tlv(0x64, G.tlv(0x50, G.tlv(0x64, G.tlv(0x50, inter))))))
    return out


def struct_mutants(rng, w, desc, n):
    """structural single edits inside the outer element (as harness/props/c07.py)"""
    try:
        t0, a = TG.read_num(w, 0)
        l0, b = TG.read_num(w, a)
    except Exception:
        return []
    tr = TG.tree_of(desc, w[a + b:])
    if tr is None:
        return []
    edits = []
    for path, children, ld in TG.levels(tr, desc):
        for posn in range(len(children) + 1):
            edits.append(('ins', path, posn))
        for posn in range(len(children)):
            edits += [('dup', path, posn), ('del', path, posn)]
            if posn + 1 < len(children):
                edits.append(('swap', path, posn))
            if ld is not None and any(ft == children[posn][0] and fd[0] == 'uint' for ft, fd in ld[2]):
                edits.append(('width', path, posn))
    out = []
    for kind, path, posn in rng.sample(edits, min(len(edits), n)):
        tr2 = copy.deepcopy(tr)
        lvl = tr2
        for i in path:
            lvl = lvl[i][1]
        if kind == 'ins':
            lvl.insert(posn, [rng.choice([0x80, 0x81, 0x7e, 0x7f, 0x320, 0x321, 253, 254, 65537, 9, 10, 0x50, 0x62]),
                              G.rand_bytes(rng, rng.choice([0, 1, 4])), None])
        elif kind == 'dup':
            lvl.insert(posn, copy.deepcopy(lvl[posn]))
        elif kind == 'del':
            del lvl[posn]
        elif kind == 'width':
            lvl[posn][1] = G.rand_bytes(rng, rng.choice([0, 3, 5, 6, 7, 9, 16]))
        else:
            lvl[posn], lvl[posn + 1] = lvl[posn + 1], lvl[posn]
        out.append(G.tlv(t0, TG.ser_tree(tr2)))
    return out


def mutants(ctx, kind, typ, w, descs):
    """(origin, typ, wire): the packet itself and its mutant stream, with consistent and inconsistent framing"""
    from harness.props import c07 as C7
    rng = ctx.rng
    out = [('valid.' + kind, typ, w)]
    for _ in range(ctx.n(3, 10)):
        out.append(('bytemut', typ, G.mutate_bytes(rng, w)))
    for w2 in C7.length_edits(rng, w)[:ctx.n(3, 4)]:
        out.append(('lenedit', typ, w2))
    desc = descs.get(typ)
    if desc is not None:
        for w2 in struct_mutants(rng, w, desc, ctx.n(3, 12)):
            out.append(('struct', typ, w2))
    # inconsistent outer framing: wrong typ argument, trailing / missing bytes (what a datagram face can deliver)
    out.append(('framing.typ', rng.choice([5, 6, 0x64, 9, 0, typ + 1]), w))
    out.append(('framing.trail', typ, w + G.rand_bytes(rng, rng.choice([1, 2, 9]))))
    out.append(('framing.cut', typ, w[:rng.randrange(len(w))] if w else w))
    # the same mutants delivered inside an LpPacket Fragment (reachable over stream faces too)
    if typ != 0x64 and rng.random() < 0.5:
        o, t, w2 = rng.choice(out)
        tok = G.tlv(0x62, b'\x01\x02') if rng.random() < 0.5 else b''
        out.append(('infrag.' + o, 0x64, G.tlv(0x64, tok + G.tlv(0x50, w2))))
        out.append(('innack.' + o, 0x64, G.tlv(0x64, G.tlv(0x320, G.tlv(0x321, b'\x96')) + G.tlv(0x50, w2))))
    return out


# ---- direct oracle on the untouched application ---------------------------------------------------
class Scenario:
    """app with pending Interests and handlers; delivers one packet; checks the frame and the aftermath"""

    def __init__(self, ctx, front, loop, npend, nhand, pkt_name, hand_name=None):
        from ndn.encoding import Name
        self.ctx, self.front, self.loop = ctx, front, loop
        rng = ctx.rng
        self.app = front.new_app()
        self.hits = {}
        self.pend = []
        ver = front.ver
        pool = [Name.from_str('/pend/%d' % i) for i in range(4)]
        if pkt_name is not None and rng.random() < 0.5:
            pool[rng.randrange(4)] = pkt_name           # one pending Interest is addressed by the packet
        hpool = [Name.from_str('/h/%d' % i) for i in range(3)]
        if hand_name is not None and rng.random() < 0.5:
            hpool[rng.randrange(3)] = hand_name

        async def v2_ok(name, sig, context):
            return front.mod.ValidResult.PASS

        async def v1_ok(name, sig):
            return True
        seen = set()
        for i in range(nhand):
            nm = hpool[i]
            key = tuple(bytes(c) for c in nm)
            if key in seen:
                continue
            seen.add(key)
            self.hits[key] = 0
            if ver == 2:
                def h(name, app_param, reply, context, key=key):
                    self.hits[key] += 1
                self.app.attach_handler(nm, h, v2_ok)
            else:
                def h(name, param, app_param, key=key):
                    self.hits[key] += 1
                self.app.set_interest_filter(nm, h, v1_ok)
        async def express_all():
            seen = set()
            for i in range(npend):
                nm = pool[i]
                if tuple(bytes(c) for c in nm) in seen:
                    continue
                seen.add(tuple(bytes(c) for c in nm))
                cbp = rng.random() < 0.3
                if ver == 2:
                    co = self.app.express(nm, v2_ok, lifetime=60000, can_be_prefix=cbp, nonce=i + 1)
                else:
                    co = self.app.express_interest(nm, validator=v1_ok, lifetime=60000, can_be_prefix=cbp, nonce=i + 1)
                t = loop.create_task(co)
                self.pend.append((Name.normalize(nm), t, cbp))
        loop.run_until_complete(express_all())
        loop.settle()

    def snapshot(self):
        return ([t.done() for _, t, _ in self.pend], dict(self.hits))


def name_matches(pend_name, cbp, pkt_name):
    """could a Data / Nack named pkt_name address the pending Interest?"""
    if pkt_name is None:
        return False
    pn = [bytes(c) for c in pend_name]
    if pn == pkt_name:
        return True
    # prefix (CanBePrefix) or implicit digest component
    return len(pn) <= len(pkt_name) and pkt_name[:len(pn)] == pn or pn[:-1] == pkt_name


def oracle_receive(ctx, front, loop, origin, typ, w, action, npend, nhand):
    """action = the model's classification (used only to decide whom the packet addresses by name)"""
    from ndn.encoding import make_data, make_interest, MetaInfo, InterestParam, Name
    rng = ctx.rng
    site = f'appv{front.ver}._receive'
    pkt_name = [bytes(c) for c in action[1]] if action[0] in (2, 3, 4) else None
    pn = None
    def usable(c):
        # components the *encoder* accepts in a plain Interest/Data name (no invalid type 0, no digest components)
        try:
            t, _ = TG.read_num(c, 0)
        except Exception:
            return False
        return t not in (0, 1, 2) and t <= 65535
    if pkt_name and all(usable(c) for c in pkt_name):
        pn = pkt_name
    if pn is None and typ == 0x64:
        # a packet the model drops: let the tables hold entries that its payload WOULD address if it were
        # (wrongly) processed, so that "dropped" is observable (independent, lenient reading of the envelope)
        try:
            _, a = TG.read_num(w, 0)
            _, b = TG.read_num(w, a)
            for t0, p0 in (TG.tlv_walk(w[a + b:]) or []):
                if t0 == 0x50 and p0[:1] in (b'\x05', b'\x06'):
                    _, a2 = TG.read_num(p0, 0)
                    _, b2 = TG.read_num(p0, a2)
                    for t1, p1 in (TG.tlv_walk(p0[a2 + b2:]) or []):
                        if t1 == 7:
                            comps = [G.tlv(ct, cv) for ct, cv in (TG.tlv_walk(p1) or [])]
                            if comps and all(usable(c) for c in comps):
                                pn = comps
                            break
        except Exception:   # noqa
            pn = None
    hn = pn
    if hn is None and action[0] == 3 and pkt_name:
        # an Interest whose name holds components no prefix can be registered with (a ParametersSha256DigestComponent: every
        # parameterised / signed Interest): a handler sits at the longest leading part that can, so that it is served
        k = 0
        while k < len(pkt_name) and usable(pkt_name[k]):
            k += 1
        hn = pkt_name[:k] if k else None
    sc = Scenario(ctx, front, loop, npend, nhand, pn, hn)
    app = sc.app
    case = {'front': front.ver, 'typ': typ, 'wire': w, 'origin': origin, 'pending': [b''.join(bytes(c) for c in n) for n, _, _ in sc.pend],
            'handlers': [b''.join(k) for k in sorted(sc.hits)]}
    loop.errors.clear()
    before = sc.snapshot()

    # 1. awaited directly
    async def go():
        try:
            await app._receive(typ, w)
            return None
        except Exception as e:   # noqa
            return e
    exc = loop.run_until_complete(go())
    loop.settle()
    where = 'decode' if action[0] in (0, 1) else {2: '_on_nack', 3: '_on_interest', 4: '_on_data'}[action[0]]
    if exc is not None:
        cls = exc_class(exc)
        ctx.violation(site, f'raises:{cls}:{where}', f'_receive raised {type(exc).__name__} ({str(exc)[:80]})', case)
    # 2. the way the faces deliver: a task nobody holds on to
    loop.create_task(app._receive(typ, w))
    loop.settle()
    errs = loop.collect_errors()
    loop.errors.clear()
    if errs and exc is None:
        e = errs[0].get('exception')
        ctx.violation(site, f'raises:{exc_class(e)}:{where}', f'background task running _receive ended with {e!r}', case)
    # 3. frame: whoever is not addressed by name is untouched
    after = sc.snapshot()
    for i, (pname, t, cbp) in enumerate(sc.pend):
        addressed = action[0] in (2, 4) and name_matches(pname, cbp, pkt_name)
        if after[0][i] and not before[0][i] and not addressed:
            ctx.violation(site, 'pending-interest-disturbed', f'pending Interest {b"".join(bytes(c) for c in pname).hex()} completed by a packet that does not address it', case)
    for k in sc.hits:
        if after[1][k] != before[1][k] and action[0] != 3:
            ctx.violation(site, 'handler-disturbed', f'handler {b"".join(k).hex()} invoked by a packet that is no Interest', case)
    if action[0] == 0 and after != before:
        ctx.violation(site, 'dropped-packet-changed-state', 'a dropped packet changed the pending/handler state', case)
    # 4. aftermath: still-pending Interests complete normally, handlers still work
    for pname, t, cbp in sc.pend:
        if t.done():
            t.exception() if not t.cancelled() else None
            continue
        d = bytes(make_data(pname, MetaInfo(), b'after'))
        if rng.random() < 0.5:
            loop.run_until_complete(app._receive(6, d))
        else:       # the forwarder may wrap it in an LpPacket (with headers the application ignores)
            loop.run_until_complete(app._receive(0x64, G.tlv(0x64, G.tlv(0x62, b'\x07') + G.tlv(0x50, d))))
        loop.settle()
        ok = False
        if t.done() and not t.cancelled() and t.exception() is None:
            r = t.result()
            content = r[1] if front.ver == 2 else r[2]
            ok = content is not None and bytes(content) == b'after'
        if not ok:
            why = 'still pending' if not t.done() else repr(t.exception() if not t.cancelled() else 'cancelled')
            ctx.violation(site, 'pending-interest-lost', f'pending Interest {b"".join(bytes(c) for c in pname).hex()} does not complete with its Data afterwards ({why})', case)
    for k in sc.hits:
        n0 = sc.hits[k]
        nm = list(k) + [b'\x08\x01z']
        iw = bytes(make_interest(nm, InterestParam(nonce=99)))
        if rng.random() < 0.5:
            loop.run_until_complete(app._receive(5, iw))
        else:
            loop.run_until_complete(app._receive(0x64, G.tlv(0x64, G.tlv(0x62, b'\x01\x02') + G.tlv(0x50, iw))))
        loop.settle()
        if sc.hits[k] != n0 + 1:
            ctx.violation(site, 'handler-lost', f'handler {b"".join(k).hex()} no longer receives its Interests', case)
    errs = loop.collect_errors()
    loop.errors.clear()
    if errs:
        e = errs[0].get('exception')
        ctx.violation(site, f'aftermath-error:{type(e).__name__}', f'loop exception handler called afterwards: {e!r}', case)
    for _, t, _ in sc.pend:
        if not t.done():
            t.cancel()
    loop.settle()
    retrieve([t for _, t, _ in sc.pend])
    loop.errors.clear()


# ---- reception in the reachable states of the pending-Interest table ------------------------------------
# A table state is described by a word, one letter per Interest, in the order in which they were expressed.
# N = the name the packet carries (when the encoder can express it; a fixed name otherwise).
#   W  named N, waiting                         H  named N + an implicit digest the packet does not have, waiting
#   C  named N, its caller gives up in the loop turn in which the packet is processed (entry still listed)
#   T  named N, its lifetime timer fires in the loop turn in which the packet is processed (entry still listed)
#   G  named N, given up earlier     X  named N, timed out earlier     D / Q  named N, satisfied / nacked earlier
#   V  named N, satisfied earlier, its validator is still running
#   P  named by the parent of N with CanBePrefix, waiting      p  the same, caller gives up in this loop turn
#   U  another name, waiting                 B  named N + one more component (strictly BELOW the packet's name), waiting
STATE_KINDS = 'WHCTGXDQVPpUB'
T_LIFETIME = 1000       # ms, the T entries
X_LIFETIME = 40         # ms, the X entries


def ref_nack(w):
    """Independent strict reading (harness TLV walker, no library code) of a Nack the harness built itself:
    LpPacket{headers, Nack{[NackReason]}, headers, Fragment{Interest}} -> (name components of the nacked Interest,
    reason or None when the NackReason element is absent).  None when w is not of that shape."""
    try:
        t, a = TG.read_num(w, 0)
        _, b = TG.read_num(w, a)
        els = TG.tlv_walk(w[a + b:]) if t == 0x64 else None
        if not els:
            return None
        nack = [p0 for t0, p0 in els if t0 == 0x320]
        frag = [p0 for t0, p0 in els if t0 == 0x50]
        if len(nack) != 1 or len(frag) != 1:
            return None
        rs = [p0 for t0, p0 in (TG.tlv_walk(nack[0]) or []) if t0 == 0x321]
        reason = int.from_bytes(rs[0], 'big') if rs else None
        t1, a1 = TG.read_num(frag[0], 0)
        _, b1 = TG.read_num(frag[0], a1)
        if t1 != 5:
            return None
        for t2, p2 in TG.tlv_walk(frag[0][a1 + b1:]) or []:
            if t2 == 7:
                return [G.tlv(ct, cv) for ct, cv in TG.tlv_walk(p2)], reason
    except Exception:   # noqa
        return None
    return None


BUILT_NACKS = ('valid.nack', 'valid.nack-noreason', 'table.nack', 'table.nack-noreason')


def construction_action(origin, f, w):
    """Without a model the instrumented implementation says whom a packet addresses -- except for the packets the
    harness built itself as Nacks: those are Nacks by construction (a Nack never addresses an Interest handler),
    whatever the implementation under test makes of them."""
    if origin in BUILT_NACKS:
        r = ref_nack(w)
        if r is not None:
            return [2, r[0], (0 if f.nd is None else f.nd) if r[1] is None else r[1]]
    return None


def classify_action(M, f, loop, typ, w, origin=''):
    """whom the packet addresses: the model's classification (without a model: by construction for the Nacks the
    harness built, the instrumented implementation otherwise)"""
    if M:
        a = M([4, f.ver, None if f.nd is None else [f.nd], typ, w])
        if not (is_err(a) and a[1] == 98):
            return a
    a = construction_action(origin, f, w)
    if a is not None:
        return a
    ia = f.classify(loop, typ, w)
    return [ia[0] if isinstance(ia[0], int) else 0] + ia[1:]


def usable_name(comps):
    """components the *encoder* accepts in a plain Interest/Data name (no invalid type 0, no digest components)"""
    def usable(c):
        try:
            t, _ = TG.read_num(c, 0)
        except Exception:   # noqa
            return False
        return t not in (0, 1, 2) and t <= 65535
    return bool(comps) and all(usable(c) for c in comps)


def oracle_states(ctx, front, loop, origin, typ, w, action, word, mode):
    """deliver (typ, w) to an application whose pending-Interest table is in the state [word]; mode = how the
    packet is handed over: 'await' (reception awaited in the turn in which the callers of C/p give up), 'task'
    (the way the faces do it: a task created in that turn), 'timer' (a task created in the loop turn in which the
    lifetime timers of the T entries fire; chosen whenever the word has a T)"""
    import hashlib
    from ndn.encoding import make_data, MetaInfo, Name, Component
    from ndn.types import InterestNack, InterestTimeout, InterestCanceled
    rng = ctx.rng
    ver = front.ver
    site = f'appv{ver}._receive'
    app = front.new_app()
    pkt_name = [bytes(c) for c in action[1]] if action[0] in (2, 3, 4) else None
    nN = pkt_name if (pkt_name and usable_name(pkt_name)) else [bytes(c) for c in Name.from_str('/st/n')]
    nP = nN[:-1] if len(nN) >= 2 else None
    nU = [bytes(c) for c in Name.from_str('/st/u')]
    if 'T' in word:
        mode = 'timer'
    elif mode == 'timer':
        mode = 'task'
    after = {}

    def after_wire(nm):
        k = tuple(nm)
        if k not in after:
            after[k] = bytes(make_data(list(nm), MetaInfo(), b'after'))
        return after[k]
    nH = nN + [bytes(Component.from_bytes(hashlib.sha256(after_wire(nN)).digest(), Component.TYPE_IMPLICIT_SHA256))]

    async def v2_ok(name, sig, context):
        return front.mod.ValidResult.PASS

    async def v1_ok(name, sig):
        return True

    async def v2_slow(name, sig, context):
        await asyncio.sleep(2.0)
        return front.mod.ValidResult.PASS

    async def v1_slow(name, sig):
        await asyncio.sleep(2.0)
        return True
    entries = []

    def express(kind, nm, lifetime, slow=False, cbp=None):
        cbp = (rng.random() < 0.3) if cbp is None else cbp

        async def go():
            if ver == 2:
                co = app.express(list(nm), v2_slow if slow else v2_ok, lifetime=lifetime, can_be_prefix=cbp,
                                 nonce=len(entries) + 1)
            else:
                co = app.express_interest(list(nm), validator=v1_slow if slow else v1_ok, lifetime=lifetime,
                                          can_be_prefix=cbp, nonce=len(entries) + 1)
            return loop.create_task(co)
        t = loop.run_until_complete(go())
        loop.settle()
        e = {'kind': kind, 'name': list(nm), 'task': t, 'cbp': cbp, 'wire': app.face.sent[-1] if app.face.sent else b''}
        entries.append(e)
        return e

    def recv_now(t_, w_):
        loop.run_until_complete(app._receive(t_, w_))
        loop.settle()
    case = {'front': ver, 'typ': typ, 'wire': w, 'origin': origin, 'table': word, 'mode': mode,
            'name': b''.join(nN)}
    loop.errors.clear()
    early = bytes(make_data(list(nN), MetaInfo(), b'early'))
    try:
        # -- the history that produces the state
        for k in word:
            if k == 'D':
                express(k, nN, 60000)
                recv_now(6, early)
            elif k == 'Q':
                e = express(k, nN, 60000)
                recv_now(0x64, G.tlv(0x64, G.tlv(0x320, G.tlv(0x321, b'\x32')) + G.tlv(0x50, e['wire'])))
        if 'V' in word:
            for k in word:
                if k == 'V':
                    express(k, nN, 60000, slow=True)
            recv_now(6, early)
        t2 = loop.time()
        for k in word:
            if k in 'WCG':
                express(k, nN, 60000)
            elif k == 'H':
                express(k, nH, 60000)
            elif k == 'T':
                express(k, nN, T_LIFETIME)
            elif k == 'X':
                express(k, nN, X_LIFETIME)
            elif k in 'Pp':
                if nP is not None:
                    express(k, nP, 60000, cbp=True)
            elif k == 'U':
                express(k, nU, 60000)
            elif k == 'B':
                express(k, nN + [G.tlv(8, b'below')], 60000)
        for e in entries:
            if e['kind'] == 'G':
                e['task'].cancel()
        loop.settle()
        if 'X' in word:
            loop.advance_to(loop.time() + 0.06)
    except Exception as e:   # noqa
        ctx.violation(site, f'history-raises:{exc_class(e)}', f'building the table state raised {e!r}', case)
        for e2 in entries:
            e2['task'].cancel()
        loop.settle()
        retrieve([e2['task'] for e2 in entries])
        loop.errors.clear()
        return
    before = [e['task'].done() for e in entries]
    for e, d in zip(entries, before):
        if d != (e['kind'] in 'GXDQ'):
            # the history itself went wrong (an earlier Data / Nack / cancellation / expiry did not do its job)
            ctx.violation(site, 'history-outcome', f'entry {e["kind"]} is {"done" if d else "pending"} before the packet arrives', case)
    giving_up = [e for e in entries if e['kind'] in 'Cp']
    rx = []

    # -- the packet
    async def go_await():
        for e in giving_up:
            e['task'].cancel()
        try:
            await app._receive(typ, w)
            return None
        except Exception as e:   # noqa
            return e

    def hand_over():
        rx.append(loop.create_task(app._receive(typ, w)))
        for e in giving_up:
            e['task'].cancel()

    async def go_task():
        hand_over()
    exc = None
    if mode == 'await':
        exc = loop.run_until_complete(go_await())
    elif mode == 'task':
        loop.run_until_complete(go_task())
    else:
        # the loop is busy around the expiry; the transport has the packet just before it: the hand-over and the
        # lifetime timers are processed in one loop iteration, the reception task runs before the expired waiters
        dl = t2 + T_LIFETIME / 1000.0

        def busy():
            loop._vt += 0.040
        loop.call_at(dl - 0.020, busy)
        loop.call_at(dl - 0.005, hand_over)
        loop.advance_to(dl + 0.1)
    loop.settle()
    where = 'decode' if action[0] in (0, 1) else {2: '_on_nack', 3: '_on_interest', 4: '_on_data'}[action[0]]
    if rx:
        if not rx[0].done():
            ctx.violation(site, 'reception-does-not-return', 'the reception task is still running at quiescence', case)
            rx[0].cancel()
        elif not rx[0].cancelled():
            exc = rx[0].exception()
    elif mode == 'timer':
        ctx.violation(site, 'harness:not-handed-over', 'the packet was not handed over (harness)', case)
    if exc is not None:
        ctx.violation(site, f'raises:{exc_class(exc)}:{where}',
                      f'_receive raised {type(exc).__name__} ({str(exc)[:80]}) with the table in state {word!r}', case)

    # -- what became of the entries
    def outcome(t):
        if not t.done():
            return ('pending',)
        if t.cancelled():
            return ('CancelledError',)
        e = t.exception()
        if e is None:
            r = t.result()
            content = r[1] if ver == 2 else r[2]
            return ('data', [bytes(c) for c in r[0]], None if content is None else bytes(content))
        if isinstance(e, InterestNack):
            return ('nack', e.reason)
        return (exc_class(e),)

    def hexname(nm):
        return b''.join(nm).hex()
    for e in entries:
        k, o = e['kind'], outcome(e['task'])
        if k in 'WHPUB':
            if k == 'W':
                addressed = action[0] in (2, 4)
            elif k == 'P':
                addressed = action[0] == 4
            else:
                addressed = False
            if addressed and pkt_name != nN:
                addressed = False
            if addressed:
                want = ('data', pkt_name) if action[0] == 4 else ('nack', action[2])
                if o[:2] != want:
                    ctx.violation(site, 'pending-interest-not-completed',
                                  f'entry {k} ({hexname(e["name"])}) is addressed by the packet; expected {want!r}, it is {o[:2]!r}', case)
            elif o != ('pending',):
                ctx.violation(site, 'pending-interest-disturbed',
                              f'entry {k} ({hexname(e["name"])}) is not addressed by the packet and ended with {o[:2]!r}', case)
        elif k in 'Cp':
            if o[0] not in ('InterestCanceled', 'CancelledError', 'data', 'nack'):
                ctx.violation(site, 'pending-interest-wrong-outcome:given-up',
                              f'entry {k} whose caller gave up in the turn of the packet ended with {o!r}', case)
        elif k == 'T':
            if o[0] not in ('InterestTimeout', 'data', 'nack'):
                ctx.violation(site, 'pending-interest-wrong-outcome:expiring',
                              f'entry T whose lifetime ended in the turn of the packet ended with {o!r}', case)
    if 'V' in word:
        loop.advance_to(loop.time() + 3.0)
        for e in entries:
            if e['kind'] == 'V':
                o = outcome(e['task'])
                if o != ('data', nN, b'early'):
                    ctx.violation(site, 'pending-interest-wrong-outcome:validating',
                                  f'entry V (Data under validation when the packet arrived) ended with {o!r}', case)
    # -- aftermath: whoever is still waiting completes with its own Data
    for e in entries:
        if e['task'].done():
            continue
        d = after_wire(nN if e['kind'] == 'H' else e['name'])
        try:
            if rng.random() < 0.5:
                recv_now(6, d)
            else:
                recv_now(0x64, G.tlv(0x64, G.tlv(0x62, b'\x07') + G.tlv(0x50, d)))
            o = outcome(e['task'])
        except Exception as e2:   # noqa
            o = ('reception raised ' + exc_class(e2),)
        if o[0] != 'data' or o[2] != b'after':
            ctx.violation(site, 'pending-interest-lost',
                          f'entry {e["kind"]} ({hexname(e["name"])}) does not complete with its Data afterwards ({o!r})', case)
    errs = loop.collect_errors()
    loop.errors.clear()
    if errs:
        e = errs[0].get('exception')
        ctx.violation(site, f'loop-error:{exc_class(e) if e is not None else "none"}',
                      f'loop exception handler called: {errs[0].get("message")} {e!r}', case)
    for e in entries:
        if not e['task'].done():
            e['task'].cancel()
    loop.settle()
    retrieve([e['task'] for e in entries] + rx)
    loop.errors.clear()
    ctx.case(('t', ver, typ, w, word, mode), True, case if len(word) <= 3 else None,
             f'recv.v{ver}.table.{mode}.{["drop", "raise", "nack", "interest", "data"][action[0]]}')


def state_words(ctx):
    """every word up to length 2 (3 in the thorough tier) + longer sampled ones biased to entries under N"""
    import itertools
    rng = ctx.rng
    words = []
    for n in range(1, (3 if ctx.thorough else 2) + 1):
        words += [''.join(t) for t in itertools.product(STATE_KINDS, repeat=n)]
    for _ in range(ctx.n(150, 3000)):
        words.append(''.join(rng.choice('WWWCCTTHGXDQVPpUBB') for _ in range(rng.randint(3, 6))))
    return words


def table_packets(ctx, idx):
    """ordinary packets around one name (kind, typ, wire): the state quantifier is the point here, not the bytes"""
    from ndn.encoding import make_interest, make_data, InterestParam, MetaInfo
    from ndn.encoding import ndnlp_v2 as LP
    rng = ctx.rng
    nm = '/st/%d/n' % (idx % 5)
    inter = bytes(make_interest(nm, InterestParam(nonce=rng.getrandbits(32), lifetime=4000)))
    data = bytes(make_data(nm, MetaInfo(), rng.choice([b'', b'content', None])))
    tok = G.tlv(0x62, G.rand_bytes(rng, rng.choice([0, 1, 8])))
    return [('data', 6, data),
            ('data-lp', 0x64, G.tlv(0x64, tok + G.tlv(0x50, data))),
            ('nack', 0x64, bytes(LP.make_network_nack(inter, rng.choice([0, 50, 100, 150, 70000])))),
            ('nack-noreason', 0x64, G.tlv(0x64, G.tlv(0x320, b'') + G.tlv(0x50, inter))),
            ('interest', 5, inter),
            ('data-cut', 6, data[:-1]),
            ('data-trail', 6, data + b'\x00'),
            ('fragmented-data', 0x64, G.tlv(0x64, G.tlv(0x52, b'\x01') + G.tlv(0x50, data)))]


# ---- Nacks x handler tables ---------------------------------------------------------------------------------
# A network Nack returns an Interest the application SENT; it never addresses an Interest handler, whatever its
# reason (absent, 0 = None, the usual 50/100/150, width boundaries, non-shortest encodings), whatever other LpPacket
# headers travel with it, whoever is attached at, above, below or beside the nacked name, and whether or not anybody
# is waiting for it.  Everything here is known by construction: no model and no classification by the implementation
# under test is involved.
NACK_HDRS = ('none', 'token', 'cmark', 'token+cmark')
NACK_SHAPES = ('plain', 'cbp', 'nolife', 'params')
NACK_PENDING = ('', 'W', 'U', 'WU', 'UW')
NACK_NAMES = ('/nk', '/nk/a', '/nk/a/b')


def reason_element(form):
    """NackReason element for a form of harness/props/_pipeline.py NACK_FORMS (b'' = element absent)"""
    if isinstance(form, (tuple, list)):
        if form[0] == 'absent':
            return b''
        return G.tlv(0x0321, int(form[1]).to_bytes(form[2], 'big'))
    n = 1 if form < 1 << 8 else 2 if form < 1 << 16 else 4 if form < 1 << 32 else 8
    return G.tlv(0x0321, int(form).to_bytes(n, 'big'))


def handler_positions(nN):
    """name -> prefix, for every place a handler can sit relative to the nacked name nN"""
    from ndn.encoding import Component
    c = lambda x: bytes(Component.from_str(x))   # noqa
    pos = {'root': []}
    for i in range(1, len(nN)):
        pos['p%d' % i] = nN[:i]
    pos['N'] = list(nN)
    pos['longer'] = list(nN) + [c('zz')]
    pos['sibling'] = nN[:-1] + [c('sib')]
    pos['other'] = [c('elsewhere')]
    return pos


def nack_scenario(ctx, front, loop, sp):
    """sp: {'name', 'form', 'hdr', 'shape', 'handlers': [position...], 'pending': word over W (waits for the nacked
    Interest) / U (another name), 'mode': 'await' | 'task'}"""
    from harness.props import _pipeline as P
    from ndn.encoding import make_interest, make_data, InterestParam, MetaInfo, Name
    from ndn.types import InterestNack
    ver = front.ver
    site = f'appv{ver}._receive'
    app = front.new_app()
    nN = [bytes(c) for c in Name.from_str(sp['name'])]
    nU = [bytes(c) for c in Name.from_str('/nk-unrelated/u')]
    positions = handler_positions(nN)
    form = tuple(sp['form']) if isinstance(sp['form'], (tuple, list)) else sp['form']
    case = {'front': ver, 'nackfam': {k: (list(v) if isinstance(v, tuple) else v) for k, v in sp.items()}}
    hits = {}
    loop.errors.clear()

    async def v2_ok(name, sig, context):
        return front.mod.ValidResult.PASS

    async def v1_ok(name, sig):
        return True
    for pname in sp['handlers']:
        if pname not in positions or pname in hits:
            continue
        hits[pname] = []
        if ver == 2:
            def h(name, app_param, reply, context, pname=pname):
                hits[pname].append([bytes(c) for c in name])
            app.attach_handler(list(positions[pname]), h, v2_ok)
        else:
            def h(name, param, app_param, pname=pname):
                hits[pname].append([bytes(c) for c in name])
            app.set_interest_filter(list(positions[pname]), h, v1_ok)
    shape = sp['shape']
    kw = {'lifetime': 60000, 'can_be_prefix': shape == 'cbp'}
    ap = b'p' if shape == 'params' else None
    entries = []

    def express(kind, nm, ap_):
        async def go():
            if ver == 2:
                co = app.express(list(nm), v2_ok, ap_, nonce=len(entries) + 1, **kw)
            else:
                co = app.express_interest(list(nm), ap_, v1_ok, nonce=len(entries) + 1, **kw)
            return loop.create_task(co)
        n0 = len(app.face.sent)
        t = loop.run_until_complete(go())
        loop.settle()
        entries.append({'kind': kind, 'task': t, 'name': list(nm),
                        'wire': app.face.sent[n0] if len(app.face.sent) > n0 else None})
    try:
        for k in sp['pending']:
            # (the application's own Interests carry no ApplicationParameters here: signing them is C05's business;
            #  the `params` shape applies to a Nack returning an Interest nobody is waiting for)
            express(k, nN if k == 'W' else nU, None)
    except Exception as e:   # noqa
        ctx.violation(site, f'history-raises:{exc_class(e)}', f'expressing the pending Interests raised {e!r}', case)
        for e2 in entries:
            e2['task'].cancel()
        loop.settle()
        retrieve([e2['task'] for e2 in entries])
        loop.collect_errors()
        loop.errors.clear()
        return
    mine = [e for e in entries if e['kind'] == 'W' and e['wire'] is not None]
    if mine:
        inter = bytes(mine[0]['wire'])          # the Interest this application sent comes back
    else:
        ip = InterestParam(nonce=0x0a0b0c0d, can_be_prefix=(shape == 'cbp'), lifetime=None if shape == 'nolife' else 4000)
        inter = bytes(make_interest(list(nN), ip, ap))
    hdr = sp['hdr']
    w = G.tlv(0x64, (G.tlv(0x62, b'\x01\x02\x03\x04') if 'token' in hdr else b'')
              + G.tlv(0x0320, reason_element(form))
              + (G.tlv(0x0340, b'\x01') if 'cmark' in hdr else b'')
              + G.tlv(0x50, inter))
    case['wire'] = w
    sent0 = len(app.face.sent)
    before = [e['task'].done() for e in entries]

    # -- the Nack arrives
    exc = None
    if sp['mode'] == 'await':
        async def go_await():
            try:
                await app._receive(0x64, w)
                return None
            except Exception as e:   # noqa
                return e
        exc = loop.run_until_complete(go_await())
        loop.settle()
    else:
        async def go_task():
            return loop.create_task(app._receive(0x64, w))
        rx = loop.run_until_complete(go_task())
        loop.settle()
        if not rx.done():
            ctx.violation(site, 'reception-does-not-return', 'the reception task is still running at quiescence', case)
            rx.cancel()
            loop.settle()
        elif not rx.cancelled():
            exc = rx.exception()
    if exc is not None:
        ctx.violation(site, f'raises:{exc_class(exc)}:_on_nack', f'_receive raised {type(exc).__name__} ({str(exc)[:80]}) on a Nack', case)
    # -- nobody's handler is invoked, nothing is transmitted
    called = {k: v for k, v in hits.items() if v}
    if called:
        k = sorted(called)[0]
        ctx.violation(site, 'handler-invoked-by-nack',
                      f'a Nack (reason {form!r}) for {sp["name"]} invoked the Interest handler attached at '
                      f'{"/" if not positions[k] else b"".join(positions[k]).hex()} ({k}); a Nack addresses no handler', case)
    if len(app.face.sent) != sent0:
        ctx.violation(site, 'nack-caused-transmission', f'{len(app.face.sent) - sent0} packet(s) sent in response to a Nack', case)
    # -- whoever waits for the nacked Interest gets the Nack, nobody else is touched
    want_reason = P.nack_reason_value(form)
    for e, b4 in zip(entries, before):
        t = e['task']
        if mine and e is mine[0]:
            ok = t.done() and not t.cancelled() and isinstance(t.exception(), InterestNack)
            if ok:
                r = t.exception().reason
                absent = isinstance(form, tuple) and form[0] == 'absent'
                ok = (r in (None, 0)) if absent else (r == want_reason)
            if not ok:
                got = 'pending' if not t.done() else ('cancelled' if t.cancelled() else repr(t.exception() or t.result()))
                ctx.violation(site, 'pending-interest-not-completed',
                              f'the Interest for {sp["name"]} that this Nack (reason {form!r}) returns ended as {got[:80]}', case)
        elif e['kind'] == 'U' and t.done() and not b4:
            ctx.violation(site, 'pending-interest-disturbed', 'an Interest under another name was completed by the Nack', case)
    # -- aftermath: a genuine Interest for the same name reaches exactly the longest attached prefix, once;
    #    whoever still waits completes with its own Data
    for k in hits:
        hits[k].clear()
    iw = bytes(make_interest(list(nN), InterestParam(nonce=99, lifetime=4000)))
    try:
        loop.run_until_complete(app._receive(5, iw))
        loop.settle()
    except Exception as e:   # noqa
        ctx.violation(site, f'aftermath-error:{exc_class(e)}', f'a genuine Interest after the Nack raised {e!r}', case)
    att = [k for k in hits if k in ('root', 'N') or k.startswith('p')]
    best = max(att, key=lambda k: len(positions[k])) if att else None
    for k in hits:
        if len(hits[k]) != (1 if k == best else 0):
            ctx.violation(site, 'handler-lost' if k == best else 'handler-disturbed',
                          f'after the Nack a genuine Interest for {sp["name"]} invoked the handler at {k} {len(hits[k])} time(s)', case)
    for e in entries:
        t = e['task']
        if t.done():
            continue
        nm = e['name']
        try:
            loop.run_until_complete(app._receive(6, bytes(make_data(list(nm), MetaInfo(), b'after'))))
            loop.settle()
        except Exception:   # noqa
            pass
        ok = False
        if t.done() and not t.cancelled() and t.exception() is None:
            r = t.result()
            content = r[1] if ver == 2 else r[2]
            ok = content is not None and bytes(content) == b'after'
        if not ok:
            ctx.violation(site, 'pending-interest-lost', f'entry {e["kind"]} does not complete with its Data afterwards', case)
    errs = loop.collect_errors()
    loop.errors.clear()
    if errs:
        e = errs[0].get('exception')
        ctx.violation(site, f'loop-error:{exc_class(e) if e is not None else "none"}',
                      f'loop exception handler called: {errs[0].get("message")} {e!r}', case)
    for e in entries:
        if not e['task'].done():
            e['task'].cancel()
    loop.settle()
    retrieve([e['task'] for e in entries])
    loop.errors.clear()
    fk = form[0] if isinstance(form, tuple) else ('zero' if form == 0 else 'value')
    ctx.case(('n', ver, repr(sorted(case['nackfam'].items()))), True, case,
             f'recv.v{ver}.nack-handlers.{fk}.{"waited" if mine else "unwaited"}')


def nack_handler_family(ctx, fronts, loop):
    """every reason form x every handler placement (single positions, all, the prefix chain) with the other dimensions
    (name depth, Interest shape, other headers, pending table, hand-over) rotated in the quick tier and enumerated /
    sampled more widely in the thorough tier"""
    from harness.props import _pipeline as P
    rng = ctx.rng
    i = 0
    for f in fronts:
        for name in NACK_NAMES:
            from ndn.encoding import Name
            pos = list(handler_positions([bytes(c) for c in Name.from_str(name)]))
            chain = [k for k in pos if k in ('root', 'N') or k.startswith('p')]
            tables = [[k] for k in pos] + [list(pos), chain, []]
            for _ in range(ctx.n(1, 6)):
                tables.append(rng.sample(pos, rng.randint(2, len(pos) - 1)))
            for form in P.NACK_FORMS:
                for tb in tables:
                    reps = ctx.n(1, 4)
                    for _ in range(reps):
                        i += 1
                        sp = {'name': name, 'form': form, 'handlers': tb,
                              'hdr': NACK_HDRS[i % 4] if reps == 1 else rng.choice(NACK_HDRS),
                              'shape': NACK_SHAPES[(i // 4) % 4] if reps == 1 else rng.choice(NACK_SHAPES),
                              'pending': NACK_PENDING[(i // 2) % 5] if reps == 1 else rng.choice(NACK_PENDING),
                              'mode': ('await', 'task')[(i // 3) % 2] if reps == 1 else rng.choice(('await', 'task'))}
                        nack_scenario(ctx, f, loop, sp)
                        if i % 400 == 1:
                            gc.collect()
                            gc.freeze()


# ---- awaited Data x validators that judge x TLV-level edits -------------------------------------------------------
# The other reception families let every pending Interest accept whatever arrives (a validator that always passes), so
# everything the application does AFTER the verdict -- in a task of its own in appv2, in the caller's coroutine in v1 --
# was only ever exercised on its "accepted" branch and on Data as the library's own encoder emits it.  Here the awaited
# Data is edited at the TLV level (every element of the packet and of MetaInfo / SignatureInfo deleted, duplicated,
# emptied, cut, extended, a byte changed, neighbours swapped, unknown elements inserted; all enclosing Lengths re-framed)
# and the Interests waiting for it carry validators that really judge: a DigestSha256 check (its verdict follows from the
# edit), every constant verdict, verdicts given after a delay, a validator that runs into its timeout.
JD_NAMES = ('/jd', '/jd/a', '/jd/a/b')
JD_VALIDATORS = {2: ('digest', 'PASS', 'ALLOW_BYPASS', 'FAIL', 'SILENCE', 'TIMEOUT', 'slow-digest', 'slow-FAIL', 'raise-timeout'),
                 1: ('digest', 'True', 'False', 'None', 'slow-digest', 'slow-False')}
JD_TABLES = ('W', 'WO', 'OW', 'WU', 'PW', 'WP')     # W waits for N; O waits for N with the opposite constant verdict;
#                                                       U another name; P parent of N with CanBePrefix
JD_SLOW = 0.05          # s, the delayed verdicts
EL_NAMES = {7: 'Name', 0x14: 'MetaInfo', 0x15: 'Content', 0x16: 'SignatureInfo', 0x17: 'SignatureValue'}


def jd_bases():
    """(label, name -> wire): Data packets as an honest producer emits them; every element present / absent / empty"""
    from ndn.encoding import make_data, MetaInfo
    from ndn.security import DigestSha256Signer
    metas = {'nometa': lambda: None, 'meta0': MetaInfo,
             'meta3': lambda: MetaInfo(content_type=0, freshness_period=1000, final_block_id=b'\x08\x01z')}
    contents = {'nocontent': None, 'content0': b'', 'content7': b'content', 'content300': bytes(range(256)) + bytes(44)}
    out = []
    for sk in ('digest', 'unsigned'):
        for mk, mf in metas.items():
            for ck, cv in contents.items():
                def mk_wire(nm, mf=mf, cv=cv, sk=sk):
                    return bytes(make_data(list(nm), mf(), cv, signer=DigestSha256Signer() if sk == 'digest' else None))
                out.append((f'{sk}.{mk}.{ck}', mk_wire))
    return out


# the bases of the quick tier: every value of every dimension, absent Content / MetaInfo with and without a signature
JD_QUICK_BASES = ('digest.meta0.content7', 'digest.nometa.nocontent', 'digest.meta3.content0', 'unsigned.meta0.content7',
                  'unsigned.meta3.nocontent', 'digest.meta0.content300', 'digest.meta3.nocontent')


def jd_tree(value):
    return [[t, v] for t, v in TG.tlv_walk(value)]


def jd_ser(tree):
    return b''.join(G.tlv(t, v) for t, v in tree)


def jd_edits(wire):
    """every single TLV-level edit of a Data wire: (op, path, arg); path = indices (top level, or child of a nested element)"""
    _, a = TG.read_num(wire, 0)
    _, b = TG.read_num(wire, a)
    top = jd_tree(wire[a + b:])
    levels = [((), top)]
    for i, (t, v) in enumerate(top):
        if t in (0x14, 0x16):
            sub = TG.tlv_walk(v)
            if sub is not None:
                levels.append(((i,), [[t2, v2] for t2, v2 in sub]))
    out = [('none', (), None)]
    for path, els in levels:
        for i, (t, v) in enumerate(els):
            out += [('del', path + (i,), None), ('dup', path + (i,), None), ('empty', path + (i,), None),
                    ('ext', path + (i,), None)]
            if v:
                out += [('cut', path + (i,), None), ('flip', path + (i,), None)]
            if i + 1 < len(els):
                out.append(('swap', path + (i,), None))
        for i in range(len(els) + 1):
            out.append(('ins', path + (i,), 0xF0))        # unknown, may be ignored
            if not path:
                out.append(('ins', path + (i,), 0xF1))    # unknown, critical
    return out


def jd_apply(wire, edit):
    """the edited wire (enclosing Lengths re-framed) and a readable label of the edit"""
    op, path, arg = edit
    t0, a = TG.read_num(wire, 0)
    _, b = TG.read_num(wire, a)
    top = jd_tree(wire[a + b:])
    if op == 'none':
        return wire, 'none'
    if len(path) == 2:
        els = jd_tree(top[path[0]][1])
        where = EL_NAMES.get(top[path[0]][0], '?') + '/'
    else:
        els = top
        where = ''
    i = path[-1]
    label = f'{op}:{where}{EL_NAMES.get(els[i][0], hex(els[i][0])) if i < len(els) else "end"}'
    if op == 'del':
        del els[i]
    elif op == 'dup':
        els.insert(i, list(els[i]))
    elif op == 'empty':
        els[i][1] = b''
    elif op == 'ext':
        els[i][1] = els[i][1] + b'\x00'
    elif op == 'cut':
        els[i][1] = els[i][1][:-1]
    elif op == 'flip':
        els[i][1] = els[i][1][:-1] + bytes([els[i][1][-1] ^ 1])
    elif op == 'swap':
        els[i], els[i + 1] = els[i + 1], els[i]
    elif op == 'ins':
        els.insert(i, [arg, b'\x01\x02'])
        label += f':{arg:#x}'
    if len(path) == 2:
        top[path[0]][1] = jd_ser(els)
    return G.tlv(t0, jd_ser(top)), label


def ref_data(d):
    """Independent strict reading (harness TLV walker, no library code) of a bare Data wire: {'content': value of the
    Content element or None, 'digest_ok': carries a DigestSha256 signature that matches the bytes it covers}; None when
    d is not one TLV of Type 6 whose Value is a sequence of TLVs"""
    import hashlib
    try:
        t, a = TG.read_num(d, 0)
        ln, b = TG.read_num(d, a)
        if t != 6 or a + b + ln != len(d):
            return None
        off, els = a + b, []
        while off < len(d):
            t1, a1 = TG.read_num(d, off)
            l1, b1 = TG.read_num(d, off + a1)
            if off + a1 + b1 + l1 > len(d):
                return None
            els.append((t1, off, off + a1 + b1, off + a1 + b1 + l1))
            off += a1 + b1 + l1
    except Exception:   # noqa
        return None
    content = [d[s:e] for t1, _, s, e in els if t1 == 0x15]
    info = [d[s:e] for t1, _, s, e in els if t1 == 0x16]
    sval = [(o, d[s:e]) for t1, o, s, e in els if t1 == 0x17]
    ok = False
    if len(info) == 1 and len(sval) == 1:
        styp = [v for t2, v in (TG.tlv_walk(info[0]) or []) if t2 == 0x1b]
        if len(styp) == 1 and len(styp[0]) >= 1 and int.from_bytes(styp[0], 'big') == 0:
            ok = hashlib.sha256(d[a + b:sval[0][0]]).digest() == sval[0][1]
    return {'content': content[0] if content else None, 'digest_ok': ok}


def judged_scenario(ctx, front, loop, M, sp):
    """sp: {'name', 'base', 'edit': [op, path, arg], 'validator', 'table', 'lp', 'mode'}"""
    from ndn.encoding import make_data, MetaInfo, Name
    from ndn.security import DigestSha256Signer
    from ndn.types import ValidationFailure
    ver = front.ver
    site = f'appv{ver}._receive'
    app = front.new_app()
    VR = getattr(front.mod, 'ValidResult', None)
    nN = [bytes(c) for c in Name.from_str(sp['name'])]
    nU = [bytes(c) for c in Name.from_str('/jd-unrelated/u')]
    nP = nN[:-1]
    base = dict(jd_bases())[sp['base']](nN)
    edit = (sp['edit'][0], tuple(sp['edit'][1]), sp['edit'][2])
    try:
        data, label = jd_apply(base, edit)
    except (IndexError, TypeError):
        return          # a stored edit that does not apply to this base (replay of a foreign case)
    w = G.tlv(0x64, G.tlv(0x62, b'\x0a\x0b') + G.tlv(0x50, data)) if sp['lp'] else data
    typ = 0x64 if sp['lp'] else 6
    case = {'front': ver, 'judged': dict(sp, edit=[edit[0], list(edit[1]), edit[2]]), 'edit': label, 'typ': typ, 'wire': w}
    cur = {'data': data}        # the bare Data the application is currently processing (what the digest check judges)
    calls = []
    loop.errors.clear()

    def verdict_of(kind):
        """(verdict the validator gives, does the Interest then end with the Data?)"""
        k = kind[5:] if kind.startswith('slow-') else kind
        if k == 'digest':
            r = ref_data(cur['data'])
            ok = bool(r and r['digest_ok'])
            return ((VR.PASS if ok else VR.FAIL) if ver == 2 else ok), ok
        if k == 'raise-timeout':
            return VR.TIMEOUT, False
        if ver == 2:
            return getattr(VR, k), k in ('PASS', 'ALLOW_BYPASS')
        v = {'True': True, 'False': False, 'None': None}[k]
        return v, bool(v)

    def validator_for(idx, kind):
        async def body():
            v, _ = verdict_of(kind)
            calls.append((idx, kind, repr(v)))
            if kind.startswith('slow-'):
                await asyncio.sleep(JD_SLOW)
            if kind == 'raise-timeout':
                raise TimeoutError()
            return v
        if ver == 2:
            async def val(name, sig, context):
                return await body()
        else:
            async def val(name, sig):
                return await body()
        return val
    vk = sp['validator']
    opposite = {2: {True: 'FAIL', False: 'PASS'}, 1: {True: 'False', False: 'True'}}[ver]
    entries = []

    def express(kind, nm, vkind, cbp):
        async def go():
            val = validator_for(len(entries), vkind)
            if ver == 2:
                co = app.express(list(nm), val, lifetime=60000, can_be_prefix=cbp, nonce=len(entries) + 1)
            else:
                co = app.express_interest(list(nm), validator=val, lifetime=60000, can_be_prefix=cbp, nonce=len(entries) + 1)
            return loop.create_task(co)
        t = loop.run_until_complete(go())
        loop.settle()
        entries.append({'kind': kind, 'name': list(nm), 'task': t, 'cbp': cbp, 'validator': vkind})

    def finish():
        for e in entries:
            if not e['task'].done():
                e['task'].cancel()
        loop.settle()
        retrieve([e['task'] for e in entries])
        loop.collect_errors()
        loop.errors.clear()
    try:
        for k in sp['table']:
            if k == 'W':
                express(k, nN, vk, False)
            elif k == 'O':
                express(k, nN, opposite[verdict_of(vk)[1]], False)
            elif k == 'U':
                express(k, nU, vk, False)
            elif k == 'P' and nP:
                express(k, nP, vk, True)
    except Exception as e:   # noqa
        ctx.violation(site, f'history-raises:{exc_class(e)}', f'expressing the pending Interests raised {e!r}', case)
        finish()
        return
    # whom the packet addresses: the model's classification of the delivered bytes (the implementation's without a model)
    action = classify_action(M, front, loop, typ, w, 'judged')
    pkt_name = [bytes(c) for c in action[1]] if action[0] == 4 else None
    ref = ref_data(bytes(action[2])) if action[0] == 4 else None
    if action[0] == 4 and ref is None:
        ctx.disagree(site, 'a packet classified as Data is not one well-framed Data TLV (harness walker)', case, action, None)
        finish()
        return

    def outcome(t):
        if not t.done():
            return ('pending',)
        if t.cancelled():
            return ('CancelledError',)
        e = t.exception()
        if e is None:
            r = t.result()
            content = r[1] if ver == 2 else r[2]
            return ('data', [bytes(c) for c in r[0]], None if content is None else bytes(content))
        if isinstance(e, ValidationFailure):
            return ('ValidationFailure', [bytes(c) for c in e.name], None if e.content is None else bytes(e.content),
                    repr(getattr(e, 'result', None)) if ver == 2 else None)
        return (exc_class(e),)

    def judge(e, name, content, what):
        """the entry was handed a Data (name, content); its validator gave its verdict: the Interest ends accordingly, at once"""
        v, passes = verdict_of(e['validator'])
        want = ('data', name, content) if passes else ('ValidationFailure', name, content, repr(v) if ver == 2 else None)
        o = outcome(e['task'])
        if o == want:
            return
        if o == ('pending',):
            cls = 'pending-interest-not-completed'
        elif o[0] == want[0]:
            cls = 'pending-interest-wrong-outcome:fields'
        else:
            cls = 'pending-interest-wrong-outcome:verdict-' + ('pass' if passes else 'fail')
        ctx.violation(site, cls, f'entry {e["kind"]} (validator {e["validator"]}, verdict {v!r}) {what} [{label}]: expected '
                                 f'{want[0]} name={b"".join(want[1]).hex()} content={want[2]!r:.40}, it is {o!r:.120}', case)

    # -- the packet
    before = [e['task'].done() for e in entries]
    exc, rx = None, None
    if sp['mode'] == 'await':
        async def go_await():
            try:
                await app._receive(typ, w)
                return None
            except Exception as e:   # noqa
                return e
        exc = loop.run_until_complete(go_await())
    else:
        async def go_task():
            return loop.create_task(app._receive(typ, w))
        rx = loop.run_until_complete(go_task())
    loop.settle()
    if rx is not None:
        if not rx.done():
            ctx.violation(site, 'reception-does-not-return', 'the reception task is still running at quiescence', case)
            rx.cancel()
            loop.settle()
        elif not rx.cancelled():
            exc = rx.exception()
    where = {0: 'decode', 1: 'decode', 2: '_on_nack', 3: '_on_interest', 4: '_on_data'}[action[0]]
    if exc is not None:
        ctx.violation(site, f'raises:{exc_class(exc)}:{where}', f'_receive raised {type(exc).__name__} ({str(exc)[:80]}) [{label}]', case)
    if any(e['validator'].startswith('slow-') for e in entries):
        loop.advance_to(loop.time() + 2 * JD_SLOW)
    for e, b4 in zip(entries, before):
        pn = e['name']
        addressed = pkt_name is not None and (pn == pkt_name or (e['cbp'] and len(pn) <= len(pkt_name) and pkt_name[:len(pn)] == pn))
        if addressed:
            judge(e, pkt_name, ref['content'], 'is addressed by the packet')
        elif e['task'].done() and not b4:
            ctx.violation(site, 'pending-interest-disturbed',
                          f'entry {e["kind"]} ({b"".join(pn).hex()}) is not addressed by the packet [{label}] and ended with {outcome(e["task"])!r:.100}', case)
    # -- aftermath: whoever is still waiting gets its own (honest) Data and ends as its validator says
    for e in entries:
        if e['task'].done():
            continue
        d = bytes(make_data(list(e['name']), MetaInfo(), b'after', signer=DigestSha256Signer()))
        cur['data'] = d
        try:
            loop.run_until_complete(app._receive(6, d))
            loop.settle()
            if e['validator'].startswith('slow-'):
                loop.advance_to(loop.time() + 2 * JD_SLOW)
        except Exception as e2:   # noqa
            ctx.violation(site, f'aftermath-error:{exc_class(e2)}', f'reception of an honest Data afterwards raised {e2!r}', case)
        if outcome(e['task']) == ('pending',):
            ctx.violation(site, 'pending-interest-lost', f'entry {e["kind"]} ({b"".join(e["name"]).hex()}) does not complete with its Data afterwards', case)
        else:
            judge(e, e['name'], b'after', 'got its own Data afterwards')
    errs = loop.collect_errors()
    loop.errors.clear()
    if errs:
        e = errs[0].get('exception')
        ctx.violation(site, f'loop-error:{exc_class(e) if e is not None else "none"}',
                      f'a background task ended with an unhandled error [{label}]: {errs[0].get("message")} {e!r}', case)
    finish()
    ctx.case(('j', ver, repr(sorted(case['judged'].items()))), True, case if edit[0] in ('none', 'del') else None,
             f'recv.v{ver}.judged.{edit[0]}.{vk}.{["drop", "raise", "nack", "interest", "data"][action[0]]}')


def judged_family(ctx, fronts, loop, M):
    """every edit x every validator on every base (quick: the bases of JD_QUICK_BASES); name depth, table shape, LpPacket
    envelope and hand-over rotate (thorough: sampled twice more)"""
    rng = ctx.rng
    bases = jd_bases()
    if not ctx.thorough:
        bases = [b for b in bases if b[0] in JD_QUICK_BASES]
    i = 0
    for f in fronts:
        for bk, mk_wire in bases:
            edits = jd_edits(mk_wire([b'\x08\x01x']))
            for edit in edits:
                for vk in JD_VALIDATORS[f.ver]:
                    for rep in range(ctx.n(1, 3)):
                        i += 1
                        sp = {'name': JD_NAMES[i % 3] if rep == 0 else rng.choice(JD_NAMES), 'base': bk,
                              'edit': [edit[0], list(edit[1]), edit[2]], 'validator': vk,
                              'table': JD_TABLES[(i // 3) % len(JD_TABLES)] if rep == 0 else rng.choice(JD_TABLES),
                              'lp': (i // 2) % 3 == 0 if rep == 0 else rng.random() < 0.3,
                              'mode': ('task', 'await')[(i // 5) % 2] if rep == 0 else rng.choice(('task', 'await'))}
                        judged_scenario(ctx, f, loop, M, sp)
                        if i % 400 == 1:
                            gc.collect()
                            gc.freeze()


# ---- names with structurally valid but semantically odd components x handlers / pending Interests ------------------
# The mutant stream seldom produces, and the tables above never hold, a WELL-FORMED packet whose Name carries components
# that are legal TLV but odd in meaning: digest components (ImplicitSha256 / ParametersSha256) whose value is not 32
# octets, several of them, typed components (segment, version, ...) with values of no integer width, empty and
# unprintable values, unassigned / three-byte / out-of-range component types, non-shortest Type/Length forms.  And a
# parameterised or signed Interest (its name holds a ParametersSha256DigestComponent, which no handler prefix of the
# other families can contain) never met an attached handler at all: everything the front-ends do with an incoming
# Interest between the route lookup and the handler -- the parameter-digest check, the validator, the hand-over task --
# was only exercised on plain Interests.  Here every such name form is built by the harness's own encoder into honest
# Interests (plain / with ApplicationParameters / DigestSha256-signed, the digest component correct, absent, wrong,
# truncated, extended, doubled) addressed to handlers attached above it, and into Data / Nacks addressed to Interests the
# application is waiting for.
ON_PREFIXES = ('/on', '/on/svc')
ON_DIGEST_LENS = (0, 1, 2, 31, 32, 33, 64)
ON_BASES = ('plain', 'ap0', 'ap2', 'ap300', 'signed', 'signed-ap2', 'signed-bad', 'siginfo-only')
ON_VALIDATORS = {2: ('PASS', 'digest', 'FAIL', 'ALLOW_BYPASS', 'none', 'SILENCE', 'TIMEOUT'), 1: ('True', 'digest', 'False', 'None')}
ON_PLACEMENTS = (('P',), ('root',), ('root', 'P'), ('P', 'deep'), ('parent', 'P', 'sibling', 'other'), ('deep',), ('sibling', 'other'), ())
ON_ENVELOPES = ('bare', 'lp-token', 'lp-cmark-token', 'lp')
ON_PD_FORMS = ('absent', 'wrong32', 'zero32') + tuple('len%d' % n for n in ON_DIGEST_LENS if n != 32)


def on_odd_components():
    """label -> component wire: legal TLV, odd in meaning"""
    out = {}
    for t, tn in ((1, 'implicit'), (2, 'params')):
        for n in ON_DIGEST_LENS:
            out[f'{tn}-digest.len{n}'] = G.tlv(t, bytes((7 * i + n + t) & 0xFF for i in range(n)))
    for t, tn in ((0x32, 'seg'), (0x34, 'off'), (0x36, 'v'), (0x38, 't'), (0x3A, 'seq')):
        for n in (0, 1, 2, 3, 4, 5, 7, 8, 9, 16):
            out[f'{tn}.len{n}'] = G.tlv(t, bytes((0x80 + 3 * i + n) & 0xFF for i in range(n)))
    out['keyword.empty'] = G.tlv(0x20, b'')
    out['keyword.text'] = G.tlv(0x20, b'kw')
    out['generic.empty'] = G.tlv(8, b'')
    for k, v in (('nul', b'\x00'), ('high', b'\xff\xfe\x80'), ('percent', b'%'), ('equals', b'a=b'), ('slash', b'a/b'),
                 ('dot', b'.'), ('dots', b'...'), ('space', b' '), ('digesturi', b'sha256digest=00'), ('utf8', 'é€'.encode())):
        out['generic.' + k] = G.tlv(8, v)
    out['generic.len252'] = G.tlv(8, bytes(252))
    out['generic.len253'] = G.tlv(8, bytes(range(253)))
    out['generic.len300'] = G.tlv(8, bytes(300))
    for t in (0, 3, 7, 0x24, 0x2c, 252, 253, 0x320, 65535, 65536, 0xFFFFFFFF, 1 << 32):
        out[f'type{t:#x}'] = G.tlv(t, b'ab')
        out[f'type{t:#x}.empty'] = G.tlv(t, b'')
    out['nonshortest.type'] = b'\xfd\x00\x08\x01a'
    out['nonshortest.length'] = b'\x08\xfd\x00\x01a'
    out['nonshortest.digest-type'] = b'\xfd\x00\x02\x02ab'
    return out


def on_layouts(ctx):
    """name layouts: lists of tokens 'P' (the prefix), 'x' (a plain component), ('odd', label), ('pd', form) -- a
    ParametersSha256DigestComponent derived from the digest the packet's parameters really have: 'correct', 'wrong32' (last bit
    flipped), 'zero32', 'lenN' (the correct digest cut / repeated to N octets); ('pd', 'correct') is left out of plain Interests"""
    odd = on_odd_components()
    out = []
    for lb in odd:
        out.append(['P', ('odd', lb), ('pd', 'correct')])
        out.append(['P', ('pd', 'correct'), ('odd', lb)])
    for f in ON_PD_FORMS:
        out.append(['P', 'x'] + ([] if f == 'absent' else [('pd', f)]))
    out.append(['P', ('pd', 'correct')])
    out.append(['P', 'x', ('pd', 'correct'), 'x'])
    out.append([('pd', 'correct'), 'P'])
    for f in ('len0', 'len2', 'len31', 'len33', 'wrong32', 'correct'):
        out.append(['P', ('pd', f), ('pd', 'correct')])
        out.append(['P', ('pd', 'correct'), ('pd', f)])
    out.append(['P', ('odd', 'implicit-digest.len31'), ('odd', 'implicit-digest.len0'), ('pd', 'correct')])
    out.append(['P', ('odd', 'implicit-digest.len32'), ('pd', 'correct'), ('odd', 'implicit-digest.len33')])
    out.append(['P', ('odd', 'params-digest.len2'), ('odd', 'implicit-digest.len2'), ('odd', 'seg.len3'), ('pd', 'correct')])
    out.append(['P', ('odd', 'params-digest.len0'), ('odd', 'params-digest.len1'), ('odd', 'params-digest.len64')])
    for _ in range(ctx.n(20, 300)):          # sampled mixtures
        k = ctx.rng.randint(2, 5)
        lay = ['P'] + [('odd', ctx.rng.choice(sorted(odd))) for _ in range(k)]
        lay.insert(ctx.rng.randint(1, len(lay)), ('pd', ctx.rng.choice(('correct', 'correct', 'correct') + ON_PD_FORMS[1:])))
        out.append(lay)
    return out


def on_build_interest(prefix, layout, base, nonce=0x01020304, cbp=False, mbf=False, lifetime=4000):
    """the harness's own encoder (no library code): an Interest as an honest consumer emits it, except for what the layout
    says about its name.  Returns (wire, name components, facts) with facts = {'ap': ApplicationParameters value or None,
    'siginfo': bool, 'sig_ok': the DigestSha256 signature covers what it has to, 'digest': SHA-256 of the parameters}"""
    import hashlib
    odd = on_odd_components()
    ap = {'plain': None, 'ap0': b'', 'ap2': b'hi', 'ap300': bytes(range(256)) + bytes(44), 'signed': b'', 'signed-ap2': b'hi',
          'signed-bad': b'', 'siginfo-only': None}[base]
    signed = base in ('signed', 'signed-ap2', 'signed-bad', 'siginfo-only')
    siginfo = b''
    if signed:
        siginfo = G.tlv(0x2c, G.tlv(0x1b, b'\x00') + (G.tlv(0x26, bytes(8)) + G.tlv(0x28, b'\x01\x02') if base == 'signed-ap2' else b''))
    plain_comps = []
    for tok in layout:
        if tok == 'P':
            plain_comps += prefix
        elif tok == 'x':
            plain_comps.append(G.tlv(8, b'x'))
        elif tok[0] == 'odd' and on_comp_type(odd[tok[1]]) != 2:
            plain_comps.append(odd[tok[1]])
    ap_el = G.tlv(0x24, ap) if ap is not None else b''
    sigval = b''
    if signed:
        dg = hashlib.sha256(b''.join(plain_comps) + ap_el + siginfo).digest()
        if base == 'signed-bad':
            dg = dg[:-1] + bytes([dg[-1] ^ 1])
        sigval = G.tlv(0x2e, dg)
    params = ap_el + siginfo + sigval
    digest = hashlib.sha256(params).digest()
    comps = []
    for tok in layout:
        if tok == 'P':
            comps += prefix
        elif tok == 'x':
            comps.append(G.tlv(8, b'x'))
        elif tok[0] == 'odd':
            comps.append(odd[tok[1]])
        else:
            f = tok[1]
            if f == 'correct':
                if base == 'plain':
                    continue
                v = digest
            elif f == 'wrong32':
                v = digest[:-1] + bytes([digest[-1] ^ 1])
            elif f == 'zero32':
                v = bytes(32)
            else:
                v = (digest * 2)[:int(f[3:])]
            comps.append(G.tlv(2, v))
    body = G.tlv(7, b''.join(comps)) + (G.tlv(0x21, b'') if cbp else b'') + (G.tlv(0x12, b'') if mbf else b'') \
        + G.tlv(0x0a, nonce.to_bytes(4, 'big')) + (G.tlv(0x0c, lifetime.to_bytes(2, 'big')) if lifetime else b'') + params
    return G.tlv(5, body), comps, {'ap': ap, 'siginfo': signed, 'sig_ok': signed and base != 'signed-bad', 'digest': digest}


def on_comp_type(c):
    try:
        return TG.read_num(c, 0)[0]
    except Exception:   # noqa
        return None


def on_envelope(env, inner):
    if env == 'bare':
        return inner[0], inner
    hdr = (G.tlv(0x62, b'\x0a\x0b\x0c\x0d') if 'token' in env else b'') + (G.tlv(0x0340, b'\x01') if 'cmark' in env else b'')
    return 0x64, G.tlv(0x64, hdr + G.tlv(0x50, inner))


class debug_logging:
    """reception must not depend on the log level: run with every library logger at DEBUG (records are rendered and discarded)"""

    class Sink(logging.Handler):
        def emit(self, record):
            try:
                record.getMessage()
            except Exception:   # noqa -- what the standard handlers do with a record that cannot be rendered
                pass

    def __init__(self, on):
        self.on = on

    def __enter__(self):
        if self.on:
            self.lg = logging.getLogger('ndn')
            self.sink = self.Sink()
            self.old = (self.lg.level, self.lg.propagate)
            self.lg.addHandler(self.sink)
            self.lg.setLevel(logging.DEBUG)
            self.lg.propagate = False
            logging.disable(logging.NOTSET)

    def __exit__(self, *a):
        if self.on:
            logging.disable(logging.CRITICAL)
            self.lg.removeHandler(self.sink)
            self.lg.setLevel(self.old[0])
            self.lg.propagate = self.old[1]
        return False


def on_usable_prefix(c):
    """a component the harness may put into a prefix it registers / a name it expresses (the encoder refuses Type 0 and Types
    beyond 65535; non-shortest forms are not what an application writes)"""
    try:
        t, a = TG.read_num(c, 0)
        ln, b = TG.read_num(c, a)
    except Exception:   # noqa
        return False
    return 0 < t <= 65535 and G.tlv(t, c[a + b:]) == c and a + b + ln == len(c)


def oddname_interest_scenario(ctx, front, loop, M, sp):
    """sp: {'prefix', 'layout', 'base', 'validator', 'handlers': placement names, 'env', 'mode', 'log', 'cbp', 'pending'}"""
    from ndn.encoding import make_data, MetaInfo, Name
    ver = front.ver
    site = f'appv{ver}._receive'
    VR = getattr(front.mod, 'ValidResult', None)
    prefix = [bytes(c) for c in Name.from_str(sp['prefix'])]
    layout = [t if isinstance(t, str) else tuple(t) for t in sp['layout']]
    try:
        inner, comps, facts = on_build_interest(prefix, layout, sp['base'], cbp=sp['cbp'], mbf=sp['cbp'])
    except (KeyError, ValueError, IndexError):
        return              # a stored case of another harness version
    typ, w = on_envelope(sp['env'], inner)
    case = {'front': ver, 'oddname': dict(sp, layout=[t if isinstance(t, str) else list(t) for t in layout]), 'typ': typ, 'wire': w,
            'name': b''.join(comps)}
    app = front.new_app()
    loop.errors.clear()
    # -- whom the packet addresses: the model's classification of the delivered bytes (the implementation's without a model)
    action = classify_action(M, front, loop, typ, w, 'oddname')
    pkt_name = [bytes(c) for c in action[1]] if action[0] == 3 else None
    if action[0] == 3 and pkt_name != comps:
        ctx.disagree(site, 'the name the model reads from an Interest the harness built is not the name it was built with', case,
                     action, comps)
        return
    sig_required = facts['ap'] is not None or facts['siginfo']
    pds = [c for c in comps if on_comp_type(c) == 2]
    good = [c for c in pds if c == G.tlv(2, facts['digest'])]
    # -- the producer's tables
    first_tail = [c for c in comps[len(prefix):len(prefix) + 1] if comps[:len(prefix)] == prefix and on_usable_prefix(c)]
    positions = {'root': [], 'P': list(prefix), 'parent': prefix[:-1] if len(prefix) > 1 else None,
                 'deep': prefix + first_tail if first_tail else None,
                 'sibling': prefix[:-1] + [G.tlv(8, b'sib')], 'other': [G.tlv(8, b'elsewhere')]}
    vk = sp['validator']
    consulted = []
    cur = {'facts': facts}          # of the Interest being processed (what the signature check judges)

    def verdict():
        if vk == 'digest':
            ok = cur['facts']['sig_ok'] or not cur['facts']['siginfo']
            return ((VR.PASS if ok else VR.FAIL) if ver == 2 else ok), ok
        if ver == 2:
            return getattr(VR, vk), vk in ('PASS', 'ALLOW_BYPASS')
        v = {'True': True, 'False': False, 'None': None}[vk]
        return v, bool(v)
    if ver == 2:
        async def val(name, sig, context):
            consulted.append([bytes(c) for c in name])
            return verdict()[0]
    else:
        async def val(name, sig):
            consulted.append([bytes(c) for c in name])
            return verdict()[0]
    hits = {}
    try:
        for pos in sp['handlers']:
            if positions.get(pos) is None or pos in hits or any(positions[pos] == positions[q] for q in hits):
                continue
            hits[pos] = []
            if ver == 2:
                def h(name, app_param, reply, context, pos=pos):
                    hits[pos].append(([bytes(c) for c in name], None if app_param is None else bytes(app_param)))
                app.attach_handler(list(positions[pos]), h, None if vk == 'none' else val)
            else:
                def h(name, param, app_param, pos=pos):
                    hits[pos].append(([bytes(c) for c in name], None if app_param is None else bytes(app_param)))
                app.set_interest_filter(list(positions[pos]), h, val)
    except Exception as e:   # noqa
        ctx.violation(site, f'history-raises:{exc_class(e)}', f'attaching the handlers raised {e!r}', case)
        return
    # the decision the front-ends document: v2 consults the validator for every Interest with parameters or a signature (no
    # validator: refused); v1 consults it for signed Interests only
    if ver == 2:
        passes = (not sig_required) or (vk != 'none' and verdict()[1])
    else:
        passes = (not facts['siginfo']) or verdict()[1]
    att = [k for k in hits if pkt_name is not None and positions[k] == pkt_name[:len(positions[k])]]
    best = max(att, key=lambda k: len(positions[k])) if att else None
    if pkt_name is None:
        demand = 'drop'                     # not an Interest the decoder accepts
    elif not sig_required:
        demand = 'deliver' if not pds else 'either'         # (a digest component without parameters: C02 / C07 own its meaning)
    elif facts['ap'] is None:
        demand = 'drop' if not any(len(c) == 34 for c in pds) else 'either'
    elif not good:
        demand = 'drop'                     # no component holds the digest of the parameters
    elif len(pds) == 1:
        demand = 'deliver' if passes else 'drop'
    else:
        demand = 'either' if passes else 'drop'             # several digest components, one of them right (C02 owns which counts)
    # -- somebody else is waiting for something else
    pend = []
    if sp['pending']:
        async def ok2(name, sig, context):
            return VR.PASS

        async def ok1(name, sig):
            return True

        async def go_express():
            nU = [G.tlv(8, b'on-unrelated'), G.tlv(8, b'u')]
            co = app.express(nU, ok2, lifetime=60000, nonce=5) if ver == 2 else \
                app.express_interest(nU, validator=ok1, lifetime=60000, nonce=5)
            return nU, loop.create_task(co)
        try:
            pend.append(loop.run_until_complete(go_express()))
            loop.settle()
        except Exception as e:   # noqa
            ctx.violation(site, f'history-raises:{exc_class(e)}', f'expressing an Interest raised {e!r}', case)
            return
    sent0 = len(app.face.sent)

    def finish():
        for _, t in pend:
            if not t.done():
                t.cancel()
        loop.settle()
        retrieve([t for _, t in pend])
        loop.collect_errors()
        loop.errors.clear()

    # -- the packet
    def deliver(typ_, w_, mode):
        """-> exception out of reception (or None)"""
        exc = None
        if mode == 'await':
            async def go_await():
                try:
                    await app._receive(typ_, w_)
                    return None
                except Exception as e:   # noqa
                    return e
            exc = loop.run_until_complete(go_await())
            loop.settle()
        else:
            async def go_task():
                return loop.create_task(app._receive(typ_, w_))
            rx = loop.run_until_complete(go_task())
            loop.settle()
            if not rx.done():
                ctx.violation(site, 'reception-does-not-return', 'the reception task is still running at quiescence', case)
                rx.cancel()
                loop.settle()
            elif not rx.cancelled():
                exc = rx.exception()
        return exc
    where = {0: 'decode', 1: 'decode', 2: '_on_nack', 3: '_on_interest', 4: '_on_data'}[action[0]] + ('+debug-log' if sp['log'] else '')
    what = f'{sp["base"]} Interest, name {"/".join(t if isinstance(t, str) else t[0] + ":" + t[1] for t in layout)}'
    with debug_logging(sp['log']):
        exc = deliver(typ, w, sp['mode'])
        if exc is not None:
            ctx.violation(site, f'raises:{exc_class(exc)}:{where}',
                          f'_receive raised {type(exc).__name__} ({str(exc)[:80]}) on a well-formed {what}', case)
        errs = loop.collect_errors()
        loop.errors.clear()
        if errs:
            e = errs[0].get('exception')
            ctx.violation(site, f'loop-error:{exc_class(e) if e is not None else "none"}',
                          f'a background task ended with an unhandled error ({what}): {errs[0].get("message")} {e!r}', case)
        # -- dropped or handled: by the longest attached prefix, once, with what the packet says; nobody else
        for k in hits:
            n = len(hits[k])
            if k != best:
                if n:
                    ctx.violation(site, 'handler-disturbed', f'the handler at {k} was invoked by an Interest it does not serve ({what})', case)
                continue
            if n > 1:
                ctx.violation(site, 'handler-invoked-twice', f'the handler at {k} was invoked {n} times by one Interest ({what})', case)
            elif n == 1 and hits[k][0] != (pkt_name, facts['ap']):
                ctx.violation(site, 'handler-wrong-arguments', f'the handler at {k} got another name / ApplicationParameters than the packet carries ({what})', case)
            if n == 0 and demand == 'deliver':
                ctx.violation(site, 'interest-not-delivered',
                              f'a well-formed {what} (digest component right, validator {vk}) did not reach the handler at {k}', case)
            if n and demand == 'drop':
                ctx.violation(site, 'malformed-interest-delivered',
                              f'{what} (validator {vk}) has to be dropped but reached the handler at {k}', case)
        if len(app.face.sent) != sent0:
            ctx.violation(site, 'interest-caused-transmission', 'something was transmitted although no handler replies', case)
        for nm, t in pend:
            if t.done():
                ctx.violation(site, 'pending-interest-disturbed', 'an Interest the application waits for was completed by an incoming Interest', case)
        # -- aftermath: honest Interests under the same prefix still reach exactly the longest attached prefix
        for k in hits:
            hits[k].clear()
        for ab in ('plain', 'ap2'):
            aw, acomps, cur['facts'] = on_build_interest(prefix, ['P', 'x', ('pd', 'correct')], ab, nonce=99)
            att2 = [k for k in hits if positions[k] == acomps[:len(positions[k])]]
            best2 = max(att2, key=lambda k: len(positions[k])) if att2 else None
            exc = deliver(5, aw, 'await')
            if exc is not None:
                ctx.violation(site, f'aftermath-error:{exc_class(exc)}', f'an honest {ab} Interest afterwards raised {exc!r}', case)
            want = 1 if (ab == 'plain' or ver == 1 or (vk != 'none' and verdict()[1])) else 0
            for k in hits:
                if len(hits[k]) != (want if k == best2 else 0):
                    ctx.violation(site, 'handler-lost' if k == best2 else 'handler-disturbed',
                                  f'afterwards an honest {ab} Interest under {sp["prefix"]} invoked the handler at {k} {len(hits[k])} time(s)', case)
                hits[k].clear()
        for nm, t in pend:
            if t.done():
                continue
            exc = deliver(6, bytes(make_data(list(nm), MetaInfo(), b'after')), 'await')
            ok = exc is None and t.done() and not t.cancelled() and t.exception() is None
            if ok:
                r = t.result()
                content = r[1] if ver == 2 else r[2]
                ok = content is not None and bytes(content) == b'after'
            if not ok:
                ctx.violation(site, 'pending-interest-lost', 'the Interest the application waits for does not complete with its Data afterwards', case)
        errs = loop.collect_errors()
        loop.errors.clear()
        if errs:
            e = errs[0].get('exception')
            ctx.violation(site, f'aftermath-error:{exc_class(e) if e is not None else "none"}',
                          f'loop exception handler called afterwards: {errs[0].get("message")} {e!r}', case)
    finish()
    ctx.stat(f'oddname.interest.v{ver}.{demand}')
    kind = layout[1][1].split('.')[0] if len(layout) > 1 and not isinstance(layout[1], str) else 'x'
    ctx.case(('on', ver, repr(sorted(case['oddname'].items()))), True, case if len(w) < 120 else None,
             f'recv.v{ver}.oddname.interest.{sp["base"]}.{kind}.{["drop", "raise", "nack", "interest", "data"][action[0]]}')


def on_build_data(comps, content=b'odd', signed=True):
    """the harness's own encoder: Data{Name, MetaInfo{}, Content, [DigestSha256 SignatureInfo, SignatureValue]}"""
    import hashlib
    body = G.tlv(7, b''.join(comps)) + G.tlv(0x14, b'') + G.tlv(0x15, content)
    if signed:
        body += G.tlv(0x16, G.tlv(0x1b, b'\x00'))
        body += G.tlv(0x17, hashlib.sha256(body).digest())
    return G.tlv(6, body)


def oddname_pending_scenario(ctx, front, loop, M, sp):
    """sp: {'prefix', 'tail': [odd labels], 'close': bool (a plain last component follows), 'packet': 'data' | 'data-unsigned' |
    'nack' | 'nack-noreason', 'table': word over W (waits for the name) / P (waits for the prefix, CanBePrefix) / U (another name), 'env',
    'mode', 'log'}"""
    import hashlib
    from ndn.encoding import Name
    from ndn.types import InterestNack
    ver = front.ver
    site = f'appv{ver}._receive'
    VR = getattr(front.mod, 'ValidResult', None)
    odd = on_odd_components()
    prefix = [bytes(c) for c in Name.from_str(sp['prefix'])]
    try:
        nN = prefix + [odd[lb] for lb in sp['tail']] + ([G.tlv(8, b'z')] if sp['close'] else [])
    except KeyError:
        return
    nU = [G.tlv(8, b'on-unrelated'), G.tlv(8, b'u')]
    case = {'front': ver, 'oddpend': dict(sp), 'name': b''.join(nN)}
    if not all(on_usable_prefix(c) and on_comp_type(c) != 2 for c in nN):
        # (the encoder refuses Type 0, Types beyond 65535 and a ParametersSha256DigestComponent in an Interest without parameters)
        ctx.stat('oddname.pending.not-expressible')
        return
    implicit = nN[-1][:1] == b'\x01'            # the last component is an implicit digest: the Data is named by the rest
    implicit0 = implicit and len(nN[-1]) == 2   # ... with an EMPTY value: both front-ends take it for "no digest" (docs/C06.md)
    app = front.new_app()
    loop.errors.clear()

    async def ok2(name, sig, context):
        return VR.PASS

    async def ok1(name, sig):
        return True
    entries = []

    def express(kind, nm, cbp):
        async def go():
            if ver == 2:
                co = app.express(list(nm), ok2, lifetime=60000, can_be_prefix=cbp, nonce=len(entries) + 1)
            else:
                co = app.express_interest(list(nm), validator=ok1, lifetime=60000, can_be_prefix=cbp, nonce=len(entries) + 1)
            return loop.create_task(co)
        n0 = len(app.face.sent)
        t = loop.run_until_complete(go())
        loop.settle()
        entries.append({'kind': kind, 'name': list(nm), 'task': t, 'cbp': cbp,
                        'wire': app.face.sent[n0] if len(app.face.sent) > n0 else None})

    def finish():
        for e in entries:
            if not e['task'].done():
                e['task'].cancel()
        loop.settle()
        retrieve([e['task'] for e in entries])
        loop.collect_errors()
        loop.errors.clear()
    with debug_logging(sp['log']):
        try:
            for k in sp['table']:
                if k == 'W':
                    express(k, nN, False)
                elif k == 'P':
                    express(k, prefix, True)
                elif k == 'U':
                    express(k, nU, False)
        except Exception as e:   # noqa
            ctx.violation(site, f'history-raises:{exc_class(e)}', f'expressing an Interest for a name with the components {sp["tail"]} raised {e!r}', case)
            finish()
            return
        for e in entries:
            if e['task'].done():
                ctx.violation(site, 'history-outcome', f'entry {e["kind"]} ended while it was being expressed: {e["task"]!r:.100}', case)
                finish()
                return
        mine = [e for e in entries if e['kind'] == 'W' and e['wire'] is not None]
        pk = sp['packet']
        if pk.startswith('nack'):
            inter = bytes(mine[0]['wire']) if mine else None
            if not mine:
                # nobody waits for it: a Nack returning an Interest of that name all the same
                inter = G.tlv(5, G.tlv(7, b''.join(nN)) + G.tlv(0x0a, b'\x01\x02\x03\x04'))
            reason = None if pk == 'nack-noreason' else 150
            inner = None
            typ, w = 0x64, G.tlv(0x64, (G.tlv(0x62, b'\x0a\x0b') if 'token' in sp['env'] else b'')
                                 + G.tlv(0x0320, b'' if reason is None else G.tlv(0x0321, bytes([reason]))) + G.tlv(0x50, inter))
        else:
            dname = nN[:-1] if implicit else nN
            inner = on_build_data(dname, b'odd', signed=(pk == 'data'))
            typ, w = on_envelope(sp['env'], inner)
        case['typ'], case['wire'] = typ, w
        action = classify_action(M, front, loop, typ, w, 'oddname')
        if pk.startswith('nack'):
            r = ref_nack(w)
            if r is not None:
                action = [2, r[0], (0 if front.nd is None else front.nd) if r[1] is None else r[1]]      # a Nack by construction
        pkt_name = [bytes(c) for c in action[1]] if action[0] in (2, 4) else None
        before = [e['task'].done() for e in entries]
        exc = None
        if sp['mode'] == 'await':
            async def go_await():
                try:
                    await app._receive(typ, w)
                    return None
                except Exception as e:   # noqa
                    return e
            exc = loop.run_until_complete(go_await())
            loop.settle()
        else:
            async def go_task():
                return loop.create_task(app._receive(typ, w))
            rx = loop.run_until_complete(go_task())
            loop.settle()
            if not rx.done():
                ctx.violation(site, 'reception-does-not-return', 'the reception task is still running at quiescence', case)
                rx.cancel()
                loop.settle()
            elif not rx.cancelled():
                exc = rx.exception()
        where = {0: 'decode', 1: 'decode', 2: '_on_nack', 3: '_on_interest', 4: '_on_data'}[action[0]] + ('+debug-log' if sp['log'] else '')
        what = f'{pk} named {sp["prefix"]} + {sp["tail"]}'
        if exc is not None:
            ctx.violation(site, f'raises:{exc_class(exc)}:{where}', f'_receive raised {type(exc).__name__} ({str(exc)[:80]}) on a well-formed {what}', case)

        def outcome(t):
            if not t.done():
                return ('pending',)
            if t.cancelled():
                return ('CancelledError',)
            e = t.exception()
            if e is None:
                r = t.result()
                content = r[1] if ver == 2 else r[2]
                return ('data', [bytes(c) for c in r[0]], None if content is None else bytes(content))
            if isinstance(e, InterestNack):
                return ('nack', e.reason)
            return (exc_class(e),)
        for e, b4 in zip(entries, before):
            if implicit0:
                break           # whom a packet addresses beside an Interest ending in an empty implicit digest is C03's business
            if action[0] == 4:
                if e['kind'] == 'W':
                    addressed = (pkt_name == nN and not implicit) or \
                        (implicit and pkt_name == nN[:-1] and G.tlv(1, hashlib.sha256(inner).digest()) == nN[-1])
                elif e['kind'] == 'P':
                    addressed = pkt_name[:len(e['name'])] == e['name']
                else:
                    addressed = False
                want = ('data', pkt_name, b'odd')
            elif action[0] == 2:
                addressed = e['kind'] == 'W' and pkt_name == nN       # (everybody waiting under that name)
                want = ('nack', action[2])
            else:
                addressed, want = False, None
            o = outcome(e['task'])
            if addressed:
                okv = o == want or (want[0] == 'nack' and pk == 'nack-noreason' and o[0] == 'nack' and o[1] in (None, 0))
                if not okv:
                    ctx.violation(site, 'pending-interest-not-completed',
                                  f'entry {e["kind"]} is addressed by the {what}; expected {want!r:.80}, it is {o!r:.80}', case)
            elif o != ('pending',) and not b4:
                ctx.violation(site, 'pending-interest-disturbed', f'entry {e["kind"]} is not addressed by the {what} and ended with {o!r:.80}', case)
        # -- aftermath: whoever still waits completes with its own Data
        for e in entries:
            if e['task'].done():
                continue
            if e['kind'] == 'W' and implicit:
                continue            # (only the Data with exactly that digest could; nothing to demand)
            d = on_build_data(e['name'], b'after', signed=False)
            try:
                loop.run_until_complete(app._receive(6, d))
                loop.settle()
                o = outcome(e['task'])
            except Exception as e2:   # noqa
                o = ('reception raised ' + exc_class(e2),)
            if o[0] != 'data' or o[2] != b'after':
                ctx.violation(site, 'pending-interest-lost', f'entry {e["kind"]} does not complete with its Data afterwards ({o!r:.80})', case)
        errs = loop.collect_errors()
        loop.errors.clear()
        if errs:
            e = errs[0].get('exception')
            ctx.violation(site, f'loop-error:{exc_class(e) if e is not None else "none"}',
                          f'a background task ended with an unhandled error ({what}): {errs[0].get("message")} {e!r}', case)
    finish()
    ctx.case(('op', ver, repr(sorted(case['oddpend'].items()))), True, case if len(w) < 160 else None,
             f'recv.v{ver}.oddname.{pk}.{sp["tail"][0].split(".")[0] if sp["tail"] else "none"}.{["drop", "raise", "nack", "interest", "data"][action[0]]}')


def oddname_family(ctx, fronts, loop, M):
    """every name layout x {plain, one parameterised, one signed base} (thorough: every base) on both front-ends; validator,
    handler placement, prefix depth, envelope, hand-over, log level, CanBePrefix/MustBeFresh and a bystander rotate (thorough:
    sampled three more times).  Then every odd component (and sampled pairs) in the name of an Interest the application waits
    for, against its Data / Nack."""
    rng = ctx.rng
    layouts = on_layouts(ctx)
    i = 0

    def tick():
        if i % 400 == 1:
            gc.collect()
            gc.freeze()
    for f in fronts:
        vals = ON_VALIDATORS[f.ver]
        for li, lay in enumerate(layouts):
            if ctx.thorough:
                bases = ON_BASES
            else:
                bases = ('plain', ON_BASES[1 + li % 3], ON_BASES[4 + (li // 3) % 4])
            for base in bases:
                for rep in range(ctx.n(1, 4)):
                    i += 1
                    r0 = rep == 0
                    sp = {'prefix': ON_PREFIXES[i % 2] if r0 else rng.choice(ON_PREFIXES), 'layout': [t if isinstance(t, str) else list(t) for t in lay],
                          'base': base,
                          'validator': vals[(i // 2) % len(vals)] if r0 else rng.choice(vals),
                          'handlers': list(ON_PLACEMENTS[(i // 3) % len(ON_PLACEMENTS)] if r0 else rng.choice(ON_PLACEMENTS)),
                          'env': ON_ENVELOPES[(i // 5) % 4] if r0 else rng.choice(ON_ENVELOPES),
                          'mode': ('task', 'await')[(i // 7) % 2] if r0 else rng.choice(('task', 'await')),
                          'log': (i // 11) % 3 == 0 if r0 else rng.random() < 0.3,
                          'cbp': (i // 13) % 4 == 0 if r0 else rng.random() < 0.25,
                          'pending': (i // 17) % 3 == 0 if r0 else rng.random() < 0.3}
                    # half of the quick-tier cases keep the most telling tables: a passing validator at the prefix itself
                    if r0 and i % 2 == 0:
                        sp['validator'], sp['handlers'] = vals[0], ['P'] if i % 4 else ['root', 'P']
                    oddname_interest_scenario(ctx, f, loop, M, sp)
                    tick()
    odd = sorted(on_odd_components())
    tails = [[lb] for lb in odd]
    for _ in range(ctx.n(30, 600)):
        tails.append([rng.choice(odd) for _ in range(rng.randint(2, 4))])
    packets = ('data', 'nack', 'data-unsigned', 'nack-noreason')
    tables = ('W', 'WU', 'PW', 'U', 'WP', 'WW')
    for f in fronts:
        for ti, tail in enumerate(tails):
            for close in (True, False):
                for pk in (packets if ctx.thorough else (packets[(ti + close) % 2], packets[2 + (ti + close) % 2])[:1 + (ti % 2)]):
                    i += 1
                    sp = {'prefix': ON_PREFIXES[i % 2], 'tail': tail, 'close': close, 'packet': pk,
                          'table': tables[(i // 2) % len(tables)], 'env': ON_ENVELOPES[(i // 3) % 4],
                          'mode': ('task', 'await')[(i // 5) % 2], 'log': (i // 7) % 3 == 0}
                    oddname_pending_scenario(ctx, f, loop, M, sp)
                    tick()


# ---- the packet's name against the names in the tables: above, at, below, beside, elsewhere; the empty name -------------
# Both tables are tries keyed by name components.  The families above put entries AT the packet's name, at its parent
# (CanBePrefix), and under unrelated names -- never strictly BELOW it, so a packet never met a table in which its name is only
# an inner node (something pending / attached under a longer name, nothing at the name itself), and never carried the empty
# name `/`, of which every entry is an extension.  Here the packet (Nack, Data, Interest) is named N of depth 0-3 and each table
# holds a subset of {parent of N, N, N + 1 component, N + 2 components, a sibling, elsewhere} (handlers: also the root).
REL_PENDING = ('parent', 'at', 'below1', 'below2', 'sibling', 'other')
REL_HANDLERS = ('root', 'parent', 'at', 'below1', 'sibling', 'other')
REL_PACKETS = ('nack', 'data', 'interest')
REL_REASONS = (150, None, 0, 50)


def rel_names(depth):
    """relation -> name (component list) relative to the packet's name N of that depth; None where there is no such name"""
    c = lambda x: G.tlv(8, x)   # noqa
    nN = [c(b'rel'), c(b'a'), c(b'b')][:depth]
    return nN, {'root': [], 'parent': nN[:-1] if depth >= 2 else None, 'at': list(nN) if depth >= 1 else None,
                'below1': nN + [c(b'x')], 'below2': nN + [c(b'x'), c(b'y')],
                'sibling': nN[:-1] + [c(b'sib')] if depth >= 1 else None, 'other': [c(b'elsewhere'), c(b'o')]}


def relation_scenario(ctx, front, loop, M, sp):
    """sp: {'depth', 'packet', 'pending': [[relation, CanBePrefix]...], 'handlers': [relation...], 'reason', 'lp', 'mode'}"""
    from ndn.types import InterestNack
    ver = front.ver
    site = f'appv{ver}._receive'
    VR = getattr(front.mod, 'ValidResult', None)
    nN, names = rel_names(sp['depth'])
    app = front.new_app()
    case = {'front': ver, 'relation': dict(sp), 'name': b''.join(nN)}
    loop.errors.clear()

    async def ok2(name, sig, context):
        return VR.PASS

    async def ok1(name, sig):
        return True
    hits = {}
    entries = []

    def finish():
        for e in entries:
            if not e['task'].done():
                e['task'].cancel()
        loop.settle()
        retrieve([e['task'] for e in entries])
        loop.collect_errors()
        loop.errors.clear()

    def is_prefix(a, b):
        return len(a) <= len(b) and b[:len(a)] == a
    try:
        for rel in sp['handlers']:
            if names.get(rel) is None or rel in hits or any(names[rel] == names[q] for q in hits):
                continue
            hits[rel] = []
            if ver == 2:
                def h(name, app_param, reply, context, rel=rel):
                    hits[rel].append([bytes(c) for c in name])
                app.attach_handler(list(names[rel]), h, ok2)
            else:
                def h(name, param, app_param, rel=rel):
                    hits[rel].append([bytes(c) for c in name])
                app.set_interest_filter(list(names[rel]), h, ok1)
        for rel, cbp in sp['pending']:
            if names.get(rel) is None:
                continue

            async def go(nm=names[rel], cbp=cbp):
                if ver == 2:
                    co = app.express(list(nm), ok2, lifetime=60000, can_be_prefix=bool(cbp), nonce=len(entries) + 1)
                else:
                    co = app.express_interest(list(nm), validator=ok1, lifetime=60000, can_be_prefix=bool(cbp), nonce=len(entries) + 1)
                return loop.create_task(co)
            n0 = len(app.face.sent)
            t = loop.run_until_complete(go())
            loop.settle()
            entries.append({'rel': rel, 'name': list(names[rel]), 'cbp': bool(cbp), 'task': t,
                            'wire': app.face.sent[n0] if len(app.face.sent) > n0 else None})
    except Exception as e:   # noqa
        ctx.violation(site, f'history-raises:{exc_class(e)}', f'building the tables raised {e!r}', case)
        finish()
        return
    for e in entries:
        if e['task'].done():
            ctx.violation(site, 'history-outcome', f'the Interest {e["rel"]} ended while it was being expressed', case)
            finish()
            return
    # -- the packet, by the harness's own encoder
    pk = sp['packet']
    reason = sp['reason']
    mine = [e for e in entries if e['rel'] == 'at' and e['wire'] is not None]
    if pk == 'nack':
        inter = bytes(mine[0]['wire']) if mine else G.tlv(5, G.tlv(7, b''.join(nN)) + G.tlv(0x0a, b'\x01\x02\x03\x04') + G.tlv(0x0c, b'\x0f\xa0'))
        typ, w = 0x64, G.tlv(0x64, (G.tlv(0x62, b'\x0a\x0b') if sp['lp'] else b'')
                             + G.tlv(0x0320, b'' if reason is None else G.tlv(0x0321, bytes([reason]))) + G.tlv(0x50, inter))
    else:
        inner = on_build_data(nN, b'rel', signed=False) if pk == 'data' else \
            G.tlv(5, G.tlv(7, b''.join(nN)) + G.tlv(0x0a, b'\x01\x02\x03\x04') + G.tlv(0x0c, b'\x0f\xa0'))
        typ, w = on_envelope('lp-token' if sp['lp'] else 'bare', inner)
    case['typ'], case['wire'] = typ, w
    action = classify_action(M, front, loop, typ, w, 'relation')
    kind = {'nack': 2, 'data': 4, 'interest': 3}[pk]
    if sp['depth'] >= 1 and pk == 'nack':
        action = [2, list(nN), (0 if front.nd is None else front.nd) if reason is None else reason]     # a Nack by construction
    if action[0] == kind and [bytes(c) for c in action[1]] != nN:
        ctx.disagree(site, 'the name read from a packet the harness built is not the name it was built with', case, action, nN)
        finish()
        return
    if sp['depth'] >= 1 and action[0] != kind:
        ctx.disagree(site, f'a well-formed {pk} the harness built is not classified as one', case, action, kind)
        finish()
        return
    accepted = action[0] == kind        # (the empty name: whether the decoders take it at all is C07's; what follows is ours)
    sent0 = len(app.face.sent)
    before = [e['task'].done() for e in entries]
    exc = None
    if sp['mode'] == 'await':
        async def go_await():
            try:
                await app._receive(typ, w)
                return None
            except Exception as e:   # noqa
                return e
        exc = loop.run_until_complete(go_await())
        loop.settle()
    else:
        async def go_task():
            return loop.create_task(app._receive(typ, w))
        rx = loop.run_until_complete(go_task())
        loop.settle()
        if not rx.done():
            ctx.violation(site, 'reception-does-not-return', 'the reception task is still running at quiescence', case)
            rx.cancel()
            loop.settle()
        elif not rx.cancelled():
            exc = rx.exception()
    where = {0: 'decode', 1: 'decode', 2: '_on_nack', 3: '_on_interest', 4: '_on_data'}[action[0]]
    table = ','.join(f'{e["rel"]}{"*" if e["cbp"] else ""}' for e in entries) or 'empty'
    what = f'{pk} named {"/" if not nN else b"/".join(c[2:] for c in nN).decode()} (pending: {table}; handlers: {",".join(hits) or "none"})'
    if exc is not None:
        ctx.violation(site, f'raises:{exc_class(exc)}:{where}', f'_receive raised {type(exc).__name__} ({str(exc)[:80]}) on a {what}', case)

    def outcome(t):
        if not t.done():
            return ('pending',)
        if t.cancelled():
            return ('CancelledError',)
        e = t.exception()
        if e is None:
            r = t.result()
            content = r[1] if ver == 2 else r[2]
            return ('data', [bytes(c) for c in r[0]], None if content is None else bytes(content))
        if isinstance(e, InterestNack):
            return ('nack', e.reason)
        return (exc_class(e),)
    # -- who is addressed, by name
    for e, b4 in zip(entries, before):
        if accepted and pk == 'data':
            addressed = e['name'] == nN or (e['cbp'] and is_prefix(e['name'], nN))
            want = ('data', nN, b'rel')
        elif accepted and pk == 'nack':
            addressed = e['name'] == nN
            want = ('nack', action[2])
        else:
            addressed, want = False, None
        o = outcome(e['task'])
        if addressed:
            if o != want and not (want[0] == 'nack' and reason is None and o[0] == 'nack' and o[1] in (None, 0)):
                ctx.violation(site, 'pending-interest-not-completed',
                              f'the Interest {e["rel"]}{"*" if e["cbp"] else ""} is addressed by the {what}; expected {want!r:.60}, it is {o!r:.60}', case)
        elif o != ('pending',):
            ctx.violation(site, 'pending-interest-disturbed',
                          f'the Interest {e["rel"]}{"*" if e["cbp"] else ""} is not addressed by the {what} and ended with {o!r:.60}', case)
    att = [k for k in hits if is_prefix(names[k], nN)]
    best = max(att, key=lambda k: len(names[k])) if att else None
    for k in hits:
        want_n = 1 if (accepted and pk == 'interest' and k == best) else 0
        if len(hits[k]) != want_n:
            cls = 'handler-disturbed' if len(hits[k]) > want_n else 'interest-not-delivered'
            ctx.violation(site, cls, f'the handler at {k} was invoked {len(hits[k])} time(s) by the {what}; expected {want_n}', case)
    if len(app.face.sent) != sent0:
        ctx.violation(site, 'packet-caused-transmission', f'something was transmitted in response to the {what}', case)
    # -- aftermath: whoever still waits gets its own Data (shorter names first: a Data also satisfies the CanBePrefix Interests
    #    above it, which are then served already); every handler still serves the Interests under its prefix
    for e in sorted(entries, key=lambda e: len(e['name'])):
        if e['task'].done():
            continue
        try:
            loop.run_until_complete(app._receive(6, on_build_data(e['name'], b'after', signed=False)))
            loop.settle()
            o = outcome(e['task'])
        except Exception as e2:   # noqa
            o = ('reception raised ' + exc_class(e2),)
        if o != ('data', e['name'], b'after'):
            ctx.violation(site, 'pending-interest-lost', f'the Interest {e["rel"]} does not complete with its Data after the {what} ({o!r:.80})', case)
    for k in hits:
        for q in hits:
            hits[q].clear()
        iw = G.tlv(5, G.tlv(7, b''.join(names[k] + [G.tlv(8, b'probe')])) + G.tlv(0x0a, b'\x09\x09\x09\x09'))
        try:
            loop.run_until_complete(app._receive(5, iw))
            loop.settle()
        except Exception as e2:   # noqa
            ctx.violation(site, f'aftermath-error:{exc_class(e2)}', f'an Interest for the handler at {k} raised {e2!r} after the {what}', case)
        for q in hits:
            if len(hits[q]) != (1 if q == k else 0):
                ctx.violation(site, 'handler-lost' if q == k else 'handler-disturbed',
                              f'after the {what} an Interest under {k} invoked the handler at {q} {len(hits[q])} time(s)', case)
    errs = loop.collect_errors()
    loop.errors.clear()
    if errs:
        e = errs[0].get('exception')
        ctx.violation(site, f'loop-error:{exc_class(e) if e is not None else "none"}',
                      f'a background task ended with an unhandled error ({what}): {errs[0].get("message")} {e!r}', case)
    finish()
    rels = {e['rel'] for e in entries}
    shape = 'empty' if not rels else ('only-below' if rels <= {'below1', 'below2'} else ('at' if 'at' in rels else 'mixed'))
    ctx.case(('rel', ver, repr(sorted(case['relation'].items()))), True, case,
             f'recv.v{ver}.relation.{pk}.depth{sp["depth"]}.{shape}.{["drop", "raise", "nack", "interest", "data"][action[0]]}')


def relation_family(ctx, fronts, loop, M):
    """front-end x packet kind x depth of the packet's name (0 = the empty name) x EVERY subset of the pending relations (handler
    subset rotating) and EVERY subset of the handler relations (pending subset rotating); CanBePrefix, reason form, LpPacket
    envelope and hand-over rotate (thorough: every pending subset x every handler subset once more, sampled rotations)"""
    import itertools
    rng = ctx.rng
    psubs = [list(c) for n in range(len(REL_PENDING) + 1) for c in itertools.combinations(REL_PENDING, n)]
    hsubs = [list(c) for n in range(len(REL_HANDLERS) + 1) for c in itertools.combinations(REL_HANDLERS, n)]
    i = 0
    for f in fronts:
        for pk in REL_PACKETS:
            for depth in (0, 1, 2, 3):
                pairs = [(ps, hsubs[(7 * j + 3) % len(hsubs)]) for j, ps in enumerate(psubs)] + \
                        [(psubs[(11 * j + 5) % len(psubs)], hs) for j, hs in enumerate(hsubs)]
                if ctx.thorough:
                    pairs += [(ps, hs) for ps in psubs for hs in hsubs if rng.random() < 0.25]
                for ps, hs in pairs:
                    i += 1
                    sp = {'depth': depth, 'packet': pk, 'handlers': hs,
                          'pending': [[r, (i + j) % 2] for j, r in enumerate(ps)] + ([['at', i % 2 == 0]] if 'at' in ps and i % 3 == 0 else []),
                          'reason': REL_REASONS[i % 4], 'lp': (i // 2) % 2 == 1, 'mode': ('task', 'await')[(i // 3) % 2]}
                    relation_scenario(ctx, f, loop, M, sp)
                    if i % 400 == 1:
                        gc.collect()
                        gc.freeze()


# ---- pending Interests that END IN AN IMPLICIT DIGEST, at every relation to the packet's name -----------------------------------
# An Interest `B/<ImplicitSha256Digest=X>` waits at the table node B (the digest is not part of the key) and is addressed by a Data
# only if the NAME condition holds (the Data is named B; or B is a proper prefix of its name and the Interest has CanBePrefix) AND
# the Data's own SHA-256 is X; by a Nack only if the nacked name is B/<X> itself.  The relation family above never put such an
# Interest into the table, and the only digests the other families ever stored were ones no packet has (state kind `H`, the odd
# components): the combination "digest RIGHT, name condition WRONG" -- and its mirror images -- did not exist.  Here the digest is
# that of the arriving Data (`own`), that of the Data the entry is completed with afterwards (`its`), the arriving Data's with one
# bit changed (`flip`) or an unrelated one (`rand`), and B lies at every relation to the packet's name N.
DG_RELS = ('root', 'parent', 'at', 'below1', 'below2', 'sibling', 'other')
DG_KINDS = ('none', 'own', 'its', 'flip', 'rand')
DG_PACKETS = ('data', 'nack-digest', 'nack-plain')
DG_FRESH = (None, 0, 1000, 'nometa')        # FreshnessPeriod absent (empty MetaInfo) / 0 / 1000 ms / no MetaInfo element at all


def dg_build_data(comps, content, fresh=None, signed=False):
    """the harness's own encoder: Data{Name, [MetaInfo{[FreshnessPeriod]}], Content, [DigestSha256 SignatureInfo, SignatureValue]}"""
    import hashlib
    meta = b'' if fresh == 'nometa' else G.tlv(0x14, b'' if fresh is None else G.tlv(0x19, b'\x00' if fresh == 0 else struct.pack('>H', fresh)))
    body = G.tlv(7, b''.join(comps)) + meta + G.tlv(0x15, content)
    if signed:
        body += G.tlv(0x16, G.tlv(0x1b, b'\x00'))
        body += G.tlv(0x17, hashlib.sha256(body).digest())
    return G.tlv(6, body)


def dg_addresses(e, kind, pname, pdigest):
    """the reference: does the packet (a Data named pname whose SHA-256 is pdigest / a Nack returning the Interest pname[/<pdigest>])
    legitimately address the pending Interest e = {'base', 'digest' (None = carries none), 'cbp'}"""
    if kind == 'data':
        by_name = e['base'] == pname or (e['cbp'] and len(e['base']) < len(pname) and pname[:len(e['base'])] == e['base'])
        return by_name and (e['digest'] is None or e['digest'] == pdigest)
    return e['base'] == pname and e['digest'] == pdigest


def digest_relation_scenario(ctx, front, loop, M, sp):
    """sp: {'depth', 'packet', 'pending': [[relation, digest kind, CanBePrefix, MustBeFresh]...], 'fresh', 'signed', 'reason', 'lp',
    'mode'}.  The table is built by `express`; the packet (by the harness's own encoder) is delivered; then every Interest still
    pending is completed in turn by a packet of its own -- the Data named by it (plain / `its` / `own` where that Data addresses it)
    or the Nack returning the very wire the application sent -- and after EVERY delivery exactly the Interests the reference says
    are addressed have ended, with that packet."""
    import hashlib
    from ndn.types import InterestNack
    ver = front.ver
    site = f'appv{ver}._receive'
    VR = getattr(front.mod, 'ValidResult', None)
    nN, names = rel_names(sp['depth'])
    app = front.new_app()
    case = {'front': ver, 'digestrel': dict(sp), 'name': b''.join(nN)}
    loop.errors.clear()
    own_wire = dg_build_data(nN, b'rel', sp['fresh'], sp['signed'])
    own = hashlib.sha256(own_wire).digest()

    async def ok2(name, sig, context):
        return VR.PASS

    async def ok1(name, sig):
        return True
    entries = []

    def finish():
        for e in entries:
            if not e['task'].done():
                e['task'].cancel()
        loop.settle()
        retrieve([e['task'] for e in entries])
        loop.collect_errors()
        loop.errors.clear()

    def label(e):
        return f'{e["rel"]}{"*" if e["cbp"] else ""}{"!" if e["mbf"] else ""}{"" if e["kind"] == "none" else "+" + e["kind"]}'
    try:
        for i, (rel, kind, cbp, mbf) in enumerate(sp['pending']):
            base = names.get(rel)
            if base is None or (kind == 'none' and not base):
                continue            # (no such name at this depth; a plain Interest for the empty name is not expressed)
            its_wire = None
            if kind == 'own':
                dg = own
            elif kind == 'its':
                its_wire = dg_build_data(base, b'its:%d' % i, DG_FRESH[i % 3], signed=i % 2 == 0)
                dg = hashlib.sha256(its_wire).digest()
            elif kind == 'flip':
                k = (5 * i + sp['depth']) % 32
                dg = own[:k] + bytes([own[k] ^ (1 << (i % 8))]) + own[k + 1:]
            elif kind == 'rand':
                dg = hashlib.sha256(b'unrelated' + bytes([i])).digest()
            else:
                dg = None
            nm = list(base) + ([G.tlv(1, dg)] if dg is not None else [])

            async def go(nm=nm, cbp=cbp, mbf=mbf):
                kw = {'lifetime': 60000, 'can_be_prefix': bool(cbp), 'must_be_fresh': bool(mbf), 'nonce': len(entries) + 1}
                co = app.express(list(nm), ok2, **kw) if ver == 2 else app.express_interest(list(nm), validator=ok1, **kw)
                return loop.create_task(co)
            n0 = len(app.face.sent)
            t = loop.run_until_complete(go())
            loop.settle()
            entries.append({'i': i, 'rel': rel, 'kind': kind, 'base': list(base), 'digest': dg, 'cbp': bool(cbp), 'mbf': bool(mbf),
                            'task': t, 'its': its_wire, 'wire': app.face.sent[n0] if len(app.face.sent) > n0 else None})
    except Exception as e:   # noqa
        ctx.violation(site, f'history-raises:{exc_class(e)}', f'building the table raised {e!r}', case)
        finish()
        return
    for e in entries:
        if e['task'].done() or e['wire'] is None:
            ctx.violation(site, 'history-outcome', f'the Interest {label(e)} ended while it was being expressed / was not sent', case)
            finish()
            return
    table = ','.join(label(e) for e in entries) or 'empty'

    def plain_interest(nm):
        return G.tlv(5, G.tlv(7, b''.join(nm)) + G.tlv(0x0a, b'\x01\x02\x03\x04') + G.tlv(0x0c, b'\x0f\xa0'))

    def nack_of(inter, reason, lp=False):
        return 0x64, G.tlv(0x64, (G.tlv(0x62, b'\x0a\x0b') if lp else b'')
                           + G.tlv(0x0320, b'' if reason is None else G.tlv(0x0321, bytes([reason]))) + G.tlv(0x50, inter))
    # -- the packet
    pk = sp['packet']
    reason = sp['reason']
    if pk == 'data':
        typ, w = on_envelope('lp-token' if sp['lp'] else 'bare', own_wire)
        ref = ('data', nN, own)
        want = ('data', nN, b'rel')
        kind_no, built_name = 4, nN
    else:
        pdg = own if pk == 'nack-digest' else None
        mine = [e for e in entries if e['base'] == nN and e['digest'] == pdg]
        built_name = nN + ([G.tlv(1, pdg)] if pdg is not None else [])
        typ, w = nack_of(bytes(mine[0]['wire']) if mine else plain_interest(built_name), reason, sp['lp'])
        ref = ('nack', nN, pdg)
        want = ('nack', (0 if front.nd is None else front.nd) if reason is None else reason)
        kind_no = 2
    case['typ'], case['wire'] = typ, w
    action = classify_action(M, front, loop, typ, w, 'digestrel')
    if action[0] != kind_no or [bytes(c) for c in action[1]] != built_name:
        ctx.disagree(site, f'a well-formed {pk} the harness built is not classified as one / not with the name it was built with',
                     case, action, [kind_no, built_name])
        finish()
        return
    fp = {None: 'FreshnessPeriod absent', 0: 'FreshnessPeriod 0', 1000: 'FreshnessPeriod 1000', 'nometa': 'no MetaInfo'}[sp['fresh']]
    what = f'{pk} named /{b"/".join(c[2:] for c in nN).decode()}' + \
           (f' ({fp}, {"signed" if sp["signed"] else "unsigned"}; `own` = its SHA-256)' if pk == 'data' else
            (' + <the `own` digest>' if pk == 'nack-digest' else '')) + f' (pending: {table})'

    def outcome(t):
        if not t.done():
            return ('pending',)
        if t.cancelled():
            return ('CancelledError',)
        e = t.exception()
        if e is None:
            r = t.result()
            content = r[1] if ver == 2 else r[2]
            return ('data', [bytes(c) for c in r[0]], None if content is None else bytes(content))
        if isinstance(e, InterestNack):
            return ('nack', e.reason)
        return (exc_class(e),)

    def same(o, want):
        return o == want or (want[0] == 'nack' and o[0] == 'nack' and want[1] in (None, 0) and o[1] in (None, 0))

    def deliver(typ, w, mode):
        if mode == 'await':
            async def go_await():
                try:
                    await app._receive(typ, w)
                    return None
                except Exception as e:   # noqa
                    return e
            exc = loop.run_until_complete(go_await())
            loop.settle()
            return exc
        async def go_task():
            return loop.create_task(app._receive(typ, w))
        rx = loop.run_until_complete(go_task())
        loop.settle()
        if not rx.done():
            ctx.violation(site, 'reception-does-not-return', 'the reception task is still running at quiescence', case)
            rx.cancel()
            loop.settle()
            return None
        return None if rx.cancelled() else rx.exception()

    def judge(ref, want, text, target=None):
        """after a delivery: exactly the still-pending Interests the reference says are addressed have ended, with `want`"""
        for e in entries:
            if e['ended']:
                continue
            o = outcome(e['task'])
            if dg_addresses(e, *ref):
                if not same(o, want):
                    ctx.violation(site, 'pending-interest-lost' if target is not None else 'pending-interest-not-completed',
                                  f'the Interest {label(e)} is addressed by the {text}; expected {want!r:.60}, it is {o!r:.60}', case)
            elif o != ('pending',):
                ctx.violation(site, 'pending-interest-disturbed',
                              f'the Interest {label(e)} is not addressed by the {text} and ended with {o!r:.60}', case)
            e['ended'] = o != ('pending',)
    for e in entries:
        e['ended'] = False
    sent0 = len(app.face.sent)
    hit = any(dg_addresses(e, *ref) for e in entries if e['digest'] is not None)
    near = any(e['digest'] == own and not dg_addresses(e, *ref) for e in entries)
    exc = deliver(typ, w, sp['mode'])
    if exc is not None:
        ctx.violation(site, f'raises:{exc_class(exc)}:{"_on_data" if pk == "data" else "_on_nack"}',
                      f'_receive raised {type(exc).__name__} ({str(exc)[:80]}) on a {what}', case)
    judge(ref, want, what)
    if len(app.face.sent) != sent0:
        ctx.violation(site, 'packet-caused-transmission', f'something was transmitted in response to the {what}', case)
    # -- aftermath: every Interest still pending is completed by a packet of its own, shorter names first
    for e in sorted(entries, key=lambda e: (len(e['base']), e['i'])):
        if e['ended']:
            continue
        if e['digest'] is None:
            c = b'after:%d' % e['i']
            aw = dg_build_data(e['base'], c, DG_FRESH[e['i'] % 4], signed=e['i'] % 2 == 1)
            atyp, aref, awant = 6, ('data', e['base'], hashlib.sha256(aw).digest()), ('data', e['base'], c)
        elif e['its'] is not None:
            atyp, aw, aref, awant = 6, e['its'], ('data', e['base'], e['digest']), ('data', e['base'], b'its:%d' % e['i'])
        elif e['digest'] == own and dg_addresses(e, 'data', nN, own):
            atyp, aw, aref, awant = 6, own_wire, ('data', nN, own), ('data', nN, b'rel')     # (the packet was a Nack)
        else:
            r = (150, None, 50)[e['i'] % 3]
            atyp, aw = nack_of(bytes(e['wire']), r)
            aref, awant = ('nack', e['base'], e['digest']), ('nack', (0 if front.nd is None else front.nd) if r is None else r)
        text = f'{"Data" if atyp == 6 else "Nack"} meant for the Interest {label(e)} after the {what}'
        exc = deliver(atyp, aw, 'await')
        if exc is not None:
            ctx.violation(site, f'aftermath-error:{exc_class(exc)}', f'_receive raised {exc!r:.80} on the {text}', case)
        judge(aref, awant, text, target=e)
    errs = loop.collect_errors()
    loop.errors.clear()
    if errs:
        e = errs[0].get('exception')
        ctx.violation(site, f'loop-error:{exc_class(e) if e is not None else "none"}',
                      f'a background task ended with an unhandled error ({what}): {errs[0].get("message")} {e!r}', case)
    finish()
    shape = 'digest-and-name-right' if hit else ('digest-right-name-wrong' if near else
                                                  ('digests-wrong' if any(e['digest'] is not None for e in entries) else 'no-digest'))
    ctx.case(('dgrel', ver, repr(sorted(case['digestrel'].items()))), True, case,
             f'recv.v{ver}.digestrel.{pk}.depth{sp["depth"]}.{shape}')


def digest_family(ctx, fronts, loop, M):
    """(1) ONE digest-carrying Interest: front-end x depth x relation x digest kind x CanBePrefix x MustBeFresh, the Data with every
    FreshnessPeriod form where the name condition can hold (rotating elsewhere), a plain companion rotating; (2) tables: EVERY subset
    of the relations, digest kinds rotating, Data and both Nack forms; (3) TWO Interests at one node: every pair of kinds at every
    relation.  Signature, envelope, hand-over, reason rotate (thorough: the full product of (1), sampled rotations of (2), (3))."""
    import itertools
    rng = ctx.rng
    n = [0]

    def go(f, sp):
        n[0] += 1
        i = n[0]
        sp.setdefault('fresh', DG_FRESH[i % 4])
        sp.setdefault('signed', (i // 2) % 2 == 0)
        sp.setdefault('lp', (i // 3) % 2 == 1)
        sp.setdefault('mode', ('task', 'await')[(i // 5) % 2])
        sp.setdefault('reason', REL_REASONS[i % 4])
        digest_relation_scenario(ctx, f, loop, M, sp)
        if i % 400 == 1:
            gc.collect()
            gc.freeze()
    companions = ([], [['at', 'none', 0, 0]], [['parent', 'none', 1, 0]], None, [['below1', 'none', 0, 1]], [['at', 'none', 1, 1], ['other', 'none', 0, 0]])
    subsets = [list(c) for k in range(len(DG_RELS) + 1) for c in itertools.combinations(DG_RELS, k)]
    for f in fronts:
        j = 0
        # (1)
        for depth in (1, 2, 3):
            for rel in DG_RELS:
                for kind in DG_KINDS[1:]:
                    for cbp in (0, 1):
                        for mbf in (0, 1):
                            fresh = DG_FRESH if (ctx.thorough or (rel in ('root', 'parent', 'at') and kind in ('own', 'flip'))) else (DG_FRESH[j % 4],)
                            for fr in fresh:
                                j += 1
                                comp = companions[j % len(companions)]
                                comp = [[rel, 'none', 1 - cbp, 0]] if comp is None else comp       # (a plain Interest at the same node)
                                first = j % 2 == 0
                                entry = [[rel, kind, cbp, mbf]]
                                sp = {'depth': depth, 'packet': 'data' if j % 7 else ('nack-digest', 'nack-plain')[(j // 7) % 2],
                                      'pending': entry + comp if first else comp + entry, 'fresh': fr}
                                go(f, sp)
                                if ctx.thorough:
                                    for sg, lp, md in itertools.product((False, True), (False, True), ('task', 'await')):
                                        go(f, dict(sp, signed=sg, lp=lp, mode=md, packet='data'))
        # (2)
        for rot in range(4 if ctx.thorough else 1):
            for depth in (1, 2, 3):
                for si, ss in enumerate(subsets):
                    j += 1
                    pend = []
                    for q, rel in enumerate(ss):
                        kind = DG_KINDS[(si + 2 * q + rot) % 5] if rot == 0 else rng.choice(DG_KINDS)
                        pend.append([rel, kind, (j + q) % 2, (j // 2 + q) % 2])
                    go(f, {'depth': depth, 'packet': DG_PACKETS[0 if j % 3 else (j // 3) % 3], 'pending': pend})
        # (3)
        for rel in DG_RELS:
            for k1, k2 in itertools.product(DG_KINDS, DG_KINDS):
                for depth in ((1, 2, 3) if ctx.thorough else ((j % 2) + 2,)):
                    j += 1
                    pend = [[rel, k1, j % 2, (j // 3) % 2], [rel, k2, (j // 2) % 2, (j // 5) % 2]]
                    if j % 4 == 0:
                        pend.append(['at', ('none', 'own')[(j // 4) % 2], 0, 0])
                    go(f, {'depth': depth, 'packet': DG_PACKETS[0 if j % 4 else (j // 4) % 3], 'pending': pend})


def retrieve(tasks):
    """the harness is done with these tasks: an outcome nobody looked at (InterestCanceled of an Interest the harness
    itself cancelled ...) must not show up as "Task exception was never retrieved" in a LATER scenario on this loop"""
    for t in tasks:
        if t.done() and not t.cancelled():
            t.exception()


def exc_class(e):
    """class name used in violation classes: the builtin base for lookup errors (pygtrie's ShortKeyError is a KeyError)"""
    for base in (KeyError, IndexError, asyncio.InvalidStateError):
        if isinstance(e, base):
            return base.__name__
    return type(e).__name__


KNOWN_WITNESSES = [
    # (typ, wire): Properties/C06Findings.v, replayed first on every run
    (6, bytes([6, 5, 7, 3, 8, 1, 97, 0])),
    (0x64, bytes([100, 10, 80, 8, 5, 5, 7, 3, 8, 1, 97, 0])),
    (0x64, bytes([100, 0])),
    (0x64, bytes([100, 2, 80, 0])),
    (0x64, bytes([100, 3, 80, 1, 253])),
]


def part_receive(ctx, only=None):
    rng, M = ctx.rng, (ctx.call if ctx.model else None)
    from ndn.encoding import ndn_format_0_3 as F, ndnlp_v2 as LP
    from ndn import utils
    loop = vtloop.new_loop()
    old_ts = utils.timestamp
    utils.timestamp = lambda: loop.now_ms()
    try:
        from ndn.transport.face import Face
        Face.register(DFace)
        fronts = [Front(2), Front(1)]
        for f in fronts:
            f.nd = probe_nack_default(f, loop)
            ctx.stat(f'nack_default.v{f.ver}.{f.nd}')
        descs = {5: D.reflect_class(F.InterestPacketValue), 6: D.reflect_class(F.DataPacketValue),
                 0x64: D.reflect_class(LP.LpPacketValue)}

        counter = [0]

        def one(origin, typ, w, with_oracle):
            # collect_errors() runs a full gc per scenario; keep the long-lived heap (packet lists, evidence
            # counters) out of its way: everything alive now is moved to the permanent generation
            counter[0] += 1
            if counter[0] % 400 == 1:
                gc.collect()
                gc.freeze()
            for f in fronts:
                case = {'front': f.ver, 'typ': typ, 'wire': w, 'origin': origin}
                ia = f.classify(loop, typ, w)
                if M:
                    a = M([4, f.ver, None if f.nd is None else [f.nd], typ, w])
                    if is_err(a) and a[1] == 98:
                        ctx.disagree(f'appv{f.ver}._receive', 'model bad request', case, a, None)
                        continue
                    ma = norm_action(a, f.ver)
                else:
                    # no model: the instrumented implementation says whom the packet addresses (the Nacks the
                    # harness built itself are Nacks by construction)
                    a = construction_action(origin, f, w) or ([ia[0] if isinstance(ia[0], int) else 0] + ia[1:])
                    ma = ia
                if ma[0] == 1 and ia[0] == 1:
                    if ma != ia:
                        ctx.stat('raise-class-differs')     # only raised-or-not is compared (DESIGN 2.4)
                elif ma != ia:
                    ctx.disagree(f'appv{f.ver}._receive', 'what _receive does with the packet', case, ma, ia)
                if ia[0] == 1:
                    ctx.violation(f'appv{f.ver}._receive', f'raises:{ia[1]}:decode',
                                  f'_receive raised (class code {ia[1]}) before any handler was called', case)
                if with_oracle:
                    oracle_receive(ctx, f, loop, origin, typ, w, a, rng.randint(0, 4), rng.randint(0, 3))
                    # the same packet against a table brought into a random reachable state
                    if rng.random() < (0.35 if a[0] in (2, 3, 4) else 0.08):
                        word = ''.join(rng.choice('WWWCCTTHGXDQVPpUBB') for _ in range(rng.randint(1, 5)))
                        oracle_states(ctx, f, loop, origin, typ, w, a, word, rng.choice(['await', 'task']))
                ctx.case(('r', f.ver, typ, w), len(w) >= 4, case if a[0] != 0 else None,
                         f'recv.v{f.ver}.{origin.split(".")[0]}.{["drop", "raise", "nack", "interest", "data"][a[0]]}')

        if only is not None:
            for typ, w, *tbl in only:
                if typ == 'nackfam':
                    for f in fronts:
                        nack_scenario(ctx, f, loop, w)
                    continue
                if typ == 'judged':
                    for f in fronts:
                        if w['validator'] in JD_VALIDATORS[f.ver]:
                            judged_scenario(ctx, f, loop, M, w)
                    continue
                if typ == 'oddname':
                    for f in fronts:
                        if w['validator'] in ON_VALIDATORS[f.ver]:
                            oddname_interest_scenario(ctx, f, loop, M, w)
                    continue
                if typ == 'oddpend':
                    for f in fronts:
                        oddname_pending_scenario(ctx, f, loop, M, w)
                    continue
                if typ == 'relation':
                    for f in fronts:
                        relation_scenario(ctx, f, loop, M, w)
                    continue
                if typ == 'digestrel':
                    for f in fronts:
                        digest_relation_scenario(ctx, f, loop, M, w)
                    continue
                origin = tbl[2] if len(tbl) > 2 and tbl[2] in BUILT_NACKS else 'replay'
                if tbl and tbl[0]:
                    # a stored table scenario: the same state word and hand-over mode, both front-ends
                    for f in fronts:
                        oracle_states(ctx, f, loop, origin, typ, w, classify_action(M, f, loop, typ, w, origin), tbl[0], tbl[1])
                    continue
                for _ in range(8):          # several random states around the same packet
                    one(origin, typ, w, True)
            return
        for typ, w in KNOWN_WITNESSES:
            one('corpus', typ, w, True)
        # Nacks (every reason form) against handler tables around the nacked name
        nack_handler_family(ctx, fronts, loop)
        # awaited Data edited at the TLV level against validators that judge
        judged_family(ctx, fronts, loop, M)
        # names with odd components: honest Interests against handlers, Data / Nacks against waiting Interests
        oddname_family(ctx, fronts, loop, M)
        # the packet's name above / at / below / beside the names in both tables; the empty name
        relation_family(ctx, fronts, loop, M)
        # pending Interests ending in an implicit digest (the packet's, another Data's, a wrong one) at every relation to its name
        digest_family(ctx, fronts, loop, M)
        # ordinary packets against every small state of the pending-Interest table (and sampled larger ones)
        for wi, word in enumerate(state_words(ctx)):
            pk = table_packets(ctx, wi)
            chosen = pk[:4:3] + rng.sample(pk[1:3] + pk[4:], 2) if not ctx.thorough or len(word) > 2 else pk
            for kind, typ, w in chosen:
                for f in fronts:
                    a = classify_action(M, f, loop, typ, w, 'table.' + kind)
                    oracle_states(ctx, f, loop, 'table.' + kind, typ, w, a, word, rng.choice(['await', 'task']))
                    counter[0] += 1
                    if counter[0] % 400 == 1:
                        gc.collect()
                        gc.freeze()
        pk = valid_packets(ctx)
        budget = ctx.n(5000, 40000)           # oracle scenarios (each builds an application)
        total = 0
        per = []
        for kind, typ, w in pk:
            per.append(mutants(ctx, kind, typ, w, descs))
            total += len(per[-1])
        p_or = min(1.0, budget / max(1, total))
        for ms in per:
            for origin, typ, w in ms:
                one(origin, typ, w, origin.startswith('valid') or rng.random() < p_or)
        for _ in range(ctx.n(2500, 30000)):
            n = rng.choice([0, 1, 2, 3, 5, 8, 16, 40, 200])
            body = G.rand_bytes(rng, n)
            typ = rng.choice([5, 6, 0x64, 0x64, 9, rng.randrange(0, 70000)])
            w = body if rng.random() < 0.3 else G.tlv(typ, body)
            if rng.random() < 0.3:
                w = G.tlv(0x64, G.tlv(0x50, w))
                typ = 0x64
            one('random', typ, w, rng.random() < 0.2)
    finally:
        utils.timestamp = old_ts
        loop.close()
        gc.unfreeze()


def run(ctx):
    if ctx.model is None:
        ctx.notes.append('no model executable: only the model-independent oracles were run')
        info = [None] * 8
    else:
        info = ctx.call([6])
    ctx.extra['source_reflection'] = {'run_catches_incomplete_read': info[0], 'run_catches_conn_reset': info[1],
                                      'run_spawns_task': info[2], 'udp_guarded': info[3], 'v1_frag_guard': info[4],
                                      'v2_frag_guard': info[5], 'v1_except_lp': info[6], 'v2_except_lp': info[7]}
    import time
    t0 = time.time()
    try:
        part_stream(ctx)
    except StopPart:
        ctx.notes.append('stream part aborted: the reader loop did not yield')
    t1 = time.time()
    part_udp(ctx)
    t2 = time.time()
    part_receive(ctx)
    ctx.extra['wall_parts_s'] = {'stream': round(t1 - t0, 1), 'udp': round(t2 - t1, 1), 'receive': round(time.time() - t2, 1)}


def replay(ctx, data):
    """single-case replay of a stored violation (./check C06 --replay file)"""
    from harness.lib.core import unjson
    case = unjson(data.get('case', {}))
    if 'events' in case:
        part_stream(ctx, only=[[tuple(e) for e in case['events']]])
    elif 'datagram' in case:
        part_udp(ctx, only=[case['datagram']])
    elif 'nackfam' in case:
        part_receive(ctx, only=[('nackfam', case['nackfam'])])
    elif 'judged' in case:
        part_receive(ctx, only=[('judged', case['judged'])])
    elif 'oddname' in case:
        part_receive(ctx, only=[('oddname', case['oddname'])])
    elif 'oddpend' in case:
        part_receive(ctx, only=[('oddpend', case['oddpend'])])
    elif 'relation' in case:
        part_receive(ctx, only=[('relation', case['relation'])])
    elif 'digestrel' in case:
        part_receive(ctx, only=[('digestrel', case['digestrel'])])
    elif 'wire' in case:
        part_receive(ctx, only=[(case['typ'], case['wire'], case.get('table'), case.get('mode', 'task'), case.get('origin'))])
    else:
        ctx.notes.append('replay: unknown case shape; full run repeated')
        run(ctx)
