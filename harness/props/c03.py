"""C03 — every expressed Interest completes exactly once with the right outcome.

Per history (a list of decoded events, see harness/props/_pipeline.py) two things are run:
 * correspondence: the extracted operational model (Model/ExpressPipeline.v) against the real ndn.appv2.NDNApp and the
   legacy ndn.app.NDNApp driven on the virtual-time loop with real wire packets (make_data / make_interest /
   make_network_nack fed to the real _receive): completions (outcome + virtual time), Interests put on the face,
   exceptions escaping _receive, loop exception handler, PIT size, validator invocations;
 * direct oracle: the extracted specification automaton (Spec/ExpressSpec.v) evaluated on the history against what the
   implementation did (outcome of every Interest, nothing left in the PIT, no internal error).
"""
from harness.props import _pipeline as P
from harness.props import _namebufs as NB
from harness.props import _dress as DR

RULE = ('histories over the name lattice /a, /a/b, /a/b/c, /x (with/without implicit digest), 1-6 concurrent Interests incl. '
        'several per name, events Express+Await/Data/Nack/VDone/Cancel/Shutdown/AdvanceTo with event times drawn at, one '
        'before and one after pending deadlines and all three tie linearisations; targeted patterns always present '
        '(cancel then late Nack/Data, validator outliving the lifetime with a second Interest on the name, mixed '
        'CanBePrefix, ties, shutdown with validations in flight, digests); Nack reasons drawn from every value / encoding a '
        'forwarder may send: NackReason 0, a Nack header without NackReason (= reason None), 1, 50/100/150, the width '
        'boundaries 255/256/65535/65536/2^32-1/2^32/2^64-1 and non-shortest 2/4/8-byte encodings - as a targeted table '
        '(18 forms x 6 patterns: alone, at the deadline in all tie modes, with implicit digest, while the application serves '
        'the prefix itself, repeated, next to a validating Interest) and in the random histories (about half falsy / boundary); '
        'an Interest handler called without an incoming Interest is an oracle failure; shutdown family: the face shuts down '
        'while Interests are pending on each of the 15 non-empty subsets of the lattice /a, /a/b, /a/b/c, /x (same, nested and '
        'unrelated names) x {one Interest per name with mixed CanBePrefix; shutdown on the deadline of the first / last name in '
        'all three tie modes; three Interests per name (plain, CanBePrefix, implicit digest); the other names already completed '
        'by Data / Nack / cancel / timeout (holes above, between and below); the other names validating, verdicts and late '
        'packets after the shutdown} - every pending Interest must end Cancelled at the shutdown; a fifth of the random '
        'histories end with a shutdown (some on a pending deadline); thorough: all histories up to 5 events over '
        '2 names x 3 Interests + a 1/40 sample of the 6-event ones; both front-ends. DEFERRED FIRST AWAIT (the coroutine returned by '
        'express() starts to run d after the Interest was expressed, 0 < d < lifetime, any events in between; outcome and timeout time '
        'are fixed by express time + lifetime, the specification automaton ignores Await): window table d {1, 40, 99} x packet (Data, '
        'Nack, slow verdict, Data under a CanBePrefix Interest, Data for an implicit digest) at D-1, D, D+1, D+d-1, D+d, D+d+1 (at D and '
        'D+d in all three tie modes) next to an Interest on the same name awaited at once; nothing arrives; packet / shutdown before the '
        'first await; express-all-then-collect chains (the k-th result awaited when the (k-1)-th is there, Data just before / after D '
        'and D + waiting time); EVERY well-formed targeted pattern above with the awaits of its Interests deferred (each alone by 1, '
        'half, lifetime-1, before / behind the other events of that millisecond; all together; two rotating plans for the Nack-reason '
        'and shutdown tables in quick); random well-formed histories with a random subset of awaits deferred; oracle clause '
        'timeout-not-at-deadline (every InterestTimeout at express time + lifetime, also in the well-formed histories). Judged by the '
        'specification in both front-ends (the legacy one counted the lifetime from the first await: genuine defect found by this '
        'family, fixed by 949ef3c; legacy: no VDone before the Await, its validator is called by the awaitable). '
        'CALLER-OWNED NAME BUFFERS (harness/props/_namebufs.py; harness-level events repr / scrib, invisible to model and specification, '
        'where names are values: the outcome of an Interest is decided by the name that was expressed, whatever the caller later writes '
        'into its buffers): the name of an Interest is handed to express / express_interest in one of 21 representations - URI str, list '
        'of bytes, list of str components, encoded name as bytes / memoryview of bytes, list of memoryviews of bytes, Name.from_bytes of a '
        'view of bytes (values); encoded name as bytearray, list of bytearrays, mixed bytearray/view/str list, tuple of writable views, '
        'writable view of the encoded name / of a region of a larger buffer, writable views into one buffer, READ-ONLY view '
        '(toreadonly) of a caller-owned encoded name / of a region of a larger buffer, read-only views into one buffer, '
        'Name.from_bytes(memoryview(bytearray).toreadonly()) (views of views), read-only views made from writable views, one receive '
        'buffer shared by several Interests and rewritten in place for each express (decoded read-only components / writable view) - and '
        'the caller REWRITES every buffer it handed over (5 modes: zeros, 0xFF, every / the last / the first component respelt so that '
        'the buffer spells another valid name of the lattice) at any later point of the history: targeted table kind x mode x {Data, '
        'Nack, late Data after two rewrites, Data under CanBePrefix, shutdown, timeout, cancel, implicit digest Data / Nack, two '
        'Interests on the name (buffer-owner first / second), served - re-expressed - rewritten - served again, rewrite during validation, '
        'rewrite before a deferred first await, rewrite in the loop turn of the express and of the packet, the whole lattice pending '
        'through the kind and answered bottom-up / top-down, express-rewrite-express chains; a neighbour expressed as a value on the name '
        'the rewritten buffer now spells gets exactly its own packets} (2 rotating modes per kind in quick, all 5 and three name depths '
        'in thorough); EVERY well-formed targeted pattern above with its Interests expressed through caller-owned buffers and a rewrite '
        'behind one of its events (two rotating points + all points at once in quick, every point in thorough); random well-formed and '
        'deferred-await histories with a random representation per Interest and 1-3 rewrites (400 / 5000 per front-end). Two shapes of this family exposed genuine aliasing defects of the library (the implicit digest kept as a view of the caller\'s '
        'memory; the table node looked up under the caller\'s component list at timeout / cancel), repaired by fix: 2146f96 and judged like '
        'everything else since (VERIF_C03_JUDGE_OPEN=0 restores the pre-fix split into judged / counted). '
        'PACKET DRESS (harness/props/_dress.py; harness-level events pkt / via / iopt, invisible to model and specification, where a Data is '
        'an id, a name and a hash and an Interest a name, CanBePrefix, a digest and a lifetime: what the receive path can SEE of a Data / '
        'Nack / Interest but the property says must not matter): every Data id is a packet (MetaInfo x Content x signature) - MetaInfo of 22 '
        'kinds (absent, empty, ContentType 0 spelt out, FreshnessPeriod 0 explicitly encoded / 1 / 4000 / 2^32 / 2^64-1, ContentType LINK, KEY, '
        'NACK, manifest, prefix announcement, KITE, FLIC, application-defined, 2^64-1, FinalBlockId, combinations), Content {names the id, '
        'absent, empty, 6 kB}, signature {DigestSha256, none at all, null, HMAC, ECDSA, RSA, Ed25519}; every Data / Nack EVENT is delivered in '
        'one of 16 ways - the bare packet, or the Fragment of an NDNLPv2 LpPacket with no header, PitToken of 0 / 4 / 8 / 32 octets, '
        'CongestionMark 0 / 1 / 2^64-1, PitToken + CongestionMark, IncomingFaceId, CachePolicy, Ack + TxSequence, NonDiscovery + '
        'PrefixAnnouncement, an unknown ignorable header field, all of them (type-number order; for a Nack around the Nack header, the enclosed '
        'Interest with CanBePrefix / MustBeFresh / HopLimit by rotation); Interests carry MustBeFresh and / or HopLimit; the implicit digest of '
        'a data id is the SHA-256 of its BARE packet however it is delivered. Delivery table: 16 ways x {Data next to a longer-named Interest, '
        'right / wrong / no digest on one name with two Data, digest alone, CanBePrefix + digest under a longer Data name, MustBeFresh alone / '
        'with CanBePrefix / with digest / HopLimit, Nacks for the plain and the digest name in every reason form, Data on the deadline in the '
        'three tie modes, Data during a validation + a second Interest with digest}; packet table: every MetaInfo x Content (signature kinds '
        'rotating; thorough: full cross product x 3 deliveries) x 7 Interest shapes {plain, CanBePrefix under a longer Data name, MustBeFresh, '
        'MustBeFresh + CanBePrefix, right digest, wrong digest next to a right one with CanBePrefix, MustBeFresh + right digest + HopLimit}, each '
        'next to a digest Interest served by a second Data only; EVERY well-formed / deferred targeted pattern above dressed (rotating forms per '
        'data id, deliveries per event, MustBeFresh / HopLimit per Interest; 2 plans per pattern in quick, 6 in thorough incl. the '
        'deferred-await family); random well-formed / deferred / caller-buffer histories in a random dress (500 / 6000 per front-end; half of '
        'the forms FreshnessPeriod 0 / no MetaInfo, 70 % of the packets inside an LpPacket, MustBeFresh on half of the Interests). A Data handed '
        'to the caller is identified by its content or, when it has none, by the signature the validator of that Interest last saw, and its '
        'content must be the content of that packet (else internal-error:data-or-content-never-delivered). '
        'non-trivial = at least one Interest and more than two events')
ASSUMPTIONS = ['asyncio (CPython 3.12: Future, Task.cancel, wait_for/timeouts.Timeout, FIFO ready queue) is the event '
               'alphabet of the model; the three tie modes are the linearisations a loop turn permits',
               'validators are harness coroutines that answer at once or wait on a harness future; validators raising '
               'arbitrary exceptions are outside the model',
               '"Future exception was never retrieved" for an InterestNack/ValidationFailure that lost a same-turn race '
               'against the timer is asyncio\'s GC-time log for the superseded future and is not counted as an internal error']


def enumerate_small(fe):
    """All histories of up to 6 events over 2 names x 3 Interests (Express counts as one event, always awaited)."""
    A, AB = P.A, P.AB
    p = P.PASS[fe]
    base = [
        lambda t: P.ex(0, A, t, life=100, fe=fe),
        lambda t: P.ex(1, A, t, life=200, cbp=True, vm=('def',), fe=fe),
        lambda t: P.ex(2, AB, t, life=100, fe=fe),
        lambda t: [('data', 0, A, t, 0)],
        lambda t: [('data', 1, AB, t, 0)],
        lambda t: [('nack', A, None, 50, t, 0)],
        lambda t: [('vdone', 1, p, t, 0)],
        lambda t: [('cancel', 0, t, 0)],
        lambda t: [('cancel', 1, t, 0)],
        lambda t: [('shutdown', t, 0)],
        lambda t: [('advance', t + 100)],
    ]

    def rec(prefix, used, t, depth):
        if depth == 0:
            return
        for k, mk in enumerate(base):
            if k < 3 and k in used:
                continue
            if k in (3, 4, 5, 6, 7, 8) and not used:
                continue
            if k == 9 and 9 in used:
                continue
            if k < 3 and 9 in used:
                continue
            evs = mk(t)
            h = prefix + evs
            yield h
            t2 = t + 100 if k == 10 else t + 30
            yield from rec(h, used | {k}, t2, depth - 1)
    yield from rec([], frozenset(), 0, 6)


def run(ctx):
    for fe in ('v2', 'v1'):
        for tag, h in P.targeted(fe):
            P.check_history(ctx, fe, h, 'targeted.' + tag, 'C03')
        # deferred first await: the awaitable returned by express() starts to run some time after the Interest was sent
        for tag, h in P.deferred_family(fe, full=ctx.thorough):
            P.check_history(ctx, fe, h, tag if tag.startswith('deferred-') else 'targeted-' + tag, 'C03')
        for k in range(ctx.n(300, 4000)):
            P.check_history(ctx, fe, P.rand_history_deferred(ctx.rng, fe), 'random-deferred-await', 'C03')
        # caller-owned name buffers: every representation express accepts x the caller rewriting its buffers later on
        for tag, h in NB.family(fe, full=ctx.thorough):
            P.check_history(ctx, fe, h, tag, 'C03')
        for tag, h in NB.transformed(fe, P.targeted(fe), full=ctx.thorough):
            P.check_history(ctx, fe, h, tag, 'C03')
        for k in range(ctx.n(400, 5000)):
            base = P.rand_history_deferred(ctx.rng, fe) if k % 4 == 3 else P.fix_digest_names(P.rand_history(ctx.rng, fe, wf=True))
            P.check_history(ctx, fe, NB.randomised(ctx.rng, fe, base), 'random-buffers', 'C03')
        # packet dress: what the Data / Nack looks like and how it is delivered (bare / NDNLPv2 LpPacket with header fields),
        # MustBeFresh / HopLimit on the Interest - nothing of it may change an outcome
        for tag, h in DR.family(fe, full=ctx.thorough):
            P.check_history(ctx, fe, h, tag, 'C03')
        for tag, h in DR.transformed(fe, P.targeted(fe) + (P.deferred_family(fe, full=False) if ctx.thorough else []),
                                     full=ctx.thorough):
            P.check_history(ctx, fe, h, tag, 'C03')
        for k in range(ctx.n(500, 6000)):
            base = P.rand_history_deferred(ctx.rng, fe) if k % 4 == 3 else P.fix_digest_names(P.rand_history(ctx.rng, fe, wf=True))
            if k % 5 == 4:
                base = NB.randomised(ctx.rng, fe, base)
            P.check_history(ctx, fe, DR.randomised(ctx.rng, fe, base), 'random-dressed', 'C03')
        n = ctx.n(900, 8000)
        for k in range(n):
            wf = ctx.rng.random() < 0.85
            h = P.rand_history(ctx.rng, fe, wf=wf)
            P.check_history(ctx, fe, h, 'random' if wf else 'random-late-await', 'C03')
        if ctx.thorough:
            # bounded enumeration (supports the tie, it is not the proof): every history of up to 5 events over
            # 2 names x 3 Interests (41 111), and a seeded 1/40 sample of the 321 160 histories with 6 events
            cnt = 0
            for h in enumerate_small(fe):
                k = sum(1 for e in h if e[0] != 'await')
                if k == 6 and ctx.rng.random() >= 0.025:
                    continue
                P.check_history(ctx, fe, h, f'enum{k}', 'C03')
                cnt += 1
            ctx.stat(f'{fe}.enum.total', cnt)
    for fe in ('v2', 'v1'):
        for shape in ('digest-in-caller-buffer', 'node-name-in-caller-buffer'):
            k = ctx.stats.get(f'{fe}.buffers.open-shape.{shape}', 0)
            if k:
                bad = ctx.stats.get(f'{fe}.buffers.open-shape.{shape}.oracle-fails', 0)
                ctx.notes.append(f'{fe}: {k} histories of the shape {shape} (caller-owned name buffer rewritten while the Interest '
                                 f'is pending, docs/C03.md "Caller-owned name buffers") were run but NOT judged and not compared with '
                                 f'the model (VERIF_C03_JUDGE_OPEN=0): the oracle fails on {bad} of them')
    for fe in ('v2', 'v1'):
        k = ctx.stats.get(f'{fe}.deferred-await.not-judged', 0)
        if k:
            ctx.notes.append(f'{fe}: {k} histories with a deferred first await were compared with the model but NOT judged by the '
                             f'specification: this front-end starts the lifetime at the first await of the coroutine returned by '
                             f'express_interest, not at express (docs/C03.md, "Deferred first await"); see _pipeline.DEFERRED_ORACLE')


def replay(ctx, data):
    case = P.unjson_case(data['case'])
    P.check_history(ctx, case['frontend'], case['history'], 'replay', 'C03')
