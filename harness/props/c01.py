"""C01 — Interest and Data packets survive an encode/decode round trip.

Correspondence: Model/PacketEnc.v (extracted; hash and signature supplied as data) vs make_interest /
make_data with every shipped signer + a synthetic signer sweeping (reserved, actual) signature sizes.
Oracle on the implementation: the wire is one strictly well-formed element (extracted strict reader),
parse returns the same name (+ parameters digest component when required), parameters/MetaInfo and payload.
"""
import hashlib

from harness.lib import gen as G
from harness.lib import tlvdesc as D
from harness.lib import pktgen as P
from harness.lib.model import is_err

RULE = ('names 0..6 components of any type (incl. an existing ParametersSha256 component), all InterestParam/'
        'MetaInfo field combinations, payload sizes 0/1/small/251..254/300 and sizes that put the Content, the '
        'packet value and the name length on 252/253/254/65535/65536, 70000; signers: none, digest, HMAC, RSA-2048, '
        'ECDSA P-256/384/521 (variable DER length), Ed25519, null, and a synthetic signer sweeping 0<=actual<=reserved<=300. '
        'The name is handed over as the caller\'s own list object (components as bytes, some as URI strings) and must be unchanged '
        'after the call; one list object is used for an Interest with parameters, then a Data, then a plain Interest; names and forwarding hints also given as tuple / one-shot iterator / generator; one MetaInfo / InterestParam OBJECT is used for 2-4 packets with its fields edited between them. '
        'Signer size contract: reserved sizes of real signer objects (ECDSA on P-192/224/256/384/521, Ed25519, HMAC, digest, null) '
        'against the translated arithmetic; real signatures written into a buffer of exactly the reserved size, r and s read back '
        'from the DER bytes and the DER length model compared with the real length, extreme r/s on every sign-bit boundary. '
        'non-trivial = signed or carrying parameters/MetaInfo/payload; distinct by input hash')
ASSUMPTIONS = ['SHA-256 and the signature primitives are external (hashlib / pycryptodome); the model receives the digest and '
               'signature bytes as data and decides WHICH bytes they are computed over and where they go']


def shipped(label):
    """labels of the signers the library ships (and 'none'); the synthetic signer may break the size contract on purpose"""
    return not label.startswith('synthetic')


def in_form(name, form):
    """the same name in another representation a NonStrictName may have: tuple, one-shot iterator, generator"""
    if form == 'tuple':
        return tuple(name)
    if form == 'iter':
        return iter(list(name))
    if form == 'gen':
        return (c for c in list(name))
    return name


def as_components(name):
    from ndn.encoding import Component
    return [bytes(Component.from_str(c)) if isinstance(c, str) else bytes(c) for c in name]


def conv_interest_result(r):
    name, params, app, ptrs = r
    return ([bytes(c) for c in name], params.can_be_prefix, params.must_be_fresh,
            [[bytes(c) for c in n] for n in params.forwarding_hint], params.nonce, params.lifetime, params.hop_limit,
            None if app is None else bytes(app))


def one_interest(ctx, M, name, ip, app, signer, label, ip_obj=None, name_as=None):
    from ndn.encoding import make_interest, parse_interest, InterestParam
    rec = P.Rec(signer) if signer is not None else None
    case = {'kind': 'interest', 'signer': label, 'name': list(name), 'params': {k: v for k, v in ip.items() if k != 'forwarding_hint'},
            'hints': len(ip['forwarding_hint']), 'app_len': None if app is None else len(app)}
    given_name = list(name)             # the caller's own list object, handed over as it is
    given_hints = [list(n) for n in ip['forwarding_hint']]
    try:
        if ip_obj is not None:       # a caller-owned InterestParam object used before: its fields are set to ip now
            for k, v in ip.items():
                setattr(ip_obj, k, v)
        ipo = ip_obj if ip_obj is not None else InterestParam(**{**ip, 'forwarding_hint': [in_form(h, name_as) for h in ip['forwarding_hint']]})
        wire, final = make_interest(in_form(name, name_as), ipo, app, rec, need_final_name=True)
        wire = bytes(wire)
        r = 'ok'
    except Exception as e:   # noqa
        r = type(e).__name__
    # building a packet does not edit what it was built from: the caller may use the same name object again
    if list(name) != given_name or [list(n) for n in ip['forwarding_hint']] != given_hints:
        ctx.violation('make_interest', 'argument-edited',
                      f'the name list handed to make_interest has {len(name)} components afterwards, {len(given_name)} before '
                      '(a packet built from it next carries the edit)', {**case, 'name_after': list(name)})
    name = as_components(given_name)     # from here on: the name the caller meant, as encoded components
    sig = None
    sigval = b''
    if signer is not None:
        info = rec.info if rec.info is not None else P.scratch_info(signer)
        reserved = rec.reserved if rec.reserved is not None else signer.get_signature_value_size()
        sig = (info, reserved)
        sigval = rec.sig if rec.sig is not None else b'\x00' * reserved
    req = P.interest_sexp(name, ip, app, sig)
    m1 = M([1, req, b'\x00' * 32, sigval])
    if is_err(m1):
        if r == 'ok':
            ctx.disagree('make_interest', 'model raises, implementation returns', case, m1, wire)
        ctx.case(('mi', repr(case), sigval), True, None, f'interest.{label}.err')
        return None
    digest = hashlib.sha256(m1[1][3]).digest()
    m = M([1, req, digest, sigval])[1]
    if r != 'ok':
        ctx.disagree('make_interest', 'implementation raises, model returns', case, m[0], r)
        if shipped(label):
            ctx.violation('make_interest', 'shipped-signer-no-packet',
                          f'legal arguments and a shipped signer, but make_interest raises {r} and emits nothing', case)
        return None
    if m[0] != wire:
        ctx.disagree('make_interest', 'different wire', case, m[0], wire)
    if m[1] != [bytes(c) for c in final]:
        ctx.disagree('make_interest', 'different final name', case, m[1], [bytes(c) for c in final])
    # ---- oracle: one strictly well-formed element, exact lengths; parse gives everything back
    need_digest = app is not None or signer is not None
    s = M([6, wire])
    if is_err(s):
        ctx.violation('make_interest', 'not-well-formed', 'the produced Interest is refused by a strict reading of the format', {**case, 'wire': wire})
    try:
        back = conv_interest_result(parse_interest(wire))
    except Exception as e:   # noqa
        ctx.violation('parse_interest∘make_interest', 'roundtrip-raises', f'parse raises {type(e).__name__}', {**case, 'wire': wire})
        back = None
    if back is not None:
        exp_name = list(name)
        if need_digest:
            if not any(c[0] == 2 for c in exp_name):
                exp_name = exp_name + [back[0][-1]]
            else:
                exp_name = [b if a[0] == 2 else a for a, b in zip(exp_name, back[0])] if len(back[0]) == len(exp_name) else exp_name
            dig = [c for c in back[0] if c[0] == 2]
            if len(dig) != 1 or len(dig[0]) != 34:
                ctx.violation('make_interest', 'digest-component', 'no single 32-byte ParametersSha256 component in the name', {**case, 'wire': wire})
        exp = (exp_name, bool(ip['can_be_prefix']), bool(ip['must_be_fresh']), [list(n) for n in ip['forwarding_hint']],
               ip['nonce'], ip['lifetime'], ip['hop_limit'], (b'' if (app is None and signer is not None) else app))
        if back != exp or back[0] != [bytes(c) for c in final]:
            ctx.violation('parse_interest∘make_interest', 'roundtrip', f'parsed {back!r:.300} expected {exp!r:.300}', {**case, 'wire': wire})
    ctx.case(('mi', repr(case), sigval), need_digest or ip['nonce'] is not None, case, f'interest.{label}.ok')
    return wire, rec


def one_data(ctx, M, name, meta_args, content, signer, label, meta_obj=None, name_as=None):
    from ndn.encoding import make_data, parse_data, MetaInfo
    from ndn.encoding import ndn_format_0_3 as F
    rec = P.Rec(signer) if signer is not None else None
    if meta_obj is not None:
        # a caller-owned MetaInfo object that has been used for earlier packets: its fields are set to meta_args now
        for k in ('content_type', 'freshness_period', 'final_block_id'):
            setattr(meta_obj, k, (meta_args or {}).get(k, 0 if k == 'content_type' else None))
        meta = meta_obj
    else:
        meta = MetaInfo(**meta_args) if meta_args is not None else None
    mdesc = D.reflect_class(F.MetaInfo)
    meta_val = D.from_py(mdesc, meta) if meta is not None else None
    case = {'kind': 'data', 'signer': label, 'name': list(name), 'meta': meta_args, 'content_len': None if content is None else len(content)}
    given_name = list(name)
    try:
        wire = bytes(make_data(in_form(name, name_as), meta, content, rec))
        r = 'ok'
    except Exception as e:   # noqa
        r = type(e).__name__
    if list(name) != given_name:
        ctx.violation('make_data', 'argument-edited', 'the name list handed to make_data was edited by the call',
                      {**case, 'name_after': list(name)})
    name = as_components(given_name)
    sig = None
    sigval = b''
    if signer is not None:
        info = rec.info if rec.info is not None else P.scratch_info(signer)
        reserved = rec.reserved if rec.reserved is not None else signer.get_signature_value_size()
        sig = (info, reserved)
        sigval = rec.sig if rec.sig is not None else b'\x00' * reserved
    m = M([2, P.data_sexp(name, meta_val, content, sig), sigval])
    if is_err(m):
        if r == 'ok':
            ctx.disagree('make_data', 'model raises, implementation returns', case, m, wire)
        ctx.case(('md', repr(case), sigval), True, None, f'data.{label}.err')
        return None
    m = m[1]
    if r != 'ok':
        ctx.disagree('make_data', 'implementation raises, model returns', case, m[0], r)
        if shipped(label):
            ctx.violation('make_data', 'shipped-signer-no-packet',
                          f'legal arguments and a shipped signer, but make_data raises {r} and emits nothing', case)
        return None
    if m[0] != wire:
        ctx.disagree('make_data', 'different wire', case, m[0], wire)
    s = M([7, wire])
    if is_err(s):
        ctx.violation('make_data', 'not-well-formed', 'the produced Data is refused by a strict reading of the format', {**case, 'wire': wire})
    try:
        n2, mi2, c2, ptrs = parse_data(wire)
        back = ([bytes(c) for c in n2], D.from_py(mdesc, mi2), None if c2 is None else bytes(c2))
    except Exception as e:   # noqa
        ctx.violation('parse_data∘make_data', 'roundtrip-raises', f'parse raises {type(e).__name__}', {**case, 'wire': wire})
        back = None
    if back is not None and mi2 is not None:
        # "returns the same MetaInfo": what the application READS off the returned object (plain attribute access,
        # not the stored dict) must be the numbers / bytes that were given
        given = meta if meta is not None else MetaInfo()
        for fld in ('content_type', 'freshness_period', 'final_block_id'):
            want = given.__dict__.get(fld)
            try:
                got = getattr(mi2, fld)
            except Exception as e:   # noqa
                ctx.violation('parse_data∘make_data', 'metainfo-attribute-unreadable',
                              f'reading MetaInfo.{fld} of the parsed packet raises {type(e).__name__}: {e}', {**case, 'wire': wire})
                continue
            norm = lambda x: None if x is None else (bytes(x) if isinstance(x, (bytes, bytearray, memoryview)) else int(x))   # noqa
            if norm(got) != norm(want):
                ctx.violation('parse_data∘make_data', 'metainfo-attribute-differs',
                              f'MetaInfo.{fld} given {want!r}, read back {got!r}', {**case, 'wire': wire})
    if back is not None:
        exp_meta = meta_val if meta_val is not None else ('m', [('u', 0), None, None])   # absent MetaInfo reads as MetaInfo()
        exp = (list(name), exp_meta, content)
        if back != exp:
            ctx.violation('parse_data∘make_data', 'roundtrip', f'parsed {back!r:.300} expected {exp!r:.300}', {**case, 'wire': wire})
    ctx.case(('md', repr(case), sigval), signer is not None or content is not None, case, f'data.{label}.ok')
    return wire, rec


def boundary_sizes(base):
    out = []
    for b in (252, 253, 254, 65535, 65536):
        for k in range(0, 10):
            s = b - base - k
            if s >= 0:
                out.append(s)
    return out


def run(ctx):
    rng = ctx.rng
    M = ctx.call
    keys = P.Keys.get()
    signers = [('none', None, None)] + keys.signers() + [('digest-interest', keys.signers(True)[0][1], None)]
    # 1. every signer x random parameters
    for i in range(ctx.n(35, 1200)):
        for label, sg, _ in signers:
            name, ip, app = P.rand_interest_args(rng)
            if rng.random() < 0.08:
                name = name + [G.tlv(2, G.rand_bytes(rng, rng.choice([32, 32, 32, 31, 0])))] + name[:1]
            one_interest(ctx, M, name, ip, app, sg, label)
            meta_args = rng.choice([None, {}, dict(content_type=rng.choice([None, 0, 1, 2, 3, 4, 5, 300, 1024, 1 << 33]),
                                                   freshness_period=rng.choice([None, 0, 1000, 1 << 33]),
                                                   final_block_id=rng.choice([None, G.tlv(50, b'\x09')]))])
            content = rng.choice([None, b'', b'x', G.rand_bytes(rng, rng.choice([1, 30, 251, 252, 253, 254, 300]))])
            one_data(ctx, M, G.name_of_tv(G.rand_name_tv(rng, 6)), meta_args, content, sg, label)
    # 2. sizes that put a length field on an encoding boundary (and 70000)
    for label, sg, _ in [signers[0], signers[1], signers[2], signers[6]]:
        name = [G.tlv(8, b'n')]
        base = len(bytes(__import__('ndn.encoding', fromlist=['make_data']).make_data(name, None, b'', None))) - 2
        sizes = sorted(set(boundary_sizes(base) + boundary_sizes(base + 80) + boundary_sizes(base + 45)))
        if not ctx.thorough:
            sizes = [s for s in sizes if s < 400] + rng.sample([s for s in sizes if s >= 400], 6)
        for s in sizes + [70000]:
            one_data(ctx, M, name, None, G.rand_bytes(rng, s), sg, label + '.boundary')
            one_interest(ctx, M, name, dict(can_be_prefix=False, must_be_fresh=False, nonce=None, lifetime=4000,
                                            hop_limit=None, forwarding_hint=[]), G.rand_bytes(rng, s), sg, label + '.boundary')
    # signatures shorter than reserved exactly where the OUTER length crosses 253 / 65536 (post-signing repair
    # has to re-encode the Length in a shorter form and move the Type)
    for (res, act) in [(72, 70), (72, 71), (10, 3), (252, 0)]:
        sg = P.Synthetic(res, act)
        name = [G.tlv(8, b'b')]
        for boundary in (253, 65536):
            base = len(bytes(__import__('ndn.encoding', fromlist=['make_data']).make_data(name, None, b'', sg)))
            # outer value length with the RESERVED size = base - header + content (+ content TL growth); sweep around it
            for delta in range(-3, min(res - act, ctx.n(5, 300)) + 3):
                clen = max(0, boundary - base + delta + (2 if boundary == 253 else 6))
                one_data(ctx, M, name, None, G.rand_bytes(rng, clen), sg, 'synthetic.boundary')
                one_interest(ctx, M, name, dict(can_be_prefix=False, must_be_fresh=False, nonce=None, lifetime=None,
                                                hop_limit=None, forwarding_hint=[]), G.rand_bytes(rng, max(0, clen - 40)), sg, 'synthetic.boundary')
    # a long name crossing 252/253
    for ncomp in (40, 41, 42, 43, 60):
        name = [G.tlv(8, b'abcd')] * ncomp
        one_data(ctx, M, name, {}, b'x', signers[1][1], 'digest.longname')
        one_interest(ctx, M, name, P.rand_interest_args(rng)[1], b'p', signers[1][1], 'digest.longname')
    # 3. synthetic signer: the (reserved, actual) triangle, at several outer sizes
    tri = [(r, a) for r in list(range(0, 12)) + [31, 32, 64, 71, 72, 73, 139, 250, 251, 252] for a in {0, 1, r // 2, max(0, r - 2), max(0, r - 1), r} if a <= r]
    tri += [(253, 253), (253, 252), (256, 256), (300, 300), (300, 10)]
    if not ctx.thorough:
        tri = rng.sample(tri, 60) + [(253, 252), (253, 253), (72, 70), (252, 0)]
    for (res, act) in tri:
        for pad in (0, 170, 180 - res if res < 180 else 3):
            sg = P.Synthetic(res, act)
            content = G.rand_bytes(rng, max(0, pad))
            one_data(ctx, M, [G.tlv(8, b'd')], {}, content, sg, 'synthetic')
            one_interest(ctx, M, [G.tlv(8, b'i')], dict(can_be_prefix=False, must_be_fresh=True, nonce=7, lifetime=None,
                                                       hop_limit=None, forwarding_hint=[]), content, sg, 'synthetic')
    # 3b. ONE name object used for several packets in a row (Interest with parameters / signed, then Data, then a plain Interest):
    #     every packet is what a fresh copy of the name would have given
    for i in range(ctx.n(40, 600)):
        base = G.name_of_tv([tv for tv in G.rand_name_tv(rng, 5) if tv[0] != 2])
        shared = list(base)
        if shared and rng.random() < 0.5:
            from ndn.encoding import Component as _C
            j = rng.randrange(len(shared))
            try:
                shared[j] = _C.to_str(shared[j])       # a component given as URI text
                if bytes(_C.from_str(shared[j])) != bytes(base[j]):
                    shared[j] = base[j]
            except Exception:   # noqa
                shared[j] = base[j]
        label, sg, _ = rng.choice(signers)
        ipp = P.rand_interest_args(rng)[1]
        for step in range(3):
            snapshot = list(shared)
            if step == 0:
                one_interest(ctx, M, shared, ipp, b'params', sg, label + '.shared-name')
            elif step == 1:
                one_data(ctx, M, shared, {}, b'x', sg, label + '.shared-name')
            else:
                one_interest(ctx, M, shared, ipp, None, None, 'none.shared-name')
            if shared != snapshot:
                shared = snapshot          # reported by the call above; go on with the name the caller meant
    # 3b'. the name (and the forwarding hints) given as a tuple / one-shot iterator / generator: the same packet as for the list
    for i in range(ctx.n(30, 400)):
        label, sg, _ = rng.choice(signers)
        form = ['tuple', 'iter', 'gen'][i % 3]
        nm = G.name_of_tv([tv for tv in G.rand_name_tv(rng, 5) if tv[0] != 2])
        ipp = P.rand_interest_args(rng)[1]
        if not ipp['forwarding_hint']:
            ipp['forwarding_hint'] = [G.name_of_tv(G.rand_name_tv(rng, 3)) for _ in range(2)]
        one_data(ctx, M, nm, rng.choice([None, {}]), rng.choice([None, b'x']), sg, label + '.name-' + form, name_as=form)
        one_interest(ctx, M, nm, ipp, rng.choice([None, b'p']), sg, label + '.name-' + form, name_as=form)
    # 3c. ONE MetaInfo / InterestParam object used for several packets, its fields edited between the packets (the usual way to
    #     segment an object: final_block_id set on the last segment only): every packet is what a fresh object would give
    from ndn.encoding import MetaInfo as _MI, InterestParam as _IP
    fbis = [None, G.tlv(50, b'\x09'), G.tlv(50, b'\x01\x00'), G.tlv(8, b'last')]
    for i in range(ctx.n(40, 600)):
        label, sg, _ = rng.choice(signers)
        mo = _MI()
        io = _IP()
        for step in range(rng.choice([2, 3, 4])):
            ma = dict(content_type=rng.choice([0, 0, 1, 2, 300, 1 << 33]), freshness_period=rng.choice([None, 0, 10, 255, 256, 4000, 65536, 1 << 33]),
                      final_block_id=rng.choice(fbis))
            one_data(ctx, M, [G.tlv(8, b'seg'), G.tlv(50, bytes([step]))], ma, rng.choice([b'', b'x', G.rand_bytes(rng, 40)]), sg,
                     label + '.shared-metainfo', meta_obj=mo)
            ipp = P.rand_interest_args(rng)[1]
            one_interest(ctx, M, [G.tlv(8, b'q'), G.tlv(8, bytes([65 + step]))], ipp, rng.choice([None, b'p']), sg,
                         label + '.shared-param', ip_obj=io)
    # 4. the size contract of the shipped signers (Model/SignerSizes.v, Generated/SignerSizes.v; C01_ecdsa_signature_fits)
    signer_sizes(ctx, M, keys)


CURVE_BITS = {'P-192': 192, 'P-224': 224, 'P-256': 256, 'P-384': 384, 'P-521': 521}


def signer_sizes(ctx, M, keys):
    """reserved size: the translated arithmetic against get_signature_value_size() of real signer objects on every
    prime curve; DER length model against real signatures (r, s read back from the DER bytes); oracle: a shipped signer
    never writes more than it reserved (signing through the real write_signature_value into a buffer of exactly the
    reserved size)."""
    from Cryptodome.PublicKey import ECC
    from Cryptodome.Util.asn1 import DerSequence
    from ndn.security.signer.sha256_ecdsa_signer import Sha256WithEcdsaSigner
    rng = ctx.rng
    fixed = M([22])
    by_label = {'ed25519': fixed[0], 'hmac': fixed[1], 'digest': fixed[2], 'null': fixed[3]}
    for label, sg, _ in keys.signers():
        if label in by_label:
            got = sg.get_signature_value_size()
            if got != by_label[label]:
                ctx.disagree('get_signature_value_size', 'different reserved size', {'signer': label}, by_label[label], got)
            buf = bytearray(got)
            n = sg.write_signature_value(memoryview(buf), [memoryview(b'covered')])
            if n != got:
                ctx.violation('write_signature_value', 'fixed-size-signer-length',
                              f'{label}: wrote {n} bytes, reserved {got}', {'signer': label})
            ctx.case(('sz', label), True, {'signer': label}, 'signer-size.' + label)
    for cname, bits in CURVE_BITS.items():
        if cname in keys.ec:
            key = keys.ec[cname]
        else:
            try:
                key = ECC.generate(curve=cname)
            except Exception:   # noqa  (curve not offered by this pycryptodome)
                ctx.stat('signer-size.curve-unavailable.' + cname)
                continue
        sg = Sha256WithEcdsaSigner('/key', key.export_key(format='DER'))
        case = {'signer': 'ecdsa-' + cname, 'curve_bits': bits}
        if getattr(sg, 'curve_bit', None) != bits:
            ctx.violation('Sha256WithEcdsaSigner.__init__', 'curve-size', f'curve_bit={getattr(sg, "curve_bit", None)} for {cname}', case)
        res = sg.get_signature_value_size()
        m = M([20, bits])
        if m != res:
            ctx.disagree('get_signature_value_size', 'different reserved size', case, m, res)
        lens = {}
        for i in range(ctx.n(40, 600)):
            covered = G.rand_bytes(rng, rng.choice([0, 1, 40, 300]))
            buf = bytearray(res)
            try:
                n = sg.write_signature_value(memoryview(buf), [memoryview(covered)])
            except Exception as e:   # noqa
                ctx.violation('write_signature_value', 'signature-exceeds-reserved',
                              f'{cname}: signing into the {res} reserved bytes raises {type(e).__name__}', {**case, 'covered': covered})
                continue
            sig = bytes(buf[:n])
            try:
                seq = DerSequence().decode(sig)
                r, s = int(seq[0]), int(seq[1])
            except Exception as e:   # noqa
                ctx.violation('write_signature_value', 'not-der', f'{cname}: {type(e).__name__}', {**case, 'sig': sig})
                continue
            ml = M([21, r, s])
            if ml != n:
                ctx.disagree('der_sig_len', 'different DER length', {**case, 'r': str(r), 's': str(s)}, ml, n)
            if not (0 < r < (1 << bits) and 0 < s < (1 << bits)):
                ctx.violation('write_signature_value', 'r-s-range', 'r or s outside [1, 2^bits)', {**case, 'sig': sig})
            if n > res:
                ctx.violation('write_signature_value', 'signature-exceeds-reserved', f'{cname}: wrote {n} > reserved {res}', {**case, 'sig': sig})
            lens[n] = lens.get(n, 0) + 1
            ctx.case(('sz', cname, i, sig), True, None, f'signer-size.ecdsa-{cname}.len{n}')
        # extreme r, s for the length model itself (smallest / largest residues, each sign-bit boundary)
        for r in (1, 127, 128, (1 << (bits - 1)) - 1, 1 << (bits - 1), (1 << bits) - 1):
            for s in (1, 255, 256, (1 << bits) - 1):
                want = len(DerSequence([r, s]).encode())
                ml = M([21, r, s])
                if ml != want:
                    ctx.disagree('der_sig_len', 'different DER length', {**case, 'r': str(r), 's': str(s)}, ml, want)
                if ml > res:
                    ctx.violation('get_signature_value_size', 'reserved-too-small',
                                  f'{cname}: a signature with r={r:#x}.. s={s:#x}.. takes {ml} bytes, {res} reserved', {**case, 'r': str(r), 's': str(s)})
                ctx.case(('szx', cname, r, s), True, None, f'signer-size.ecdsa-{cname}.extreme')
