"""C05 — nothing that requires validation reaches the application unvalidated.

Same operational model and specification as C03 (Model/ExpressPipeline.v, Spec/ExpressSpec.v).  Exhaustive tables embedded
in random surroundings:
 * Data side: every verdict (all ValidResult values + a validator raising TimeoutError; legacy: nine Python values of both
   truthinesses) x validator latency {at once, before, at (three tie linearisations), after the deadline, never};
 * Interest side, suspended validators: the validator of an incoming Interest takes its time while the application attaches /
   detaches routes or replaces the application-wide validator (Model/GateSuspend.v, suspended_table / random_susp);
 * validator OUTCOMES: wherever a validator is consulted it accepts, rejects or TERMINATES WITH AN EXCEPTION (every exception
   class of ndn.types + Exception / TimeoutError / CancelledError / OSError; at once or after a suspension): only an ACCEPT lets
   anything through to the handler / the caller;
 * Interest side, SEQUENCES on one application: a digest component that was right for one Interest re-used on packets with
   other parameters / names / signature elements, in every order, with retransmissions (reuse_table, inject_reuse);
 * Interest side: every verdict x ApplicationParameters present x signature {none, DigestSha256 ok, DigestSha256 bad}
   x parameters-digest correct x route with/without its own validator x no route, in both front-ends, x every
   placement of a replacement of the application-wide validator (legacy app.int_validator) relative to the installation
   of the routes ("the validator in force" is the one in force when the Interest is dispatched), plus random interleavings.
Correspondence (model vs real code) and direct oracles of the C05 clauses on the implementation's observations.
"""
from harness.props import _pipeline as P

RULE = ('Data side: verdict x latency table (6 resp. 9 verdict values x 8 latencies) each embedded in a random history of '
        '0-3 other Interests; Interest side: 5 (9) verdicts x params (absent / present / present-empty) x 3 signature classes x '
        'digest correctness x 6 names against routes with / without their own validator / no route, full product, repeated '
        'for every placement of "the application replaces its application-wide Interest validator" (legacy app.int_validator) '
        'relative to route installation and Interests: never, before the routes, AFTER the routes, between two routes, '
        'replaced then restored, restored before the routes then replaced, replaced twice (fresh validator object each time), '
        'across a shutdown with re-installation (9 placements legacy, 4 appv2 in quick / all in thorough); plus random '
        'interleavings of attach / replace-default / Interest / shutdown with independent Interest attributes; the oracle '
        'determines per Interest the validator in force from the history before it (extracted Spec.in_force / default_of) and '
        'checks delivery iff may_deliver, that exactly that validator object was consulted, and consultation before the handler; '
        'SUSPENDED INTEREST VALIDATORS UNDER ROUTE CHANGES (both front-ends; events arrive / ivdone / detach): a route /a (with / '
        'without its own validator; legacy: with / without a replaced application-wide validator), an Interest /a/b/h (6 params x '
        'signature classes, every verdict) whose validator SUSPENDS, and one update of the routing state placed before the arrival / '
        'IN THE WINDOW between arrival and verdict / after the verdict: nothing, attach a more specific route without / with a '
        'validator, attach the most specific / an unrelated route, detach the route, detach and re-attach the prefix without / with '
        'a validator (new handler), detach + attach a more specific one, replace / restore the application-wide validator, attach + '
        'detach again; optionally a second Interest (immediate / suspended, answered first) that meets the new table; corrupted '
        'digests; plus random interleavings of attach / detach / setdefault / suspending and immediate Interests / verdicts in any '
        'order. Oracle (any such history): every handler that receives an Interest was attached at a prefix of its name and the '
        'validator in force FOR THAT HANDLER (its own; legacy: else the application-wide one at arrival; appv2: none = rejection) '
        'accepted it (Spec.may_deliver / in_force) and was the one consulted, no double delivery, nothing delivered without a verdict, '
        'an accepted Interest whose route is unchanged is delivered; correspondence with Model/GateSuspend.v (handler calls, '
        'validator consultations). '
        'VALIDATOR OUTCOMES (every place a validator is consulted: route validators of both front-ends, the legacy application-wide '
        'Interest validator, the Data validator given to express of both front-ends): accept / reject (every verdict value) / '
        'TERMINATES WITH AN EXCEPTION, one outcome per exception class that ndn.types defines (reflected: NetworkError, '
        'InterestTimeout, InterestCanceled, InterestNack, ValidationFailure) and per built-in Exception, TimeoutError, CancelledError, '
        'OSError; raised at once or when a suspended validator is resumed. Interest side: the full params x signature x digest product '
        'against all routes under the placements after-routes and replaced-restored (legacy; appv2: never; thorough: all placements), '
        'every suspended-validator update in the window x route with / without validator x (legacy) replaced application-wide '
        'validator, and with probability 0.2 per Interest in the random interleavings; Data side: every exception x the 8 latencies, '
        'plus random pipeline histories whose immediate verdicts / vdone events are replaced by exceptions (p = 0.5). Oracle: a '
        'validator that raised has not accepted - handler called iff Spec.may_deliver with a non-passing verdict '
        '(delivered-unvalidated:...:verdict=raise:<Class>), and for ANY pipeline history an Interest completes with the payload only '
        'if some outcome the history gives its validator is an accepting verdict (data-without-accepting-verdict); that the exception '
        'itself escapes from the task the library created (legacy / appv2 Interests, appv2 Data) or reaches the awaiting caller (legacy '
        'Data) is not judged; '
        'SEQUENCES OF INTERESTS ON ONE APPLICATION, DIGEST COMPONENT RE-USED (both front-ends; one process, whatever the library keeps '
        'between packets is carried over): a right Interest O (unsigned / signed, non-empty ApplicationParameters unique per case and '
        'per Interest, so no digest was ever seen by the process before) and packets F carrying O\'s ParametersSha256DigestComponent '
        'over other parameters (non-empty / empty / none + signature) x signature class {none, ok, bad} x name {same, sibling, deeper '
        'route, other route}, in the orders O F / F O / O F F / O C F / O F C F / F O F (C = the very packet of O again, a '
        'retransmission, RIGHT) / O P G F and O G P F (two right Interests, components crossed; G before the Interest it copies from); '
        'every validator accepts, so only the digest check stands between F and a handler; in every second random interleaving '
        '(placement and suspended families) each Interest takes with probability 0.35 the component of another right Interest of the '
        'history or is its retransmission. Oracle unchanged (gate_oracle / susp_oracle): F has a wrong digest and never reaches a '
        'handler nor a validator (delivered-unvalidated:...:digest_ok=0(reuse):...), C is delivered; '
        'plus the C03 random histories with all verdicts. non-trivial = the validator is consulted or a gate decision is taken; '
        'distinct by history')
ASSUMPTIONS = ['validators are harness coroutines (verdict chosen by the history); the parameters digest / DigestSha256 '
               'signature are computed by the real encoder and corrupted by flipping one bit, or (digest) replaced by the '
               'digest component the real encoder computed for another Interest of the same history',
               'non-empty ApplicationParameters carry a counter unique per case of the run and the Interest id: state a '
               'library keeps per process (module level) cannot make the verdict on a case depend on the cases before it',
               'legacy front-end without a route validator: the application-wide int_validator is the library default '
               'sha256_digest_checker until a setdefault event assigns a harness validator to the documented attribute '
               'app.int_validator (and again after one restores the saved library default); appv2 has no application-wide '
               'validator, the event does nothing there',
               'a validator that terminates with an exception is given a non-passing verdict in the model vocabulary (V2: 5, V1: 0); '
               'appv2 Data validators that die with anything but TimeoutError / CancelledError are translated to "never answers" '
               '(their task dies, nobody resolves the future); legacy Data validators that raise: model and implementation are '
               'compared as "no payload, at the same virtual time" for that Interest (the caller gets the exception itself, the model '
               'a ValidationFailure); loop-handler reports whose exception IS the object a harness validator raised are set aside',
               'the application-wide Data validator (legacy app.data_validator, used when express_interest is given '
               'validator=None) is not exercised: every expressed Interest carries its own validator']

A, AB, ABC, X = P.A, P.AB, P.ABC, P.X
LATENCIES = ['imm', 'before', 'at0', 'at1', 'at2', 'after', 'never', 'just-before']

# VALIDATOR OUTCOMES.  A validator consulted by the library accepts, rejects (every verdict value) or TERMINATES WITH AN
# EXCEPTION ('raise:<Class>', _pipeline.raise_outcomes(): every exception class ndn.types defines + Exception, TimeoutError,
# CancelledError, OSError) - what a validator that fetches a certificate does when the fetch times out, is nacked or the
# face goes down.  A validator that raised has not accepted: nothing may reach the handler / the caller as valid.
_RAISES = []


def raises():
    if not _RAISES:
        _RAISES.extend(P.raise_outcomes())
    return _RAISES


def accepts(fe, v):
    """Did the validator ACCEPT (the only outcome after which a handler / the caller may get the packet)."""
    if P.is_raise(v):
        return False
    return (v in (3, 4)) if fe == 'v2' else P.v1_truth(v)


def vclass(v):
    return v if P.is_raise(v) else f'verdict:{v}'


def data_case(rng, fe, v, lat):
    """Interest 9 on /a/b with lifetime 100 expressed at t0; Data at t0+20; verdict v with the given latency."""
    h = []
    t0 = 0
    # surroundings: other Interests that must not be affected
    for i in range(rng.randint(0, 3)):
        h += P.ex(i, rng.choice([A, AB, X]), t0, life=rng.choice((50, 100, 300)), cbp=rng.random() < 0.5,
                  vm=('imm', rng.choice(P.verdicts(fe))) if rng.random() < 0.5 else ('def',), fe=fe)
        t0 += rng.choice((0, 10))
    vm = ('imm', v) if lat == 'imm' else ('def',)
    h += P.ex(9, AB, t0, life=100, vm=vm, fe=fe)
    D = t0 + 100
    h += [('data', 5, AB, t0 + 20, rng.choice((0, 0, 1, 2)))]
    if lat == 'before':
        h += [('vdone', 9, v, t0 + 50, rng.choice((0, 1, 2)))]
    elif lat == 'just-before':
        h += [('vdone', 9, v, D - 1, rng.choice((0, 1, 2)))]
    elif lat in ('at0', 'at1', 'at2'):
        h += [('vdone', 9, v, D, int(lat[2]))]
    elif lat == 'after':
        h += [('advance', D + 5), ('vdone', 9, v, D + 10, 0)]
    h += [('advance', D + 400)]
    if rng.random() < 0.3:
        h += [('data', 6, AB, D + 410, 0), ('vdone', 9, v, D + 420, 0)]
    return h, D


def data_oracle(ctx, fe, h, D, v, lat, r):
    """The clauses of C05 about Data, on the implementation's observations."""
    case = {'frontend': fe, 'history': h}
    site = ('appv2.PendingIntEntry.satisfy' if fe == 'v2' else 'app.NDNApp._wait_for_data')
    got = r['completion'].get(9)
    passes = accepts(fe, v)
    raised = P.is_raise(v)
    in_time = lat in ('imm', 'before', 'just-before')
    kind = got[0][0] if got else None
    if kind == 0:
        if not passes:
            ctx.violation(site, f'data-despite-verdict:{v}', f'payload returned although the validator answered {v}', case)
        elif not in_time and fe == 'v2':
            ctx.violation(site, f'data-after-deadline:{fe}',
                          f'payload returned although the validator finished at/after the deadline ({lat})', case)
        elif (9, 5) not in r['vcalls']:
            ctx.violation(site, 'data-without-validator', 'payload returned without the validator being consulted', case)
    if in_time and passes and kind != 0:
        ctx.violation(site, 'accepted-data-not-returned', f'validator accepted in time but the result is {got}', case)
    if in_time and raised and not (fe == 'v2' and v in P.RAISE_AS_TIMEOUT_V2):
        # the validator terminated with an exception: no verdict to report; whatever the caller gets (the exception, a
        # timeout), it is not the payload - checked above; appv2 has nothing to hand out before the deadline
        if fe == 'v2' and kind not in (None, 0, 3):
            ctx.violation(site, f'outcome-after-validator-exception:{kind}',
                          f'the validator terminated with {v}: expected a timeout at the deadline, got {got}', case)
    elif in_time and not passes:
        want_v = ({5: 1}.get(v, v) if fe == 'v2' else 0) if not raised else 1
        if kind != 1 or got[0][1] != 5 or got[0][2] != want_v:
            ctx.violation(site, f'failure-without-packet-or-verdict:{v}',
                          f'verdict {v} must yield ValidationFailure carrying the packet and the verdict, got {got}', case)
    if not in_time and fe == 'v1':
        if kind != 3:
            # one known finding, whatever the late verdict turns the result into (payload, failure, pending for ever)
            ctx.violation(site, 'validator-no-deadline',
                          f'legacy front-end: validator latency {lat} relative to the deadline, expected a timeout, got {got}', case)
    elif not in_time and kind not in (0, 3):
        ctx.violation(site, f'slow-validator-not-timeout:{kind}', f'validator latency {lat}: expected a timeout, got {got}', case)


def raised_ids(h):
    """Interests whose Data validator terminates with an exception somewhere in the history."""
    ids = set()
    for ev in h:
        if ev[0] == 'express' and ev[6][0] == 'imm' and P.is_raise(ev[6][1]):
            ids.add(ev[1])
        elif ev[0] == 'vdone' and P.is_raise(ev[2]):
            ids.add(ev[1])
    return ids


def inject_raises(rng, h, p=0.5):
    """Replace verdicts of Data validators (immediate ones and 'vdone' events) by 'terminates with an exception'."""
    out = []
    for ev in h:
        if ev[0] == 'express' and ev[6][0] == 'imm' and rng.random() < p:
            ev = ev[:6] + (('imm', rng.choice(raises())),) + ev[7:]
        elif ev[0] == 'vdone' and rng.random() < p:
            ev = ev[:2] + (rng.choice(raises()),) + ev[3:]
        out.append(ev)
    return out


def verdict_oracle(ctx, fe, h, r):
    """ANY history: an expressed Interest completes with the payload only if its validator ACCEPTED - some outcome the
    history gives that validator (its immediate one, or a 'vdone' event) is an accepting verdict; rejections and
    validators that terminate with an exception never are."""
    site = ('appv2.PendingIntEntry.satisfy' if fe == 'v2' else 'app.NDNApp._wait_for_data')
    given = {}
    for ev in h:
        if ev[0] == 'express':
            given.setdefault(ev[1], [])
            if ev[6][0] == 'imm':
                given[ev[1]].append(ev[6][1])
        elif ev[0] == 'vdone' and ev[1] in given:
            given[ev[1]].append(ev[2])
    for i, vs in given.items():
        got = r['completion'].get(i)
        if got is not None and got[0][0] == 0 and not any(accepts(fe, v) for v in vs):
            ctx.violation(site, 'data-without-accepting-verdict:' + (vclass(vs[0]) if vs else 'no-outcome'),
                          f'Interest {i} completed with the payload {got}; its validator never accepted '
                          f'(outcomes given by the history: {vs})', {'frontend': fe, 'history': h})
        if any(P.is_raise(v) for v in vs):
            ctx.stat(f'{fe}.data-validator-raised.' + ('payload' if got and got[0][0] == 0 else 'no-payload'))


def check_data(ctx, fe, h, tag):
    """check_history + verdict_oracle.  Legacy front-end with a Data validator that terminates with an exception: the
    exception reaches the awaiting caller as it is (the model knows 'the validator did not accept' -> ValidationFailure at
    the same moment); both sides are compared as 'no payload, at time t' for those Interests, everything else exactly."""
    rs = raised_ids(h)
    if fe == 'v2' or not rs:
        same, m, r = P.check_history(ctx, fe, h, tag, 'C05')
    else:
        h = P.fix_digest_names(h)
        m = P.run_model(ctx, fe, h)
        r = P.canon_impl(fe, P.run_impl(fe, h))

        def coarse(c):
            return {i: (((9,), t) if i in rs and o[0] != 0 else (o, t)) for i, (o, t) in c.items()}
        mc, rc = dict(m), dict(r)
        mc['completion'], rc['completion'] = coarse(m['completion']), coarse(r['completion'])
        same = P.compare(ctx, 'pipeline', fe, h, mc, rc)
        if r['errors'] or r['loop_errors']:
            ctx.violation('app.NDNApp._receive', 'internal-error:' + str((r['errors'] or r['loop_errors'])[0][1]),
                          f'internal error: {r["errors"]} {r["loop_errors"]}', {'frontend': fe, 'history': h})
        ctx.case((fe, tuple(map(repr, h))), len(h) > 2,
                 {'frontend': fe, 'tag': tag, 'history': h, 'model': m['completion'], 'impl': r['completion']}, f'{fe}.{tag}')
    verdict_oracle(ctx, fe, h, r)
    return same, m, r


def digest_class(dok):
    """'' for a right / bit-flipped digest; the way the digest component was obtained otherwise (part of the violation class)."""
    return ('(' + dok.split(':')[0] + ')') if isinstance(dok, str) else ''


ROUTES = [(A, True), (AB, False), (X, False)]          # attached prefixes: /a with a validator, /a/b and /x without
PROBES = [A + (7,), AB + (7,), X, (9,), A, ABC]          # names of the Interests sent at every probe point

# Where the application-wide validator (legacy app.int_validator) is replaced relative to the installation of the routes
# and to the Interests.  R = attach all routes, Ra = attach /a only, Rb = attach /a/b and /x, D1 = replace the
# application-wide validator by a (fresh) validator of the application, D0 = put the library default back,
# P = one Interest per probe name, S = shutdown (the legacy clean-up empties the route table), P1 = one Interest.
SCHEMES = {
    'never':            ['R', 'P'],
    'never+shutdown':   ['R', 'P', 'S', 'P1'],
    'before-routes':    ['D1', 'R', 'P'],
    'after-routes':     ['R', 'D1', 'P'],
    'between-routes':   ['Ra', 'D1', 'Rb', 'P'],
    'replaced-restored': ['R', 'D1', 'P', 'D0', 'P'],
    'restored-before-routes': ['D1', 'D0', 'R', 'P', 'D1', 'P'],
    'replaced-twice':   ['D1', 'R', 'D1', 'P'],
    'across-shutdown':  ['R', 'D1', 'S', 'P1', 'R', 'P', 'D0', 'P1'],
}


def py_lpm(table, name):
    best = None
    for p, hv in table:
        if tuple(name[:len(p)]) == tuple(p) and (best is None or len(p) > len(best[0])):
            best = (p, hv)
    return best


def build_gate_history(fe, steps, attrs, k0=0):
    """History for one placement scheme; attrs = (hp, sig, dok, verdict) of every Interest sent."""
    hp, sig, dok, v = attrs
    h, t, k = [], 0, k0
    table = []              # routes as the application installed them (re-installation of an existing one is skipped)
    shut = False

    def attach(routes):
        nonlocal t
        for p, hv in routes:
            if all(p != q for q, _ in table):
                h.append(('attach', p, hv, t))
                table.append((p, hv))
    for st in steps:
        t += 10
        if st == 'R':
            attach(ROUTES)
        elif st == 'Ra':
            attach(ROUTES[:1])
        elif st == 'Rb':
            attach(ROUTES[1:])
        elif st in ('D1', 'D0'):
            h.append(('setdefault', st == 'D1', t))
        elif st == 'S':
            if not shut:
                h.append(('shutdown', t, 0))
                shut = True
                if fe == 'v1':
                    table.clear()
        elif st in ('P', 'P1'):
            for n in (PROBES if st == 'P' else PROBES[:1]):
                h.append(('interest', k, n, hp, sig, dok, v, t))
                k += 1
                t += 1
    return h, k


def gate_oracle(ctx, fe, h, r, site):
    """The Interest clauses of C05 on the implementation's observations, for ANY history of attach / setdefault /
    interest / shutdown events: per Interest, the route (independent Python LPM over the routes installed so far), the
    validator in force (extracted Spec.in_force / default_of on the history BEFORE the Interest) and Spec.may_deliver."""
    case = {'frontend': fe, 'history': h}
    if r['errors'] or r['loop_errors']:
        ctx.violation(site, 'internal-error', f'{r["errors"]} {r["loop_errors"]}', case)
    called = {kk for _, kk in r['handler_calls']}
    who = {}
    for kk, w in r['ivwho']:
        who.setdefault(kk, []).append(tuple(w))
    table, ids = [], {}
    shut = False
    last_default = None          # generation of the harness validator currently installed as app.int_validator
    n_default = 0
    n_routes = 0
    for j, ev in enumerate(h):
        if ev[0] == 'attach':
            if all(ev[1] != q for q, _ in table):
                table.append((ev[1], ev[2]))
                ids[tuple(ev[1])] = n_routes
                n_routes += 1
        elif ev[0] == 'setdefault':
            if ev[1]:
                last_default = n_default
                n_default += 1
            else:
                last_default = None
        elif ev[0] == 'shutdown' and not shut:
            shut = True
            if fe == 'v1':
                table, n_routes = [], 0        # the legacy clean-up clears the prefix tree
        if ev[0] != 'interest':
            continue
        _, kk, n, hp, sig, dok, v, _t = ev
        how, dok = digest_class(dok), P.dok_true(dok)
        route = py_lpm(table, n)
        plain = (not hp) and sig == 0
        if route is None:
            if kk in called:
                ctx.violation(site, 'handler-without-route', 'handler called for a name without a route', case)
            if kk in who:
                ctx.violation(site, 'validator-without-route', 'a validator was consulted for a name without a route', case)
            continue
        own = bool(ctx.call([4, P.fe_num(fe), route[1], P.m_history(fe, h[:j])]))
        src = 'route' if route[1] else ('app-default' if own else 'none')
        cls = f'params={int(hp)}:sig={sig}:digest_ok={int(dok)}{how}:validator={src}:verdict={v}'
        allowed = ctx.call([3, P.fe_num(fe), own, [kk, list(n), hp, sig, dok, P.m_verdict(fe, v)]])
        if kk in called and not allowed:
            ctx.violation(site, 'delivered-unvalidated:' + cls,
                          'the handler was called for an Interest the specification does not allow to be delivered '
                          f'(validator in force: {src})', case)
        if kk not in called and allowed:
            ctx.violation(site, 'dropped-valid:' + cls, 'an acceptable Interest did not reach its handler '
                          f'(validator in force: {src})', case)
        if plain and kk in r['ivcalls']:
            ctx.violation(site, 'validator-consulted-for-plain', 'a plain Interest was handed to a validator', case)
        needs = (hp or sig != 0) if fe == 'v2' else (sig != 0)
        if kk in called and needs and own and not r['validated_before'].get(kk, False):
            ctx.violation(site, 'handler-before-validator:' + cls,
                          'the handler ran before the validator in force was consulted', case)
        # WHICH validator decided: exactly the one in force (the route's own, else the application-wide one as last set)
        if needs and dok and not plain:
            want = [('route', ids[tuple(route[0])])] if route[1] else ([('default', last_default)] if own else [])
            got = who.get(kk, [])
            if got != want:
                ctx.violation(site, f'wrong-validator-consulted:in-force={src}:consulted={got[0][0] if got else None}',
                              f'Interest {kk}: the validator in force is {want or "the library default"}, '
                              f'the application-supplied validators consulted were {got}', case)
        ctx.stat(f'{fe}.in-force.{src}')
        if how:
            ctx.stat(f'{fe}.digest{how}.' + ('handler-called' if kk in called else 'dropped'))
        if P.is_raise(v) and kk in who:
            ctx.stat(f'{fe}.interest-validator-raised.{src}.' + ('handler-called' if kk in called else 'dropped'))


# placements under which EVERY validator outcome 'terminates with an exception' is tried in the quick tier (thorough: all
# placements): together they consult the route's own validator, the replaced application-wide one (legacy) and, after it
# was restored, the library default again
RAISE_SCHEMES = {'v1': ('after-routes', 'replaced-restored'), 'v2': ('never',)}


def interest_table(ctx, fe, only=None):
    site = ('appv2.NDNApp._on_interest' if fe == 'v2' else 'app.NDNApp._on_interest')
    for scheme, steps in SCHEMES.items():
        if only is not None and scheme != only:
            continue
        if fe == 'v2' and not ctx.thorough and scheme not in ('never', 'never+shutdown', 'after-routes', 'across-shutdown'):
            continue          # appv2 has no application-wide validator: quick keeps four placements, thorough all
        outcomes = list(range(5) if fe == 'v2' else range(len(P.V1_VALUES)))
        if ctx.thorough or scheme in RAISE_SCHEMES[fe]:
            outcomes += raises()
        for v in outcomes:
            for hp in (False, True, 2):
                for sig in (0, 1, 2):
                    for dok in (True, False):
                        if not hp and sig == 0 and not dok:
                            continue          # a plain Interest has no parameters digest to get wrong
                        h, _ = build_gate_history(fe, steps, (hp, sig, dok, v))
                        m = P.run_model(ctx, fe, h)
                        r = P.canon_impl(fe, P.run_impl(fe, h))
                        P.compare(ctx, 'on_interest', fe, h, m, r)
                        gate_oracle(ctx, fe, h, r, site)
                        ctx.case((fe, 'int', scheme, v, hp, sig, dok), True,
                                 {'frontend': fe, 'scheme': scheme,
                                  'interest': {'params': hp, 'sig': sig, 'digest_ok': dok, 'verdict': v},
                                  'delivered': sorted({kk for _, kk in r['handler_calls']})},
                                 f'{fe}.interest.{scheme}.params={int(hp)}.sig={sig}.dok={int(dok)}')


# =================================================================================================
# SEQUENCES of incoming Interests on one application: a digest component that was right once is used again
# =================================================================================================
# "... is dropped unless its parameters digest is correct" speaks about EVERY Interest, whatever the application received
# before it.  One application (one process: whatever the library remembers between packets is carried over) receives a
# right Interest O (non-empty ApplicationParameters that no case of this run has used before, unsigned / signed) and
# packets F that carry O's ParametersSha256DigestComponent over other parameters / another name / other signature
# elements - so their digest is wrong - in every order, with repeats and retransmissions (C = O's very packet again, right).
R_ROUTES = [(A, True), (AB, False), (X, True)]
R_ORIG_NAME = A + (7,)
R_NAMES = {'same-name': A + (7,), 'sibling': A + (8,), 'deeper-route': AB + (7,), 'other-route': X + (7,)}
R_ORIG = [(True, 0), (True, 1)]                                    # (params, signature class) of the right Interest
R_FORGED = [(True, 0), (True, 1), (2, 0), (False, 1), (True, 2), (2, 1)]     # ... of the packet carrying the re-used component
R_ORDERS = {
    'right-then-forged': 'OF',
    'forged-then-right': 'FO',
    'right-forged-forged': 'OFF',
    'right-retransmitted-forged': 'OCF',
    'right-forged-retransmitted-forged': 'OFCF',
    'forged-right-forged': 'FOF',
    'two-rights-crossed': 'OPGF',          # P: a second right Interest (other route); G re-uses P's component, F re-uses O's
    'two-rights-forged-between': 'OGPF',   # G comes BEFORE the right Interest whose component it carries
}


def reuse_history(fe, order, o_attrs, f_attrs, f_name):
    ok = P.PASS[fe]                 # every validator accepts: only the digest check stands between F and a handler
    h = [('attach', p, hv, 10) for p, hv in R_ROUTES]
    at = {c: order.index(c) for c in 'OP' if c in order}
    t = 20
    for k, c in enumerate(order):
        t += 10
        if c == 'O':
            h.append(('interest', k, R_ORIG_NAME, o_attrs[0], o_attrs[1], True, ok, t))
        elif c == 'P':
            h.append(('interest', k, X + (9,), True, 1 - o_attrs[1], True, ok, t))
        elif c == 'C':
            h.append(('interest', k, R_ORIG_NAME, o_attrs[0], o_attrs[1], 'copy:%d' % at['O'], ok, t))
        else:
            h.append(('interest', k, f_name, f_attrs[0], f_attrs[1], 'reuse:%d' % at['O' if c == 'F' else 'P'], ok, t))
    return h


def reuse_table(ctx, fe):
    site = ('appv2.NDNApp._on_interest' if fe == 'v2' else 'app.NDNApp._on_interest')
    for oname, order in R_ORDERS.items():
        for o_attrs in R_ORIG:
            for f_attrs in R_FORGED:
                for nname, f_name in R_NAMES.items():
                    h = reuse_history(fe, order, o_attrs, f_attrs, f_name)
                    m = P.run_model(ctx, fe, h)
                    r = P.canon_impl(fe, P.run_impl(fe, h))
                    P.compare(ctx, 'on_interest', fe, h, m, r)
                    gate_oracle(ctx, fe, h, r, site)
                    ctx.case((fe, 'reuse', oname, o_attrs, f_attrs, nname), True,
                             {'frontend': fe, 'order': oname, 'right': o_attrs, 'forged': f_attrs, 'forged_name': nname,
                              'delivered': sorted({kk for _, kk in r['handler_calls']})},
                             f'{fe}.interest.digest-reuse.{oname}')


def inject_reuse(rng, h, p=0.35):
    """Random histories: with probability p an Interest takes the digest component of ANOTHER Interest of the history
    (earlier or later) whose digest is right and whose parameters are non-empty, hence unique - or is that packet again."""
    ints = [ev for ev in h if ev[0] in ('interest', 'arrive')]
    mod = {ev[1] for ev in ints if rng.random() < p}
    cands = [ev for ev in ints if ev[1] not in mod and ev[3] is True and ev[5] is True]
    out = []
    for ev in h:
        if ev[0] in ('interest', 'arrive') and ev[1] in mod and cands:
            c = rng.choice(cands)
            if rng.random() < 0.25:
                ev = ev[:2] + (c[2], c[3], c[4], 'copy:%d' % c[1]) + ev[6:]
            elif ev[3] or ev[4]:
                ev = ev[:5] + ('reuse:%d' % c[1],) + ev[6:]
        out.append(ev)
    return out


def rand_gate_history(rng, fe):
    """Random interleaving of route installation, replacement of the application-wide validator, Interests with
    independent attributes and at most one shutdown."""
    h, t, k = [], 0, 0
    installed = set()
    shut = False
    pool = [(A, rng.random() < 0.5), (AB, rng.random() < 0.5), (X, rng.random() < 0.5), (ABC, rng.random() < 0.5)]
    for _ in range(rng.randint(4, 14)):
        t += rng.choice((1, 5, 10))
        a = rng.choice(['attach'] * 3 + ['setdefault'] * 3 + ['interest'] * 6 + ['shutdown'])
        if a == 'attach':
            cand = [x for x in pool if x[0] not in installed]
            if cand:
                p, hv = rng.choice(cand)
                installed.add(p)
                h.append(('attach', p, hv, t))
        elif a == 'setdefault':
            h.append(('setdefault', rng.random() < 0.7, t))
        elif a == 'shutdown':
            if not shut and rng.random() < 0.4:
                shut = True
                h.append(('shutdown', t, 0))
                if fe == 'v1':
                    installed.clear()
        else:
            hp = rng.choice((False, True, 2))
            sig = rng.choice((0, 1, 1, 2))
            dok = True if (not hp and sig == 0) else rng.random() < 0.8
            v = rng.choice(range(5) if fe == 'v2' else range(len(P.V1_VALUES)))
            if rng.random() < 0.2:
                v = rng.choice(raises())          # the validator (if one is consulted) terminates with an exception
            h.append(('interest', k, rng.choice(PROBES), hp, sig, dok, v, t))
            k += 1
    return h


def random_gate(ctx, fe, n):
    site = ('appv2.NDNApp._on_interest' if fe == 'v2' else 'app.NDNApp._on_interest')
    for j in range(n):
        h = rand_gate_history(ctx.rng, fe)
        if j % 2:
            h = inject_reuse(ctx.rng, h)
        m = P.run_model(ctx, fe, h)
        r = P.canon_impl(fe, P.run_impl(fe, h))
        P.compare(ctx, 'on_interest', fe, h, m, r)
        gate_oracle(ctx, fe, h, r, site)
        ctx.case((fe, 'gate', tuple(map(repr, h))), any(e[0] == 'interest' for e in h),
                 {'frontend': fe, 'history': h, 'delivered': sorted({kk for _, kk in r['handler_calls']})}, f'{fe}.interest.random')

# =================================================================================================
# Suspended Interest validators: the routes change between the arrival of an Interest and its verdict
# =================================================================================================
# "... reaches its handler only after the validator in force accepted it ... (where a missing validator means
# rejection)": a handler and the validator it was attached with belong together.  A validator that takes its time (it
# fetches a certificate) leaves a window in which the application attaches / detaches routes or replaces the
# application-wide validator; whatever handler finally gets the Interest, the validator in force FOR THAT HANDLER'S ROUTE
# must have accepted it.
S_NAME = AB + (7,)                   # the Interest /a/b/h ; routes below are prefixes of it or unrelated
S_UPDATES = {
    # name: events (without times) applied in the window; A/D = attach / detach (prefix, has validator)
    'none':                 [],
    'attach-specific-nov':  [('A', AB, False)],
    'attach-specific-v':    [('A', AB, True)],
    'attach-most-specific': [('A', S_NAME, False)],
    'attach-unrelated':     [('A', X, False)],
    'detach':               [('D', A)],
    'reattach-nov':         [('D', A), ('A', A, False)],
    'reattach-v':           [('D', A), ('A', A, True)],
    'detach-attach-specific': [('D', A), ('A', AB, False)],
    'replace-default':      [('S', True)],
    'restore-default':      [('S', False)],
    'attach-specific-detach-again': [('A', AB, False), ('D', AB)],
}
S_ATTRS = [(True, 0), (False, 1), (True, 1), (2, 0), (False, 0), (False, 2)]     # (params, signature class)


def susp_history(fe, base_v, upd, where, attrs, v, dflt0=False, second=None, dok=True):
    """/a attached (validator: base_v); Interest 0 = S_NAME arrives, its validator suspends; the update [upd] happens
    before the arrival / in the window / after the verdict; verdict v.  second: None | 'imm' | 'susp' - another Interest
    on the same name arrives after the update (it meets the NEW table) and, if suspended, is answered BEFORE Interest 0."""
    hp, sig = attrs
    h, t = [], 0

    def tick():
        nonlocal t
        t += 10
        return t
    if dflt0:
        h.append(('setdefault', True, tick()))
    h.append(('attach', A, base_v, tick()))

    def update():
        for u in S_UPDATES[upd]:
            if u[0] == 'A':
                h.append(('attach', u[1], u[2], tick()))
            elif u[0] == 'D':
                h.append(('detach', u[1], tick()))
            else:
                h.append(('setdefault', u[1], tick()))
    if where == 'before':
        update()
    h.append(('arrive', 0, S_NAME, hp, sig, dok, tick()))
    if where == 'window':
        update()
    if second == 'imm':
        h.append(('interest', 1, S_NAME, hp, sig, True, v, tick()))
    elif second == 'susp':
        h.append(('arrive', 1, S_NAME, hp, sig, True, tick()))
        h.append(('ivdone', 1, v, tick()))
    h.append(('ivdone', 0, v, tick()))
    if where == 'after':
        update()
    h.append(('advance', tick() + 50))
    return h


def rand_susp_history(rng, fe):
    """Random interleaving of attach / detach / replace-default / arriving Interests (suspending or not) / verdicts."""
    h, t, k = [], 0, 0
    table = {}
    waiting = []
    pool = [A, AB, S_NAME, X, ABC]
    nv = 5 if fe == 'v2' else len(P.V1_VALUES)

    def some_verdict():
        return rng.choice(raises()) if rng.random() < 0.2 else rng.randrange(nv)
    for _ in range(rng.randint(5, 16)):
        t += rng.choice((1, 5, 10))
        a = rng.choice(['attach'] * 4 + ['detach'] * 3 + ['setdefault'] * 2 + ['arrive'] * 5 + ['interest'] * 2 + ['ivdone'] * 5)
        if a == 'attach':
            cand = [p for p in pool if p not in table]
            if cand:
                p = rng.choice(cand)
                table[p] = rng.random() < 0.5
                h.append(('attach', p, table[p], t))
        elif a == 'detach':
            if table:
                p = rng.choice(sorted(table))
                del table[p]
                h.append(('detach', p, t))
        elif a == 'setdefault':
            h.append(('setdefault', rng.random() < 0.7, t))
        elif a == 'ivdone':
            if waiting:
                kk = waiting.pop(rng.randrange(len(waiting)))
                h.append(('ivdone', kk, rng.choice((P.PASS[fe], P.PASS[fe], some_verdict())), t))
        else:
            hp = rng.choice((False, True, 2))
            sig = rng.choice((0, 1, 1, 2))
            dok = True if (not hp and sig == 0) else rng.random() < 0.85
            n = rng.choice([S_NAME, S_NAME, AB, ABC, X, (9,)])
            if a == 'arrive':
                h.append(('arrive', k, n, hp, sig, dok, t))
                waiting.append(k)
            else:
                h.append(('interest', k, n, hp, sig, dok, rng.choice((P.PASS[fe], some_verdict())), t))
            k += 1
    for kk in waiting:
        if rng.random() < 0.8:
            t += 5
            h.append(('ivdone', kk, rng.choice((P.PASS[fe], some_verdict())), t))
    h.append(('advance', t + 100))
    return h


def m_gevents(fe, h):
    """The history in the vocabulary of Model/GateSuspend.v."""
    out = []
    for ev in h:
        tag = ev[0]
        if tag == 'attach':
            out.append([0, list(ev[1]), ev[2]])
        elif tag == 'detach':
            out.append([1, list(ev[1])])
        elif tag == 'setdefault':
            out.append([2, ev[1]])
        elif tag == 'arrive':
            _, k, n, hp, sig, dok, _t = ev
            out.append([3, [k, list(n), hp, sig, P.dok_true(dok), 0], 1])
        elif tag == 'interest':
            _, k, n, hp, sig, dok, v, _t = ev
            out.append([3, [k, list(n), hp, sig, P.dok_true(dok), P.m_verdict(fe, v)], 0])
        elif tag == 'ivdone':
            out.append([4, ev[1], P.m_verdict(fe, ev[2])])
    return out


def susp_oracle(ctx, fe, h, r, site):
    """Property oracle for histories with suspended Interest validators and route changes (any such history)."""
    case = {'frontend': fe, 'history': h}
    if r['errors'] or r['loop_errors']:
        ctx.violation(site, 'internal-error', f'{r["errors"]} {r["loop_errors"]}', case)
    delivered = {}
    for hd, kk in r['handler_calls']:
        delivered.setdefault(kk, []).append(hd)
    who = {}
    for kk, w in r['ivwho']:
        who.setdefault(kk, []).append(tuple(w))
    table = {}                   # prefix -> handler id (routes attached now)
    att = {}                     # handler id -> (prefix, has validator): every attachment ever made
    n_att = 0
    sd_before = []               # the setdefault events so far (what Spec.default_of looks at)
    last_default, n_default = None, 0
    info = {}                    # k -> what was in force when it arrived
    for j, ev in enumerate(h):
        tag = ev[0]
        if tag == 'attach':
            table[tuple(ev[1])] = n_att
            att[n_att] = (tuple(ev[1]), ev[2])
            n_att += 1
        elif tag == 'detach':
            table.pop(tuple(ev[1]), None)
        elif tag == 'setdefault':
            sd_before.append(ev)
            if ev[1]:
                last_default, n_default = n_default, n_default + 1
            else:
                last_default = None
        elif tag in ('arrive', 'interest'):
            kk, n, hp, sig, dok = ev[1:6]
            route = py_lpm([(p, hd) for p, hd in table.items()], n)
            info[kk] = {'name': n, 'hp': hp, 'sig': sig, 'dok': dok, 'route': route, 'sd': list(sd_before),
                        'default': last_default, 'verdict': ev[6] if tag == 'interest' else None,
                        'suspends': tag == 'arrive', 'table_at_verdict': dict(table) if tag == 'interest' else None}
        elif tag == 'ivdone':
            i = info.get(ev[1])
            if i is not None and i['suspends'] and i['verdict'] is None:
                i['verdict'] = ev[2]
                i['table_at_verdict'] = dict(table)
    for kk, i in sorted(info.items()):
        n, hp, sig, dok = i['name'], i['hp'], i['sig'], P.dok_true(i['dok'])
        how = digest_class(i['dok'])
        plain = (not hp) and sig == 0
        needs = (hp or sig != 0) if fe == 'v2' else (sig != 0)
        got = delivered.get(kk, [])
        v = i['verdict']
        mv = P.m_verdict(fe, v) if v is not None else 0          # no verdict (yet): nobody accepted
        hist = P.m_history(fe, i['sd'])

        def allowed_on(hasv):
            own = bool(ctx.call([4, P.fe_num(fe), hasv, hist]))
            return own, bool(ctx.call([3, P.fe_num(fe), own, [kk, list(n), hp, sig, dok, mv]]))
        if len(got) > 1:
            ctx.violation(site, 'delivered-twice', f'Interest {kk} reached handlers {got}', case)
        cls = f'params={int(hp)}:sig={sig}:digest_ok={int(dok)}{how}:verdict={v}'
        for hd in got:
            pfx, hasv = att[hd]
            arrival = i['route'] is not None and i['route'][1] == hd
            own, ok = allowed_on(hasv)
            rel = 'arrival-route' if arrival else 'route-changed-during-validation'
            if tuple(n[:len(pfx)]) != pfx:
                ctx.violation(site, 'handler-of-foreign-prefix', f'Interest {kk} {n} reached the handler attached at {pfx}', case)
            elif not ok:
                ctx.violation(site, f'delivered-unvalidated:{rel}:validator={"own" if hasv else ("app-default" if own else "none")}:' + cls,
                              f'Interest {kk} reached handler {hd} (attached at {pfx}, validator: {hasv}); the validator in force '
                              f'for that handler did not accept it (a missing validator means rejection)', case)
            elif needs and dok and own:
                want = ('route', hd) if hasv else ('default', i['default'])
                if want not in who.get(kk, []):
                    ctx.violation(site, f'handler-validator-not-consulted:{rel}:consulted={who.get(kk, [[None]])[0][0]}',
                                  f'Interest {kk} reached handler {hd} (attached at {pfx}) but the validator in force for it '
                                  f'({want}) was never asked; consulted: {who.get(kk, [])}', case)
            if needs and own and not r['validated_before'].get(kk, False):
                ctx.violation(site, 'handler-before-validator:' + cls, 'the handler ran before a validator was consulted', case)
        # an acceptable Interest is not lost: its route is still attached when the verdict is there
        if i['route'] is not None and i['table_at_verdict'] is not None:
            pfx, hd0 = i['route']
            now = py_lpm(list(i['table_at_verdict'].items()), n)
            still = i['table_at_verdict'].get(tuple(pfx)) == hd0 and now is not None and now[1] == hd0
            own, ok = allowed_on(att[hd0][1])
            if still and ok and (v is not None or not (needs and own)) and not got:
                ctx.violation(site, 'dropped-valid:' + cls, f'Interest {kk} was accepted by the validator in force and its route '
                              f'is unchanged, but no handler was called', case)
        if i['route'] is None and (got or kk in who):
            ctx.violation(site, 'handler-or-validator-without-route', f'Interest {kk} had no route when it arrived', case)
        if plain and kk in who:
            ctx.violation(site, 'validator-consulted-for-plain', 'a plain Interest was handed to a validator', case)
        ctx.stat(f'{fe}.suspended.' + ('no-route' if i['route'] is None else 'delivered' if got else 'dropped'))
        if how:
            ctx.stat(f'{fe}.digest{how}.' + ('handler-called' if got else 'dropped'))
        if P.is_raise(v) and kk in who:
            ctx.stat(f'{fe}.interest-validator-raised.' + ('suspended.' if i['suspends'] else 'at-once.')
                     + ('handler-called' if got else 'dropped'))


def run_susp(ctx, fe, h, key, sample, stratum):
    site = ('appv2.NDNApp._on_interest' if fe == 'v2' else 'app.NDNApp._on_interest')
    r = P.canon_impl(fe, P.run_impl(fe, h))
    m = ctx.call([5, P.fe_num(fe), m_gevents(fe, h)])
    mh = [tuple(x) for x in m[0]]
    if mh != r['handler_calls'] or list(m[1]) != r['ivcalls']:
        ctx.disagree(f'on_interest.suspended[{fe}]', 'handler invocations / validator consultations differ (Model/GateSuspend.v)',
                     {'frontend': fe, 'history': h}, [mh, list(m[1])], [r['handler_calls'], r['ivcalls']])
    susp_oracle(ctx, fe, h, r, site)
    sample = dict(sample)
    sample.update({'frontend': fe, 'delivered': r['handler_calls']})
    ctx.case(key, any(e[0] == 'arrive' for e in h), sample, stratum)


def suspended_table(ctx, fe):
    nv = 5 if fe == 'v2' else len(P.V1_VALUES)
    verdicts = list(range(nv))
    for upd in S_UPDATES:
        for where in ('before', 'window', 'after'):
            for base_v in (True, False):
                for attrs in (S_ATTRS if (ctx.thorough or where == 'window') else S_ATTRS[:3]):
                    for v in verdicts:
                        for dflt0 in ((False, True) if fe == 'v1' else (False,)):
                            seconds = (None, 'imm', 'susp') if (ctx.thorough or (where == 'window' and v == P.PASS[fe])) else (None,)
                            for second in seconds:
                                h = susp_history(fe, base_v, upd, where, attrs, v, dflt0, second)
                                run_susp(ctx, fe, h, (fe, 'susp', upd, where, base_v, attrs, v, dflt0, second),
                                         {'update': upd, 'where': where, 'route_validator': base_v, 'attrs': attrs, 'verdict': v},
                                         f'{fe}.suspended.{upd}.{where}')
    n_rot = 0
    # the suspended validator TERMINATES WITH AN EXCEPTION when it is resumed (the certificate fetch it was waiting for
    # timed out / was nacked / the face went down): every exception class x every update of the routing state in the window
    # (thorough: also before / after, all attribute classes, a second Interest that is accepted)
    for upd in S_UPDATES:
        for where in (('before', 'window', 'after') if ctx.thorough else ('window',)):
            for base_v in (True, False):
                # quick: the attribute classes whose validator is consulted (legacy: the signed ones)
                for attrs in (S_ATTRS if ctx.thorough else S_ATTRS[:3] if fe == 'v2' else S_ATTRS[1:3]):
                    # quick: three exception classes per combination, rotating (every class meets every update at least
                    # once); thorough: the full product
                    n_rot += 1
                    R = raises()
                    for v in (R if ctx.thorough else [R[(3 * n_rot + j) % len(R)] for j in range(3)]):
                        for dflt0 in ((False, True) if fe == 'v1' else (False,)):
                            for second in ((None, 'susp') if ctx.thorough else (None,)):
                                h = susp_history(fe, base_v, upd, where, attrs, v, dflt0, second)
                                if second is not None:
                                    # the second Interest (answered first) is ACCEPTED, the first one's validator raises
                                    h = [(e[:2] + (P.PASS[fe],) + e[3:]) if e[0] == 'ivdone' and e[1] == 1 else e for e in h]
                                run_susp(ctx, fe, h, (fe, 'susp-raise', upd, where, base_v, attrs, v, dflt0, second),
                                         {'update': upd, 'where': where, 'route_validator': base_v, 'attrs': attrs, 'verdict': v},
                                         f'{fe}.suspended-raises.{upd}.{where}')
    # corrupted digest: dropped before any validator, whatever happens to the routes
    for upd in S_UPDATES:
        for attrs in S_ATTRS[:4]:
            h = susp_history(fe, True, upd, 'window', attrs, P.PASS[fe], False, None, dok=False)
            run_susp(ctx, fe, h, (fe, 'susp-baddigest', upd, attrs), {'update': upd, 'attrs': attrs}, f'{fe}.suspended.bad-digest')


def random_susp(ctx, fe, n):
    for j in range(n):
        h = rand_susp_history(ctx.rng, fe)
        if j % 2:
            h = inject_reuse(ctx.rng, h)
        run_susp(ctx, fe, h, (fe, 'susp-rand', tuple(map(repr, h))), {'history': h}, f'{fe}.suspended.random')


def run(ctx):
    from ndn.types import ValidResult as VR
    names = [m.name for m in sorted(VR, key=lambda m: m.value)]
    if names != ['FAIL', 'TIMEOUT', 'SILENCE', 'PASS', 'ALLOW_BYPASS']:
        ctx.disagree('types.ValidResult', 'the enum no longer has the five members the verdict table quantifies over',
                     names, ['FAIL', 'TIMEOUT', 'SILENCE', 'PASS', 'ALLOW_BYPASS'], names)
    for fe in ('v2', 'v1'):
        interest_table(ctx, fe)
        reuse_table(ctx, fe)
        random_gate(ctx, fe, ctx.n(200, 6000))
        suspended_table(ctx, fe)
        random_susp(ctx, fe, ctx.n(300, 6000))
        reps = ctx.n(3, 60)
        for _ in range(reps):
            for v in P.verdicts(fe) + raises():
                for lat in LATENCIES:
                    h, D = data_case(ctx.rng, fe, v, lat)
                    same, m, r = check_data(ctx, fe, h, f'verdict.{lat}')
                    data_oracle(ctx, fe, h, D, v, lat, r)
        for tag, h in P.targeted(fe):
            check_data(ctx, fe, h, 'targeted.' + tag)
        for k in range(ctx.n(300, 10000)):
            h = P.rand_history(ctx.rng, fe, wf=True)
            check_data(ctx, fe, h, 'random')
        # the same random histories with Data validators that terminate with an exception instead of answering
        for k in range(ctx.n(200, 5000)):
            h = inject_raises(ctx.rng, P.rand_history(ctx.rng, fe, wf=True))
            if raised_ids(h):
                check_data(ctx, fe, h, 'random-raises')


def replay(ctx, data):
    case = data['case']
    if any(e[0] in ('arrive', 'ivdone', 'detach') for e in case['history']):
        c = P.unjson_case(case)
        run_susp(ctx, c['frontend'], c['history'], ('replay',), {}, 'replay')
        return
    if any(e[0] in ('attach', 'interest', 'setdefault') for e in case['history']):
        c = P.unjson_case(case)
        fe, h = c['frontend'], c['history']
        m = P.run_model(ctx, fe, h)
        r = P.canon_impl(fe, P.run_impl(fe, h))
        P.compare(ctx, 'on_interest', fe, h, m, r)
        gate_oracle(ctx, fe, h, r, 'appv2.NDNApp._on_interest' if fe == 'v2' else 'app.NDNApp._on_interest')
        return
    c = P.unjson_case(case)
    check_data(ctx, c['frontend'], c['history'], 'replay')
