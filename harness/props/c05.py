"""C05 — nothing that requires validation reaches the application unvalidated.

Same operational model and specification as C03 (Model/ExpressPipeline.v, Spec/ExpressSpec.v).  Exhaustive tables embedded
in random surroundings:
 * Data side: every verdict (all ValidResult values + a validator raising TimeoutError; legacy: nine Python values of both
   truthinesses) x validator latency {at once, before, at (three tie linearisations), after the deadline, never};
 * Interest side: every verdict x ApplicationParameters present x signature {none, DigestSha256 ok, DigestSha256 bad}
   x parameters-digest correct x route with/without its own validator x no route, in both front-ends.
Correspondence (model vs real code) and direct oracles of the C05 clauses on the implementation's observations.
"""
from harness.props import _pipeline as P

RULE = ('Data side: verdict x latency table (6 resp. 9 verdict values x 8 latencies) each embedded in a random history of '
        '0-3 other Interests; Interest side: 5 (9) verdicts x params x 3 signature classes x digest correctness x 4 route '
        'situations, full product; plus the C03 random histories with all verdicts. non-trivial = the validator is '
        'consulted or a gate decision is taken; distinct by history')
ASSUMPTIONS = ['validators are harness coroutines (verdict chosen by the history); the parameters digest / DigestSha256 '
               'signature are computed by the real encoder and corrupted by flipping one bit',
               'legacy front-end without a route validator: the application-wide int_validator is the library default '
               'sha256_digest_checker']

A, AB, ABC, X = P.A, P.AB, P.ABC, P.X
LATENCIES = ['imm', 'before', 'at0', 'at1', 'at2', 'after', 'never', 'just-before']


def data_case(rng, fe, v, lat):
    """Interest 9 on /a/b with lifetime 100 expressed at t0; Data at t0+20; verdict v with the given latency."""
    h = []
    t0 = 0
    # surroundings: other Interests that must not be affected
    for i in range(rng.randint(0, 3)):
        h += P.ex(i, rng.choice([A, AB, X]), t0, life=rng.choice((50, 100, 300)), cbp=rng.random() < 0.5,
                  vm=('imm', rng.choice(P.verdicts(fe))) if rng.random() < 0.5 else ('def',), fe=fe)
        t0 += rng.choice((0, 10))
    vm = ('imm', v) if lat == 'imm' else ('def',)
    h += P.ex(9, AB, t0, life=100, vm=vm, fe=fe)
    D = t0 + 100
    h += [('data', 5, AB, t0 + 20, rng.choice((0, 0, 1, 2)))]
    if lat == 'before':
        h += [('vdone', 9, v, t0 + 50, rng.choice((0, 1, 2)))]
    elif lat == 'just-before':
        h += [('vdone', 9, v, D - 1, rng.choice((0, 1, 2)))]
    elif lat in ('at0', 'at1', 'at2'):
        h += [('vdone', 9, v, D, int(lat[2]))]
    elif lat == 'after':
        h += [('advance', D + 5), ('vdone', 9, v, D + 10, 0)]
    h += [('advance', D + 400)]
    if rng.random() < 0.3:
        h += [('data', 6, AB, D + 410, 0), ('vdone', 9, v, D + 420, 0)]
    return h, D


def data_oracle(ctx, fe, h, D, v, lat, r):
    """The clauses of C05 about Data, on the implementation's observations."""
    case = {'frontend': fe, 'history': h}
    site = ('appv2.PendingIntEntry.satisfy' if fe == 'v2' else 'app.NDNApp._wait_for_data')
    got = r['completion'].get(9)
    passes = (v in (3, 4)) if fe == 'v2' else P.v1_truth(v)
    in_time = lat in ('imm', 'before', 'just-before')
    kind = got[0][0] if got else None
    if kind == 0:
        if not passes:
            ctx.violation(site, f'data-despite-verdict:{v}', f'payload returned although the validator answered {v}', case)
        elif not in_time and fe == 'v2':
            ctx.violation(site, f'data-after-deadline:{fe}',
                          f'payload returned although the validator finished at/after the deadline ({lat})', case)
        elif (9, 5) not in r['vcalls']:
            ctx.violation(site, 'data-without-validator', 'payload returned without the validator being consulted', case)
    if in_time and passes and kind != 0:
        ctx.violation(site, 'accepted-data-not-returned', f'validator accepted in time but the result is {got}', case)
    if in_time and not passes:
        want_v = {5: 1}.get(v, v) if fe == 'v2' else 0
        if kind != 1 or got[0][1] != 5 or got[0][2] != want_v:
            ctx.violation(site, f'failure-without-packet-or-verdict:{v}',
                          f'verdict {v} must yield ValidationFailure carrying the packet and the verdict, got {got}', case)
    if not in_time and fe == 'v1':
        if kind != 3:
            # one known finding, whatever the late verdict turns the result into (payload, failure, pending for ever)
            ctx.violation(site, 'validator-no-deadline',
                          f'legacy front-end: validator latency {lat} relative to the deadline, expected a timeout, got {got}', case)
    elif not in_time and kind not in (0, 3):
        ctx.violation(site, f'slow-validator-not-timeout:{kind}', f'validator latency {lat}: expected a timeout, got {got}', case)


ROUTES = [(A, True), (AB, False), (X, False)]          # attached prefixes: /a with a validator, /a/b and /x without


def py_lpm(name):
    best = None
    for p, hv in ROUTES:
        if tuple(name[:len(p)]) == tuple(p) and (best is None or len(p) > len(best[0])):
            best = (p, hv)
    return best


def interest_table(ctx, fe):
    names = [A + (7,), AB + (7,), X, (9,), A, ABC]
    k = 0
    for v in (range(5) if fe == 'v2' else range(len(P.V1_VALUES))):
        for hp in (False, True):
            for sig in (0, 1, 2):
                for dok in (True, False):
                    if not hp and sig == 0 and not dok:
                        continue          # a plain Interest has no parameters digest to get wrong
                    h = [('attach', p, hv, 0) for p, hv in ROUTES]
                    ks = []
                    for n in names:
                        h.append(('interest', k, n, hp, sig, dok, v, 10 + len(ks)))
                        ks.append((k, n))
                        k += 1
                    if ctx.rng.random() < 0.3:
                        h.append(('shutdown', 100, 0))
                        h.append(('interest', k, A + (7,), hp, sig, dok, v, 110))
                        ks.append((k, A + (7,)))
                        k += 1
                    m = P.run_model(ctx, fe, h)
                    r = P.canon_impl(fe, P.run_impl(fe, h))
                    P.compare(ctx, 'on_interest', fe, h, m, r)
                    case = {'frontend': fe, 'history': h}
                    site = ('appv2.NDNApp._on_interest' if fe == 'v2' else 'app.NDNApp._on_interest')
                    if r['errors'] or r['loop_errors']:
                        ctx.violation(site, 'internal-error', f'{r["errors"]} {r["loop_errors"]}', case)
                    called = {kk for _, kk in r['handler_calls']}
                    shut_seen = False
                    for kk, n in ks:
                        after_shutdown = kk == ks[-1][0] and any(e[0] == 'shutdown' for e in h)
                        route = py_lpm(n)
                        if after_shutdown and fe == 'v1':
                            route = None           # the legacy clean-up clears the prefix tree
                        plain = (not hp) and sig == 0
                        cls = f'params={int(hp)}:sig={sig}:digest_ok={int(dok)}:validator={route[1] if route else None}:verdict={v}'
                        if route is None:
                            if kk in called:
                                ctx.violation(site, 'handler-without-route', 'handler called for a name without a route', case)
                            continue
                        allowed = ctx.call([3, P.fe_num(fe), route[1], [kk, list(n), hp, sig, dok, P.m_verdict(fe, v)]])
                        if kk in called and not allowed:
                            ctx.violation(site, 'delivered-unvalidated:' + cls,
                                          'the handler was called for an Interest the specification does not allow to be delivered', case)
                        if kk not in called and allowed:
                            ctx.violation(site, 'dropped-valid:' + cls, 'an acceptable Interest did not reach its handler', case)
                        if plain and kk in r['ivcalls']:
                            ctx.violation(site, 'validator-consulted-for-plain', 'a plain Interest was handed to a validator', case)
                        needs = (hp or sig != 0) if fe == 'v2' else (sig != 0)
                        if kk in called and needs and route[1] and not r['validated_before'].get(kk, False):
                            ctx.violation(site, 'handler-before-validator:' + cls,
                                          'the handler ran before the validator in force was consulted', case)
                    ctx.case((fe, 'int', v, hp, sig, dok), True,
                             {'frontend': fe, 'interest': {'params': hp, 'sig': sig, 'digest_ok': dok, 'verdict': v},
                              'delivered': sorted(called)}, f'{fe}.interest.params={int(hp)}.sig={sig}.dok={int(dok)}')


def run(ctx):
    from ndn.types import ValidResult as VR
    names = [m.name for m in sorted(VR, key=lambda m: m.value)]
    if names != ['FAIL', 'TIMEOUT', 'SILENCE', 'PASS', 'ALLOW_BYPASS']:
        ctx.disagree('types.ValidResult', 'the enum no longer has the five members the verdict table quantifies over',
                     names, ['FAIL', 'TIMEOUT', 'SILENCE', 'PASS', 'ALLOW_BYPASS'], names)
    for fe in ('v2', 'v1'):
        interest_table(ctx, fe)
        reps = ctx.n(3, 60)
        for _ in range(reps):
            for v in P.verdicts(fe):
                for lat in LATENCIES:
                    h, D = data_case(ctx.rng, fe, v, lat)
                    same, m, r = P.check_history(ctx, fe, h, f'verdict.{lat}', 'C05')
                    data_oracle(ctx, fe, h, D, v, lat, r)
        for tag, h in P.targeted(fe):
            P.check_history(ctx, fe, h, 'targeted.' + tag, 'C05')
        for k in range(ctx.n(300, 10000)):
            h = P.rand_history(ctx.rng, fe, wf=True)
            P.check_history(ctx, fe, h, 'random', 'C05')


def replay(ctx, data):
    case = data['case']
    if any(e[0] in ('attach', 'interest') for e in case['history']):
        ctx.notes.append('replay of an incoming-Interest case: the full table is re-run')
        interest_table(ctx, case['frontend'])
        return
    c = P.unjson_case(case)
    P.check_history(ctx, c['frontend'], c['history'], 'replay', 'C05')
