"""C05 — nothing that requires validation reaches the application unvalidated.

Same operational model and specification as C03 (Model/ExpressPipeline.v, Spec/ExpressSpec.v).  Exhaustive tables embedded
in random surroundings:
 * Data side: every verdict (all ValidResult values + a validator raising TimeoutError; legacy: nine Python values of both
   truthinesses) x validator latency {at once, before, at (three tie linearisations), after the deadline, never};
 * Interest side: every verdict x ApplicationParameters present x signature {none, DigestSha256 ok, DigestSha256 bad}
   x parameters-digest correct x route with/without its own validator x no route, in both front-ends, x every
   placement of a replacement of the application-wide validator (legacy app.int_validator) relative to the installation
   of the routes ("the validator in force" is the one in force when the Interest is dispatched), plus random interleavings.
Correspondence (model vs real code) and direct oracles of the C05 clauses on the implementation's observations.
"""
from harness.props import _pipeline as P

RULE = ('Data side: verdict x latency table (6 resp. 9 verdict values x 8 latencies) each embedded in a random history of '
        '0-3 other Interests; Interest side: 5 (9) verdicts x params (absent / present / present-empty) x 3 signature classes x '
        'digest correctness x 6 names against routes with / without their own validator / no route, full product, repeated '
        'for every placement of "the application replaces its application-wide Interest validator" (legacy app.int_validator) '
        'relative to route installation and Interests: never, before the routes, AFTER the routes, between two routes, '
        'replaced then restored, restored before the routes then replaced, replaced twice (fresh validator object each time), '
        'across a shutdown with re-installation (9 placements legacy, 4 appv2 in quick / all in thorough); plus random '
        'interleavings of attach / replace-default / Interest / shutdown with independent Interest attributes; the oracle '
        'determines per Interest the validator in force from the history before it (extracted Spec.in_force / default_of) and '
        'checks delivery iff may_deliver, that exactly that validator object was consulted, and consultation before the handler; '
        'plus the C03 random histories with all verdicts. non-trivial = the validator is consulted or a gate decision is taken; '
        'distinct by history')
ASSUMPTIONS = ['validators are harness coroutines (verdict chosen by the history); the parameters digest / DigestSha256 '
               'signature are computed by the real encoder and corrupted by flipping one bit',
               'legacy front-end without a route validator: the application-wide int_validator is the library default '
               'sha256_digest_checker until a setdefault event assigns a harness validator to the documented attribute '
               'app.int_validator (and again after one restores the saved library default); appv2 has no application-wide '
               'validator, the event does nothing there',
               'the application-wide Data validator (legacy app.data_validator, used when express_interest is given '
               'validator=None) is not exercised: every expressed Interest carries its own validator']

A, AB, ABC, X = P.A, P.AB, P.ABC, P.X
LATENCIES = ['imm', 'before', 'at0', 'at1', 'at2', 'after', 'never', 'just-before']


def data_case(rng, fe, v, lat):
    """Interest 9 on /a/b with lifetime 100 expressed at t0; Data at t0+20; verdict v with the given latency."""
    h = []
    t0 = 0
    # surroundings: other Interests that must not be affected
    for i in range(rng.randint(0, 3)):
        h += P.ex(i, rng.choice([A, AB, X]), t0, life=rng.choice((50, 100, 300)), cbp=rng.random() < 0.5,
                  vm=('imm', rng.choice(P.verdicts(fe))) if rng.random() < 0.5 else ('def',), fe=fe)
        t0 += rng.choice((0, 10))
    vm = ('imm', v) if lat == 'imm' else ('def',)
    h += P.ex(9, AB, t0, life=100, vm=vm, fe=fe)
    D = t0 + 100
    h += [('data', 5, AB, t0 + 20, rng.choice((0, 0, 1, 2)))]
    if lat == 'before':
        h += [('vdone', 9, v, t0 + 50, rng.choice((0, 1, 2)))]
    elif lat == 'just-before':
        h += [('vdone', 9, v, D - 1, rng.choice((0, 1, 2)))]
    elif lat in ('at0', 'at1', 'at2'):
        h += [('vdone', 9, v, D, int(lat[2]))]
    elif lat == 'after':
        h += [('advance', D + 5), ('vdone', 9, v, D + 10, 0)]
    h += [('advance', D + 400)]
    if rng.random() < 0.3:
        h += [('data', 6, AB, D + 410, 0), ('vdone', 9, v, D + 420, 0)]
    return h, D


def data_oracle(ctx, fe, h, D, v, lat, r):
    """The clauses of C05 about Data, on the implementation's observations."""
    case = {'frontend': fe, 'history': h}
    site = ('appv2.PendingIntEntry.satisfy' if fe == 'v2' else 'app.NDNApp._wait_for_data')
    got = r['completion'].get(9)
    passes = (v in (3, 4)) if fe == 'v2' else P.v1_truth(v)
    in_time = lat in ('imm', 'before', 'just-before')
    kind = got[0][0] if got else None
    if kind == 0:
        if not passes:
            ctx.violation(site, f'data-despite-verdict:{v}', f'payload returned although the validator answered {v}', case)
        elif not in_time and fe == 'v2':
            ctx.violation(site, f'data-after-deadline:{fe}',
                          f'payload returned although the validator finished at/after the deadline ({lat})', case)
        elif (9, 5) not in r['vcalls']:
            ctx.violation(site, 'data-without-validator', 'payload returned without the validator being consulted', case)
    if in_time and passes and kind != 0:
        ctx.violation(site, 'accepted-data-not-returned', f'validator accepted in time but the result is {got}', case)
    if in_time and not passes:
        want_v = {5: 1}.get(v, v) if fe == 'v2' else 0
        if kind != 1 or got[0][1] != 5 or got[0][2] != want_v:
            ctx.violation(site, f'failure-without-packet-or-verdict:{v}',
                          f'verdict {v} must yield ValidationFailure carrying the packet and the verdict, got {got}', case)
    if not in_time and fe == 'v1':
        if kind != 3:
            # one known finding, whatever the late verdict turns the result into (payload, failure, pending for ever)
            ctx.violation(site, 'validator-no-deadline',
                          f'legacy front-end: validator latency {lat} relative to the deadline, expected a timeout, got {got}', case)
    elif not in_time and kind not in (0, 3):
        ctx.violation(site, f'slow-validator-not-timeout:{kind}', f'validator latency {lat}: expected a timeout, got {got}', case)


ROUTES = [(A, True), (AB, False), (X, False)]          # attached prefixes: /a with a validator, /a/b and /x without
PROBES = [A + (7,), AB + (7,), X, (9,), A, ABC]          # names of the Interests sent at every probe point

# Where the application-wide validator (legacy app.int_validator) is replaced relative to the installation of the routes
# and to the Interests.  R = attach all routes, Ra = attach /a only, Rb = attach /a/b and /x, D1 = replace the
# application-wide validator by a (fresh) validator of the application, D0 = put the library default back,
# P = one Interest per probe name, S = shutdown (the legacy clean-up empties the route table), P1 = one Interest.
SCHEMES = {
    'never':            ['R', 'P'],
    'never+shutdown':   ['R', 'P', 'S', 'P1'],
    'before-routes':    ['D1', 'R', 'P'],
    'after-routes':     ['R', 'D1', 'P'],
    'between-routes':   ['Ra', 'D1', 'Rb', 'P'],
    'replaced-restored': ['R', 'D1', 'P', 'D0', 'P'],
    'restored-before-routes': ['D1', 'D0', 'R', 'P', 'D1', 'P'],
    'replaced-twice':   ['D1', 'R', 'D1', 'P'],
    'across-shutdown':  ['R', 'D1', 'S', 'P1', 'R', 'P', 'D0', 'P1'],
}


def py_lpm(table, name):
    best = None
    for p, hv in table:
        if tuple(name[:len(p)]) == tuple(p) and (best is None or len(p) > len(best[0])):
            best = (p, hv)
    return best


def build_gate_history(fe, steps, attrs, k0=0):
    """History for one placement scheme; attrs = (hp, sig, dok, verdict) of every Interest sent."""
    hp, sig, dok, v = attrs
    h, t, k = [], 0, k0
    table = []              # routes as the application installed them (re-installation of an existing one is skipped)
    shut = False

    def attach(routes):
        nonlocal t
        for p, hv in routes:
            if all(p != q for q, _ in table):
                h.append(('attach', p, hv, t))
                table.append((p, hv))
    for st in steps:
        t += 10
        if st == 'R':
            attach(ROUTES)
        elif st == 'Ra':
            attach(ROUTES[:1])
        elif st == 'Rb':
            attach(ROUTES[1:])
        elif st in ('D1', 'D0'):
            h.append(('setdefault', st == 'D1', t))
        elif st == 'S':
            if not shut:
                h.append(('shutdown', t, 0))
                shut = True
                if fe == 'v1':
                    table.clear()
        elif st in ('P', 'P1'):
            for n in (PROBES if st == 'P' else PROBES[:1]):
                h.append(('interest', k, n, hp, sig, dok, v, t))
                k += 1
                t += 1
    return h, k


def gate_oracle(ctx, fe, h, r, site):
    """The Interest clauses of C05 on the implementation's observations, for ANY history of attach / setdefault /
    interest / shutdown events: per Interest, the route (independent Python LPM over the routes installed so far), the
    validator in force (extracted Spec.in_force / default_of on the history BEFORE the Interest) and Spec.may_deliver."""
    case = {'frontend': fe, 'history': h}
    if r['errors'] or r['loop_errors']:
        ctx.violation(site, 'internal-error', f'{r["errors"]} {r["loop_errors"]}', case)
    called = {kk for _, kk in r['handler_calls']}
    who = {}
    for kk, w in r['ivwho']:
        who.setdefault(kk, []).append(tuple(w))
    table, ids = [], {}
    shut = False
    last_default = None          # generation of the harness validator currently installed as app.int_validator
    n_default = 0
    n_routes = 0
    for j, ev in enumerate(h):
        if ev[0] == 'attach':
            if all(ev[1] != q for q, _ in table):
                table.append((ev[1], ev[2]))
                ids[tuple(ev[1])] = n_routes
                n_routes += 1
        elif ev[0] == 'setdefault':
            if ev[1]:
                last_default = n_default
                n_default += 1
            else:
                last_default = None
        elif ev[0] == 'shutdown' and not shut:
            shut = True
            if fe == 'v1':
                table, n_routes = [], 0        # the legacy clean-up clears the prefix tree
        if ev[0] != 'interest':
            continue
        _, kk, n, hp, sig, dok, v, _t = ev
        route = py_lpm(table, n)
        plain = (not hp) and sig == 0
        if route is None:
            if kk in called:
                ctx.violation(site, 'handler-without-route', 'handler called for a name without a route', case)
            if kk in who:
                ctx.violation(site, 'validator-without-route', 'a validator was consulted for a name without a route', case)
            continue
        own = bool(ctx.call([4, P.fe_num(fe), route[1], P.m_history(fe, h[:j])]))
        src = 'route' if route[1] else ('app-default' if own else 'none')
        cls = f'params={int(hp)}:sig={sig}:digest_ok={int(dok)}:validator={src}:verdict={v}'
        allowed = ctx.call([3, P.fe_num(fe), own, [kk, list(n), hp, sig, dok, P.m_verdict(fe, v)]])
        if kk in called and not allowed:
            ctx.violation(site, 'delivered-unvalidated:' + cls,
                          'the handler was called for an Interest the specification does not allow to be delivered '
                          f'(validator in force: {src})', case)
        if kk not in called and allowed:
            ctx.violation(site, 'dropped-valid:' + cls, 'an acceptable Interest did not reach its handler '
                          f'(validator in force: {src})', case)
        if plain and kk in r['ivcalls']:
            ctx.violation(site, 'validator-consulted-for-plain', 'a plain Interest was handed to a validator', case)
        needs = (hp or sig != 0) if fe == 'v2' else (sig != 0)
        if kk in called and needs and own and not r['validated_before'].get(kk, False):
            ctx.violation(site, 'handler-before-validator:' + cls,
                          'the handler ran before the validator in force was consulted', case)
        # WHICH validator decided: exactly the one in force (the route's own, else the application-wide one as last set)
        if needs and dok and not plain:
            want = [('route', ids[tuple(route[0])])] if route[1] else ([('default', last_default)] if own else [])
            got = who.get(kk, [])
            if got != want:
                ctx.violation(site, f'wrong-validator-consulted:in-force={src}:consulted={got[0][0] if got else None}',
                              f'Interest {kk}: the validator in force is {want or "the library default"}, '
                              f'the application-supplied validators consulted were {got}', case)
        ctx.stat(f'{fe}.in-force.{src}')


def interest_table(ctx, fe, only=None):
    site = ('appv2.NDNApp._on_interest' if fe == 'v2' else 'app.NDNApp._on_interest')
    for scheme, steps in SCHEMES.items():
        if only is not None and scheme != only:
            continue
        if fe == 'v2' and not ctx.thorough and scheme not in ('never', 'never+shutdown', 'after-routes', 'across-shutdown'):
            continue          # appv2 has no application-wide validator: quick keeps four placements, thorough all
        for v in (range(5) if fe == 'v2' else range(len(P.V1_VALUES))):
            for hp in (False, True, 2):
                for sig in (0, 1, 2):
                    for dok in (True, False):
                        if not hp and sig == 0 and not dok:
                            continue          # a plain Interest has no parameters digest to get wrong
                        h, _ = build_gate_history(fe, steps, (hp, sig, dok, v))
                        m = P.run_model(ctx, fe, h)
                        r = P.canon_impl(fe, P.run_impl(fe, h))
                        P.compare(ctx, 'on_interest', fe, h, m, r)
                        gate_oracle(ctx, fe, h, r, site)
                        ctx.case((fe, 'int', scheme, v, hp, sig, dok), True,
                                 {'frontend': fe, 'scheme': scheme,
                                  'interest': {'params': hp, 'sig': sig, 'digest_ok': dok, 'verdict': v},
                                  'delivered': sorted({kk for _, kk in r['handler_calls']})},
                                 f'{fe}.interest.{scheme}.params={int(hp)}.sig={sig}.dok={int(dok)}')


def rand_gate_history(rng, fe):
    """Random interleaving of route installation, replacement of the application-wide validator, Interests with
    independent attributes and at most one shutdown."""
    h, t, k = [], 0, 0
    installed = set()
    shut = False
    pool = [(A, rng.random() < 0.5), (AB, rng.random() < 0.5), (X, rng.random() < 0.5), (ABC, rng.random() < 0.5)]
    for _ in range(rng.randint(4, 14)):
        t += rng.choice((1, 5, 10))
        a = rng.choice(['attach'] * 3 + ['setdefault'] * 3 + ['interest'] * 6 + ['shutdown'])
        if a == 'attach':
            cand = [x for x in pool if x[0] not in installed]
            if cand:
                p, hv = rng.choice(cand)
                installed.add(p)
                h.append(('attach', p, hv, t))
        elif a == 'setdefault':
            h.append(('setdefault', rng.random() < 0.7, t))
        elif a == 'shutdown':
            if not shut and rng.random() < 0.4:
                shut = True
                h.append(('shutdown', t, 0))
                if fe == 'v1':
                    installed.clear()
        else:
            hp = rng.choice((False, True, 2))
            sig = rng.choice((0, 1, 1, 2))
            dok = True if (not hp and sig == 0) else rng.random() < 0.8
            v = rng.choice(range(5) if fe == 'v2' else range(len(P.V1_VALUES)))
            h.append(('interest', k, rng.choice(PROBES), hp, sig, dok, v, t))
            k += 1
    return h


def random_gate(ctx, fe, n):
    site = ('appv2.NDNApp._on_interest' if fe == 'v2' else 'app.NDNApp._on_interest')
    for _ in range(n):
        h = rand_gate_history(ctx.rng, fe)
        m = P.run_model(ctx, fe, h)
        r = P.canon_impl(fe, P.run_impl(fe, h))
        P.compare(ctx, 'on_interest', fe, h, m, r)
        gate_oracle(ctx, fe, h, r, site)
        ctx.case((fe, 'gate', tuple(map(repr, h))), any(e[0] == 'interest' for e in h),
                 {'frontend': fe, 'history': h, 'delivered': sorted({kk for _, kk in r['handler_calls']})}, f'{fe}.interest.random')


def run(ctx):
    from ndn.types import ValidResult as VR
    names = [m.name for m in sorted(VR, key=lambda m: m.value)]
    if names != ['FAIL', 'TIMEOUT', 'SILENCE', 'PASS', 'ALLOW_BYPASS']:
        ctx.disagree('types.ValidResult', 'the enum no longer has the five members the verdict table quantifies over',
                     names, ['FAIL', 'TIMEOUT', 'SILENCE', 'PASS', 'ALLOW_BYPASS'], names)
    for fe in ('v2', 'v1'):
        interest_table(ctx, fe)
        random_gate(ctx, fe, ctx.n(200, 6000))
        reps = ctx.n(3, 60)
        for _ in range(reps):
            for v in P.verdicts(fe):
                for lat in LATENCIES:
                    h, D = data_case(ctx.rng, fe, v, lat)
                    same, m, r = P.check_history(ctx, fe, h, f'verdict.{lat}', 'C05')
                    data_oracle(ctx, fe, h, D, v, lat, r)
        for tag, h in P.targeted(fe):
            P.check_history(ctx, fe, h, 'targeted.' + tag, 'C05')
        for k in range(ctx.n(300, 10000)):
            h = P.rand_history(ctx.rng, fe, wf=True)
            P.check_history(ctx, fe, h, 'random', 'C05')


def replay(ctx, data):
    case = data['case']
    if any(e[0] in ('attach', 'interest', 'setdefault') for e in case['history']):
        c = P.unjson_case(case)
        fe, h = c['frontend'], c['history']
        m = P.run_model(ctx, fe, h)
        r = P.canon_impl(fe, P.run_impl(fe, h))
        P.compare(ctx, 'on_interest', fe, h, m, r)
        gate_oracle(ctx, fe, h, r, 'appv2.NDNApp._on_interest' if fe == 'v2' else 'app.NDNApp._on_interest')
        return
    c = P.unjson_case(case)
    P.check_history(ctx, c['frontend'], c['history'], 'replay', 'C05')
