"""C16 — issued certificates are well-formed, correctly named and verifiable.

Correspondence: Model/Cert.v (extracted; the signature bytes recorded from the real signer are handed to the model)
vs the real self_sign / sign_req / derive_cert / new_cert: certificate bytes, returned name and the bytes given to
the signer, byte for byte; ok/raise.  Clock: ndn.app_support.security_v2.timestamp and .datetime are patched.

Oracle on the implementation (every produced certificate):
 * one Data element with shortest-form, exact outer Length; accepted by the extracted strict reader (Spec/StrictTlv.v);
 * the extracted specification Spec/CertSpec.v (cert_fields_ok) holds of the strictly read fields: name = key name /
   issuer / version, ContentType KEY, content = key bits, NotBefore/NotAfter denote the requested instants,
   SignatureType and KeyLocator are the issuing signer's;  the same facts are re-checked field by field in Python
   on the result of parse_certificate (separate violation classes), the validity strings with datetime.strptime;
 * parse_certificate returns exactly the strictly read values;
 * the signer was handed Name..SignatureInfo (Spec/SignedPortion.v read off the wire);
 * the signature verifies under the issuer's public key (real verify_*), and no longer after one flipped bit.
"""
from datetime import datetime, timedelta, timezone

from harness.lib import gen as G
from harness.lib import tlvdesc as D
from harness.lib import pktgen as P
from harness.lib import tlvgen as TG
from harness.lib.model import is_err, exc_code

UTC = timezone.utc
FMT = '%Y%m%dT%H%M%S'

RULE = ('self_sign / sign_req / derive_cert / new_cert with subjects EC P-256/384/521, RSA-2048, Ed25519 (and random key bits '
        'with lengths that put the packet length on 252/253/254/65535/65536, before and after the unused signature bytes are cut), '
        'issuers: ECDSA P-256/384/521 (variable DER length), RSA-2048 and RSA with moduli of 1028 / 2050 bits (not a multiple of 8), Ed25519, HMAC, DigestSha256, null, no signer, and a synthetic '
        'signer sweeping 0<=actual<=reserved; key names as URI / wire / component list; issuer id as text (valid and malformed URI '
        'components) and as component; start times on year / leap-day / month / day boundaries, years 1000..9999 (and <1000, overflow), '
        'naive, UTC and fixed-offset zones (-12:00..+14:00, odd minutes); durations 0..20 years, negative, overflowing; clock '
        'readings on 29 Feb and year ends.  The key bits are handed over as bytes, a bytearray, a memoryview of the whole object, and '
        'a memoryview that is a proper slice of a larger bytes / bytearray buffer (what parse_certificate(request).content is in the '
        'request -> issue workflow); the content demanded is the bytes the view covers.  Signer histories: ONE signer object (every key type that carries a key locator: ECDSA '
        'P-256/384/521, RSA, Ed25519, HMAC) is used first (self_sign / sign_req / derive_cert / new_cert, or signing a Data / an '
        'Interest), then its key locator is reconfigured in one of 12 ways (a new URI string / component list / encoded name as '
        'bytes, bytearray, memoryview assigned to key_locator_name; the list it holds edited in place by item assignment, append, '
        'slice assignment, del; the bytearray holding the encoded name rewritten; caller-owned component buffers rewritten; a new '
        'signer object of the same key), then a certificate is issued, reconfigured again (often back to the first locator), issued '
        'again, two reconfigurations with no use in between; two signer objects of one key configured differently and used '
        'alternately; random histories of 4-10 steps.  Locators: the bare key, certificate names of that key (two issuers, three '
        'versions), other identities, one-component and empty names.  Every certificate of a history is judged by the whole oracle, '
        'its KeyLocator against a private copy of the locator configured in the signer taken just before that issuance (class '
        'key-locator-reused-signer).  non-trivial = a certificate was produced; distinct by case hash')
ASSUMPTIONS = ['the signature primitives are external (pycryptodome): the model receives the signature bytes as data and decides which '
               'bytes are signed and where the signature goes; the run verifies each certificate with the real verify_* functions',
               'datetime / strftime are CPython: modelled from broken-down fields (proleptic Gregorian day count), compared on every case',
               'time zones with a fixed utcoffset, whole seconds; naive datetimes are UTC']

_DESC = {}


def cert_desc():
    if 'c' not in _DESC:
        from ndn.app_support import security_v2 as S
        _DESC['c'] = D.reflect_class(S.CertificateV2Value)
    return _DESC['c']


# ---- conversions --------------------------------------------------------------------------------------------
def z(n):
    return [0, n] if n >= 0 else [1, -n]


def s_of_str(s):
    cps = [ord(c) for c in s]
    return bytes(cps) if all(c < 256 for c in cps) else cps


def fields(t):
    return [t.year, t.month, t.day, t.hour, t.minute, t.second]


def atime_sexp(t):
    off = t.utcoffset()
    return [fields(t), [] if off is None else [z(off.days * 86400 + off.seconds)]]


def mk_time(spec):
    """[Y, M, D, h, m, s, us, offset seconds | None] -> datetime"""
    y, mo, d, h, mi, s, us, off = spec
    tz = None if off is None else (UTC if off == 0 else timezone(timedelta(seconds=off)))
    return datetime(y, mo, d, h, mi, s, us, tzinfo=tz)


def instant(t):
    """Seconds since the epoch of the instant a datetime designates (naive = UTC), whole seconds."""
    if t.utcoffset() is None:
        t = t.replace(tzinfo=UTC)
    d = t - datetime(1970, 1, 1, tzinfo=UTC)
    return d.days * 86400 + d.seconds


def key_name_py(kn):
    k, v = kn
    if k == 'str':
        return v
    if k == 'wire':
        return bytes(v)
    return [bytes(c) if isinstance(c, (bytes, bytearray)) else c for c in v]


def key_name_sexp(kn):
    k, v = kn
    if k == 'str':
        return [1, s_of_str(v)]
    if k == 'wire':
        return [0, bytes(v)]
    return [2, [[0, bytes(c)] if isinstance(c, (bytes, bytearray)) else [1, s_of_str(c)] for c in v]]


class Clock:
    """Stands for the module's `datetime`: now() returns the scripted readings, the rest is datetime's."""

    def __init__(self, readings):
        self.readings = list(readings)

    def now(self, tz=None):
        return self.readings.pop(0)

    def fromisoformat(self, s):
        return datetime.fromisoformat(s)

    def __call__(self, *a, **k):
        return datetime(*a, **k)

    def __getattr__(self, k):
        return getattr(datetime, k)


def make_signer(keys, spec):
    """spec: None | label of Keys.signers() | ['syn', reserved, actual] -> (signer, verify, key locator name | None)"""
    if spec is None:
        return None, None, None
    if isinstance(spec, (list, tuple)):
        return P.Synthetic(spec[1], spec[2]), None, None
    for label, sg, verify in keys.signers(only=spec):
        if label == spec:
            return sg, verify, getattr(sg, 'key_locator_name', None)
    raise KeyError(spec)


PUB_FORMS = ['bytes', 'bytes', 'bytearray', 'view', 'view-slice', 'view-slice-bytearray']


def pub_as(pub, form):
    """the same key bits handed over as the buffer kinds a caller has: bytes, a bytearray, a memoryview of the whole
    object, a memoryview that is a proper SLICE of a larger buffer (what parse_certificate(request).content is)"""
    if form == 'bytearray':
        return bytearray(pub)
    if form == 'view':
        return memoryview(pub)
    if form == 'view-slice':
        return memoryview(b'\x06\xfd\x01\x26' + pub + b'\x16\x03\x1b\x01\x03')[4:4 + len(pub)]
    if form == 'view-slice-bytearray':
        return memoryview(bytearray(b'\xaa' * 7 + pub + b'\xbb'))[7:7 + len(pub)]
    return pub


def pub_bits(keys, spec):
    if isinstance(spec, (bytes, bytearray)):
        return bytes(spec)
    if spec == 'rsa':
        return keys.rsa.publickey().export_key('DER')
    if spec == 'ed25519':
        return keys.ed.public_key().export_key(format='DER')
    return keys.ec[spec].public_key().export_key(format='DER')


# ---- signer histories: ONE signer object used, reconfigured, used again --------------------------------------
def snapshot(v):
    """a private copy of a (possibly mutable, possibly shared) NonStrictName"""
    if v is None or isinstance(v, (str, bytes)):
        return v
    if isinstance(v, (bytearray, memoryview)):
        return bytes(v)
    return [snapshot(x) for x in v]


def uri_of(comps):
    from ndn.encoding import Name
    try:
        return 'none' if comps is None else Name.to_str(comps)
    except Exception:   # noqa
        return repr(comps)


def locator_pool():
    """key locator names an issuer is configured with in turn: its bare key, the certificate it obtained (key name +
    issuer + version), another version of it, the key of another identity, same-length respellings, the empty name"""
    c = lambda b: G.tlv(8, b)      # noqa
    key = [c(b'key'), c(b'KEY'), c(b'\x01')]
    return [key, key + [c(b'self'), G.tlv(54, b'\x01')], key + [c(b'ca'), G.tlv(54, b'\x00\x00\x01\x8b\xcf\xe5\x68\x00')],
            key + [c(b'ca'), G.tlv(54, b'\x02')], [c(b'kez'), c(b'KEY'), c(b'\x02')], [c(b'other'), c(b'site'), c(b'KEY'), c(b'k-2')],
            [c(b'key'), c(b'KEY'), G.tlv(8, bytes(range(8)))], [c(b'k')], []]


# how a locator is handed to the signer: form of the value x (assign a new object | change the object it holds in place)
SET_HOWS = ['assign-str', 'assign-list', 'assign-wire', 'assign-bytearray', 'assign-view', 'mutate-list-item',
            'mutate-list-append', 'mutate-list-slice', 'mutate-list-del', 'mutate-bytearray', 'mutate-component', 'ctor']


def apply_set(sg, how, comps, make):
    """Reconfigure the key locator of signer `sg` to the name `comps`.  assign-*: a new object is assigned to the public
    attribute key_locator_name; mutate-*: the object the signer holds is edited in place (made mutable first -- by an
    assignment that does not change the name -- when it is not: that assignment is part of the step); ctor: a new
    signer object of the same key is made with that locator (returned; the caller replaces the object)."""
    from ndn.encoding import Name
    comps = [bytes(x) for x in comps]
    if how == 'ctor':
        return make(comps)
    cur = getattr(sg, 'key_locator_name', None)
    curc = [bytes(x) for x in Name.normalize(cur)]
    if how == 'assign-str':
        sg.key_locator_name = Name.to_str(comps)
    elif how == 'assign-list':
        sg.key_locator_name = list(comps)
    elif how == 'assign-wire':
        sg.key_locator_name = bytes(Name.to_bytes(comps))
    elif how == 'assign-bytearray':
        sg.key_locator_name = bytearray(Name.to_bytes(comps))
    elif how == 'assign-view':
        sg.key_locator_name = memoryview(bytes(Name.to_bytes(comps)))
    elif how in ('mutate-list-item', 'mutate-list-append', 'mutate-list-slice', 'mutate-list-del'):
        if not isinstance(cur, list):
            cur = sg.key_locator_name = list(curc)
        if how == 'mutate-list-slice' or not (comps and curc):
            cur[:] = comps
        elif how == 'mutate-list-item':          # as many leading components as both have, then the rest
            for i in range(min(len(cur), len(comps))):
                cur[i] = comps[i]
            del cur[len(comps):]
            cur.extend(comps[len(cur):])
        elif how == 'mutate-list-append':
            del cur[:]
            for x in comps:
                cur.append(x)
        else:
            while cur:
                del cur[-1]
            cur += comps
    elif how == 'mutate-bytearray':              # the encoded name in a buffer the caller keeps and rewrites
        if not isinstance(cur, bytearray):
            cur = sg.key_locator_name = bytearray(Name.to_bytes(curc))
        cur[:] = Name.to_bytes(comps)
    else:                                        # mutate-component: every component a caller-owned bytearray
        if not (isinstance(cur, list) and len(cur) == len(comps) and all(isinstance(x, bytearray) for x in cur)
                and all(len(x) == len(y) for x, y in zip(cur, comps))):
            sg.key_locator_name = [bytearray(x) for x in comps]
        else:
            for x, y in zip(cur, comps):
                x[:] = y
    return sg


def info_value(si):
    """the SignatureInfo a signer wrote, as a model value.  The key locator name may have been written in any accepted
    representation (URI string, encoded name, component list): the model is handed the name it denotes."""
    from ndn.encoding import Name
    kl = getattr(si, 'key_locator', None)
    nm = getattr(kl, 'name', None)
    if nm is None or (isinstance(nm, list) and all(isinstance(x, bytes) for x in nm)):
        return D.from_py(P.siginfo_desc(), si)
    kl.name = [bytes(x) for x in Name.normalize(nm)]
    try:
        return D.from_py(P.siginfo_desc(), si)
    finally:
        kl.name = nm


class Rec(P.Rec):
    def write_signature_info(self, signature_info):
        self.inner.write_signature_info(signature_info)
        self.info_obj = signature_info
        self.info = info_value(signature_info)


def scratch_info(signer):
    from ndn.encoding import SignatureInfo
    si = SignatureInfo()
    signer.write_signature_info(si)
    return info_value(si)


def use_signer(sg, kind):
    """an ordinary use of the signer between two issuances: it signs a Data / an Interest"""
    from ndn.encoding import make_data, make_interest, MetaInfo, InterestParam
    if kind == 'data':
        make_data('/some/data', MetaInfo(), b'content', signer=sg)
    else:
        make_interest('/some/command', InterestParam(nonce=7), b'p', signer=sg)


def new_signer_of(keys, label, comps):
    """a fresh signer object for the key behind `label` with the key locator `comps` -> (signer, verify)"""
    from ndn.security.signer import HmacSha256Signer
    from ndn.security.signer.sha256_ecdsa_signer import Sha256WithEcdsaSigner
    from ndn.security.signer.sha256_rsa_signer import Sha256WithRsaSigner
    from ndn.security.signer.ed25519_signer import Ed25519Signer
    verify = next(v for lb, _, v in keys.signers(only=label) if lb == label)
    comps = [bytes(x) for x in comps]
    if label == 'hmac':
        return HmacSha256Signer(comps, keys.hmac_key), verify
    if label == 'rsa':
        return Sha256WithRsaSigner(comps, keys.rsa.export_key('DER')), verify
    if label.startswith('rsa-'):
        return Sha256WithRsaSigner(comps, keys.rsa_odd[int(label[4:])].export_key('DER')), verify
    if label == 'ed25519':
        return Ed25519Signer(comps, keys.ed.export_key(format='DER')), verify
    return Sha256WithEcdsaSigner(comps, keys.ec[label[len('ecdsa-'):]].export_key(format='DER')), verify


LOCATOR_SIGNERS = ['ecdsa-P-256', 'ecdsa-P-384', 'ecdsa-P-521', 'rsa', 'ed25519', 'hmac']


def run_signer_history(ctx, M, keys, label, steps, verbose=False):
    """steps: ['set', how, index into locator_pool() | component list] | ['use', 'data'|'interest'] | ['obj', k] (continue
    with signer object k of the same key: two objects, both start with pool locator 0) | ['issue', case].
    Every issued certificate goes through the whole oracle of one_case with the signer object in its current state."""
    pool = locator_pool()
    objs = {}

    def obj(k):
        if k not in objs:
            objs[k] = new_signer_of(keys, label, pool[0])
        return objs[k]
    cur = 0
    for i, st in enumerate(steps):
        sg, verify = obj(cur)
        if st[0] == 'set':
            comps = pool[st[2]] if isinstance(st[2], int) else st[2]
            try:
                sg2 = apply_set(sg, st[1], comps, lambda c: new_signer_of(keys, label, c)[0])
            except Exception as e:   # noqa  (assigning / editing an attribute cannot fail)
                ctx.violation('signer', 'reconfiguration-raises', f'{type(e).__name__}: {e}', {'signer': label, 'history': steps[:i + 1]})
                return
            objs[cur] = (sg2, verify)
            ctx.stat('signer-history.set.' + st[1])
        elif st[0] == 'use':
            try:
                use_signer(sg, st[1])
            except Exception as e:   # noqa
                ctx.violation('signer', 'signing-raises', f'{type(e).__name__}: {e}', {'signer': label, 'history': steps[:i + 1]})
                return
            ctx.stat('signer-history.use.' + st[1])
        elif st[0] == 'obj':
            cur = st[1]
        else:
            one_case(ctx, M, keys, {**st[1], 'signer': label}, verbose=verbose, shared=(sg, verify), history=steps[:i])


def issue_step(rng, fn, sub=None):
    """a cheap, in-domain issuance (the history is what varies here, not the request)"""
    case = {'fn': fn, 'key_name': ['str', '/sub/KEY/k1'], 'pub': sub or rng.choice(['P-256', 'ed25519', b'pk']),
            'ts': rng.choice([7, 1790379136352]), 'pub_form': rng.choice(PUB_FORMS)}
    if fn in ('self', 'req'):
        case['now'] = [2025, 6, 1, 12, 0, 0, 0, 0]
        if fn == 'req':
            case['now2'] = [2025, 6, 1, 12, 0, 0, 5, 0]
    else:
        case['issuer'] = ['text', 'ca'] if fn == 'derive' else ['comp', G.tlv(8, b'iss')]
        case['start'] = [2025, 1, 1, 0, 0, 0, 0, rng.choice([None, 0])]
        if fn == 'derive':
            case['expire'] = 3600
        else:
            case['end'] = [2026, 1, 1, 0, 0, 0, 0, None]
    return ['issue', case]


def signer_histories(ctx):
    """The family: first use (one of the four entry points, or signing a Data / an Interest) -> reconfiguration (12 ways)
    -> issuance (entry point rotating) -> second reconfiguration (another way, back to an EARLIER locator or on to a
    third) -> issuance; the same with two signer objects of one key configured differently and used alternately; random
    longer histories.  All key types that carry a key locator."""
    rng = ctx.rng
    fns = ['self', 'req', 'derive', 'new']
    firsts = fns + ['data', 'interest']
    npool = len(locator_pool())
    out = []
    k = 0
    for label in LOCATOR_SIGNERS:
        for hi, how in enumerate(SET_HOWS):
            for fi, first in enumerate(firsts):
                k += 1
                if not ctx.thorough and (k + hi) % len(firsts) != 0:
                    continue            # quick: every (key type, way) with one first use, rotating
                st = [['use', first] if first in ('data', 'interest') else issue_step(rng, first)]
                l1 = 1 + (k % (npool - 1))
                st += [['set', how, l1], issue_step(rng, fns[k % 4])]
                how2 = SET_HOWS[(hi + 1 + k % (len(SET_HOWS) - 1)) % len(SET_HOWS)]
                l2 = rng.choice([0, 0, l1, rng.randrange(npool)])      # often back to the first locator
                if ctx.thorough or (k // len(firsts)) % 2 == 0:
                    st += [['set', how2, l2], issue_step(rng, fns[(k + 1) % 4])]
                if k % 3 == 0 and (ctx.thorough or k % 2 == 0):            # no use between two reconfigurations: only the last one counts
                    st += [['set', how, rng.randrange(npool)], ['set', how2, rng.randrange(npool)], issue_step(rng, fns[(k + 2) % 4])]
                out.append((label, st))
        # two objects of one key, configured differently, alternately
        for how in (['assign-list', 'mutate-list-item', 'ctor'] if ctx.thorough else [SET_HOWS[rng.randrange(len(SET_HOWS))]]):
            l1, l2 = rng.sample(range(1, npool), 2)
            st = [issue_step(rng, 'derive'), ['obj', 1], ['set', how, l1], issue_step(rng, 'new'), ['obj', 0], issue_step(rng, 'self'),
                  ['set', how, l2], ['obj', 1], issue_step(rng, 'req'), ['obj', 0], issue_step(rng, 'derive')]
            out.append((label, st))
    for _ in range(ctx.n(6, 400)):
        label = rng.choice(LOCATOR_SIGNERS)
        st = []
        for _ in range(rng.randint(3, 9)):
            r = rng.random()
            if r < 0.4:
                st.append(['set', rng.choice(SET_HOWS), rng.randrange(npool)])
            elif r < 0.5:
                st.append(['use', rng.choice(['data', 'interest'])])
            elif r < 0.58:
                st.append(['obj', rng.randrange(2)])
            else:
                st.append(issue_step(rng, rng.choice(fns)))
        st.append(issue_step(rng, rng.choice(fns)))
        out.append((label, st))
    return out


# ---- one case -------------------------------------------------------------------------------------------------
def one_case(ctx, M, keys, case, verbose=False, shared=None, history=None):
    """case: dict(fn, key_name, pub, signer, ts, + per-function time arguments); fully serialisable.
    shared = (signer object, verify): issue with THIS signer object (one that has been used and possibly
    reconfigured before: signer histories) instead of a fresh one; the key locator demanded of the certificate is the
    one configured in the signer at the moment of issuance (a private copy taken just before the call).
    history = the serialisable steps that led to the state of that signer (goes into the failing case)."""
    from ndn.app_support import security_v2 as S
    from ndn.encoding import Name, Component, parse_data
    fn = case['fn']
    kn = case['key_name']
    pub_model = pub_bits(keys, case['pub'])
    pub = pub_as(pub_model, case.get('pub_form', 'bytes'))      # what the implementation is given
    if shared is None:
        signer, verify, kl_name = make_signer(keys, case['signer'])
    else:
        signer, verify = shared
        kl_name = snapshot(getattr(signer, 'key_locator_name', None))
    rec = Rec(signer) if signer is not None else None
    ts = case['ts']
    saved = (S.timestamp, S.datetime)
    S.timestamp = lambda: ts
    want = None          # (issuer component | None, not_before instant, not_after instant) when defined by the request
    nb_alt = None
    try:
        try:
            if fn == 'self':
                now = mk_time(case['now'])
                S.datetime = Clock([now])
                out = S.self_sign(key_name_py(kn), pub, rec)
                want = (bytes(S.SELF_COMPONENT), 0, instant(now.replace(year=now.year + 20)))
            elif fn == 'req':
                now1, now2 = mk_time(case['now']), mk_time(case['now2'])
                S.datetime = Clock([now1, now2])
                out = S.sign_req(key_name_py(kn), pub, rec)
                want = (bytes(S.SIGN_REQ_COMPONENT), instant(now2), instant(now1) + 10 * 86400)
                nb_alt = instant(now1)     # either reading of the clock is "now"
            elif fn == 'derive':
                start = mk_time(case['start'])
                iss = case['issuer']
                out = S.derive_cert(key_name_py(kn), iss[1] if iss[0] == 'text' else bytes(iss[1]), pub, rec, start, case['expire'])
                want = (bytes(Component.from_str(iss[1])) if iss[0] == 'text' else bytes(iss[1]),
                        instant(start), instant(start) + case['expire'])
            else:
                start, end = mk_time(case['start']), mk_time(case['end'])
                out = S.new_cert(key_name_py(kn), bytes(case['issuer'][1]), pub, rec, start, end)
                want = (bytes(case['issuer'][1]), instant(start), instant(end))
            r = 'ok'
            cname, wire = [bytes(c) for c in out[0]], bytes(out[1])
        except Exception as e:   # noqa
            r = e
    finally:
        S.timestamp, S.datetime = saved
    pub = pub_model      # the key bits themselves: what the model is given and what the certificate must contain

    # ---- the model on the same inputs
    if signer is None:
        sg_sexp, sigval = [], b''
    else:
        info = rec.info if rec.info is not None else scratch_info(signer)
        reserved = rec.reserved if rec.reserved is not None else signer.get_signature_value_size()
        sg_sexp = [[D.val_sexp(v) for v in info[1]], reserved]
        sigval = rec.sig if rec.sig is not None else b'\x00' * reserved
        if rec.sig is None and isinstance(signer, P.Synthetic):
            sigval = bytes([signer.fill]) * signer.actual      # what it tried to write
    kns = key_name_sexp(kn)
    if fn == 'self':
        req = [2, kns, pub, sg_sexp, z(ts), fields(mk_time(case['now'])), sigval]
    elif fn == 'req':
        req = [3, kns, pub, sg_sexp, z(ts), fields(mk_time(case['now'])), fields(mk_time(case['now2'])), sigval]
    elif fn == 'derive':
        iss = case['issuer']
        req = [4, kns, [1, s_of_str(iss[1])] if iss[0] == 'text' else [0, bytes(iss[1])], pub, sg_sexp, z(ts),
               atime_sexp(mk_time(case['start'])), z(case['expire']), sigval]
    else:
        req = [1, [kns, bytes(case['issuer'][1]), z(ts), pub, sg_sexp, atime_sexp(mk_time(case['start'])),
                   atime_sexp(mk_time(case['end']))], sigval]
    m = M(req)
    stratum = f"{fn}.{case['signer'] if not isinstance(case['signer'], list) else 'synthetic'}"
    if shared is not None:
        stratum = 'signer-history.' + stratum
    if verbose:
        print('implementation:', r if r != 'ok' else wire.hex(), '\nmodel:', m if is_err(m) else bytes(m[1][0]).hex())
    if is_err(m):
        if r == 'ok':
            ctx.disagree(fn, 'model raises, implementation returns', case, m, wire)
        elif exc_code(r) != m[1]:
            ctx.stat('error-class-differs')
        if r != 'ok':
            ctx.case(('c16', repr(case)), False, None, stratum + '.err')
            return None
    elif r != 'ok':
        ctx.disagree(fn, 'implementation raises, model returns', case, m[1][0], repr(r))
        if not isinstance(case['signer'], (list, tuple)):
            ctx.violation(fn, 'issuance-raises', f'a legal request and a shipped issuer ({case["signer"]}), but issuance raises '
                          f'{type(r).__name__} and no certificate is produced', case)
        return None
    given = b''.join(rec.blocks) if rec is not None and rec.blocks is not None else None
    if not is_err(m):
        m = m[1]
        if bytes(m[0]) != wire:
            ctx.disagree(fn, 'different certificate bytes', case, m[0], wire)
        if [bytes(c) for c in m[1]] != cname:
            ctx.disagree(fn, 'different returned name', case, m[1], cname)
        if given is not None and bytes(m[2]) != given:
            ctx.disagree(fn, 'different bytes handed to the signer', case, m[2], given)

    # ---- oracle on the implementation's certificate
    c = {**case, 'wire': wire}
    if history is not None:
        c['history'] = history
    issuer, nb, na = want
    # the domain of the property: the issuer id is a name component; the requested instants lie in years 1000..9999
    # (strftime('%Y') does not pad shorter years).  Outside it only the correspondence above is checked.
    if not wf_component(issuer):
        ctx.case(('c16', repr(case)), False, None, stratum + '.issuer-not-a-component')
        return wire
    years_ok = all(SEC_1000 <= x <= SEC_9999 for x in (nb, na))
    a = TG.read_num(wire, 0)[1]
    b = TG.read_num(wire, a)[1]
    value = wire[a + b:]
    if wire != G.tlv(6, value):
        ctx.violation(fn, 'outer-tlv', 'the certificate is not one Data element with a shortest-form, exact Length', c)
    vs = M([10, wire])
    if is_err(vs):
        ctx.violation(fn, 'not-well-formed', 'the certificate is refused by a strict reading of the format', c)
        return None
    vs = vs[1]
    try:
        pc = S.parse_certificate(wire)
        pvals = D.from_py(cert_desc(), pc)[1]
    except Exception as e:   # noqa
        ctx.violation('parse_certificate', 'roundtrip-raises', f'parse_certificate raises {type(e).__name__} on an issued certificate', c)
        return None
    if [D.val_sexp(v) for v in pvals] != jsonless(vs):
        ctx.violation('parse_certificate', 'parse-differs', 'parse_certificate does not return the strictly read field values', c)
    # parse_data on the same wire: name, MetaInfo, content, SignatureType/KeyLocator and signature as parse_certificate has them
    try:
        dn, dmeta, dcontent, dptrs = parse_data(wire)
        same = ([bytes(x) for x in dn] == [bytes(x) for x in pc.name]
                and (dmeta.content_type, dmeta.freshness_period) == (pc.meta_info.content_type, pc.meta_info.freshness_period)
                and (None if dcontent is None else bytes(dcontent)) == (None if pc.content is None else bytes(pc.content))
                and (None if dptrs.signature_value_buf is None else bytes(dptrs.signature_value_buf))
                == (None if pc.signature_value is None else bytes(pc.signature_value))
                and dptrs.signature_info.signature_type == pc.signature_info.signature_type)
        if not same:
            ctx.violation('parse_data', 'parse-data-differs', 'parse_data and parse_certificate disagree on the common fields', c)
    except Exception as e:   # noqa
        ctx.violation('parse_data', 'parse-data-raises', f'parse_data raises {type(e).__name__} on an issued certificate', c)
    kn_norm = [bytes(x) for x in Name.normalize(key_name_py(kn))]
    if nb_alt is not None and nb_alt != nb:
        try:
            if bytes(pc.signature_info.validity_period.not_before) == (datetime(1970, 1, 1) + timedelta(seconds=nb_alt)).strftime(FMT).encode():
                nb = nb_alt
                years_ok = all(SEC_1000 <= x <= SEC_9999 for x in (nb, na))
        except Exception:   # noqa
            pass
    if signer is None:
        st, kl = [], []
    else:
        st = D.val_sexp(('u', info[1][0][1])) if info[1][0] is not None else []
        kl = D.val_sexp(('m', [('n', [bytes(x) for x in Name.normalize(kl_name)]), None])) if kl_name is not None else []
    ok = M([11, [kn_norm, issuer, pub, z(nb), z(na), st, kl], vs])
    # field by field, on what parse_certificate returned
    try:
        pname = [bytes(x) for x in pc.name]
        if pname != cname:
            ctx.violation(fn, 'name-returned', 'the returned name is not the Name of the certificate', c)
        if pname[:-2] != kn_norm or len(pname) != len(kn_norm) + 2:
            ctx.violation(fn, 'name-prefix', 'the certificate name does not start with the key name followed by two components', c)
        elif pname[-2] != issuer:
            ctx.violation(fn, 'name-issuer', f'issuer-id component is {pname[-2].hex()}, expected {issuer.hex()}', c)
        elif pname[-1] != version_component(ts):
            ctx.violation(fn, 'name-version', 'last component is not the version made from the current timestamp', c)
        if pc.content is None or bytes(pc.content) != pub:
            ctx.violation(fn, 'content', 'the content is not the given public key', c)
        if pc.meta_info is None or pc.meta_info.content_type != 2:
            ctx.violation(fn, 'content-type', f'ContentType is {pc.meta_info.content_type if pc.meta_info else None}, not KEY', c)
        vp = pc.signature_info.validity_period
        for fld, val, exp in (('not-before', vp.not_before, nb), ('not-after', vp.not_after, na)) if years_ok else ():
            try:
                got = instant(datetime.strptime(bytes(val).decode(), FMT)) if len(bytes(val)) == 15 else None
            except ValueError:
                got = None
            if got != exp:
                ctx.violation(fn, fld, f'{fld} {bytes(val)!r} does not denote the requested instant '
                                       f'{datetime(1970, 1, 1) + timedelta(seconds=exp)} UTC', c)
        if signer is not None:
            if pc.signature_info.signature_type != (info[1][0][1] if info[1][0] is not None else None):
                ctx.violation(fn, 'signature-type', 'SignatureType is not the signer\'s', c)
            got_kl = pc.signature_info.key_locator
            got_kl = None if got_kl is None or got_kl.name is None else [bytes(x) for x in got_kl.name]
            exp_kl = None if kl_name is None else [bytes(x) for x in Name.normalize(kl_name)]
            if got_kl != exp_kl:
                if shared is None:
                    ctx.violation(fn, 'key-locator', 'KeyLocator is not the one configured in the issuing signer', c)
                else:
                    ctx.violation(fn, 'key-locator-reused-signer',
                                  f'KeyLocator {uri_of(got_kl)} is not the one configured in the issuing signer at the time of '
                                  f'issuance, {uri_of(exp_kl)} (a signer object used and reconfigured before: see history)', c)
            if pc.signature_value is None or bytes(pc.signature_value) != rec.sig:
                ctx.violation(fn, 'signature-value', 'SignatureValue is not what the signer wrote', c)
    except (AttributeError, TypeError) as e:
        ctx.violation(fn, 'fields-missing', f'a certificate field is missing ({e})', c)
    if ok != 1 and years_ok:
        ctx.violation(fn, 'spec-fields', 'Spec/CertSpec.cert_fields_ok fails on the strictly read certificate', c)
    # ---- signed portion and verification
    if signer is not None:
        sp = M([12, value])
        sp = bytes(sp[0]) if sp else None
        if sp != given:
            ctx.violation(fn, 'signed-bytes-not-spec', 'the bytes handed to the signer are not Name..SignatureInfo of the certificate', c)
        if verify is not None:
            ptrs = parse_data(wire)[3]
            if not verify(ptrs):
                ctx.violation(fn, 'signature-rejected', f"the certificate does not verify under the issuer's key ({case['signer']})", c)
            pos = wire.find(pub) + len(pub) // 2 if pub else 3
            bad = bytearray(wire)
            bad[pos] ^= 0x01
            try:
                ptrs2 = parse_data(bytes(bad))[3]
                if verify(ptrs2):
                    ctx.violation(fn, 'tampered-accepted', 'a certificate with one flipped content bit still verifies', c)
            except Exception:   # noqa
                pass
    ctx.case(('c16', repr(case)), True, {k: v for k, v in case.items() if k != 'pub' or not isinstance(v, bytes) or len(v) < 40},
             stratum + ('' if years_ok else '.year-below-1000'))
    return wire


SEC_1000 = instant(datetime(1000, 1, 1))
SEC_9999 = instant(datetime(9999, 12, 31, 23, 59, 59))


def version_component(ts):
    """Type 54 around the shortest of the 1/2/4/8-octet big-endian forms; None when there is none"""
    for w in (1, 2, 4, 8):
        if 0 <= ts < (1 << (8 * w)):
            return G.tlv(54, ts.to_bytes(w, 'big'))
    return None


def wf_component(c):
    """exactly one TLV element with a legal component Type"""
    try:
        t, a = TG.read_num(c, 0)
        n, b = TG.read_num(c, a)
    except Exception:   # noqa
        return False
    return 1 <= t <= 65535 and len(c) == a + b + n


def jsonless(vs):
    """model answer (lists/bytes/ints) in the same shape as val_sexp output"""
    def norm(x):
        if isinstance(x, (bytes, bytearray)):
            return bytes(x)
        if isinstance(x, (list, tuple)):
            return [norm(y) for y in x]
        return x
    return norm(vs)


# ---- generators ------------------------------------------------------------------------------------------------
OFFSETS = [None, None, 0, 0, 3600, -3600, 8 * 3600, -5 * 3600, 5 * 3600 + 45 * 60, 14 * 3600, -12 * 3600, 9 * 3600 + 30 * 60,
           -(3 * 3600 + 30 * 60), 1, -1, 86399, -86399, 12345]
BOUNDARY_TIMES = [
    (1970, 1, 1, 0, 0, 0), (1969, 12, 31, 23, 59, 59), (1999, 12, 31, 23, 59, 59), (2000, 1, 1, 0, 0, 0), (2000, 2, 28, 23, 59, 59),
    (2000, 2, 29, 0, 0, 0), (2000, 2, 29, 23, 59, 59), (2000, 3, 1, 0, 0, 0), (2100, 2, 28, 23, 59, 59), (2100, 3, 1, 0, 0, 0),
    (2024, 2, 29, 12, 0, 0), (2023, 2, 28, 23, 59, 59), (2024, 12, 31, 23, 59, 59), (2025, 1, 1, 0, 0, 0), (2025, 1, 1, 8, 0, 0),
    (2025, 1, 31, 23, 59, 59), (2025, 4, 30, 23, 59, 59), (2025, 9, 9, 9, 9, 9), (2025, 10, 10, 10, 10, 10), (2038, 1, 19, 3, 14, 7),
    (2038, 1, 19, 3, 14, 8), (2080, 2, 29, 0, 0, 0), (2400, 2, 29, 23, 59, 59), (1000, 1, 1, 0, 0, 0), (1900, 2, 28, 23, 59, 59),
    (1900, 3, 1, 0, 0, 0), (9999, 12, 31, 23, 59, 59), (9999, 1, 1, 0, 0, 0), (9979, 12, 31, 23, 59, 59), (1600, 2, 29, 1, 2, 3),
    (999, 12, 31, 23, 59, 59), (1, 1, 1, 0, 0, 0), (476, 9, 4, 5, 6, 7)]
DAY = 86400
DURATIONS = [0, 1, 59, 60, 61, 3599, 3600, DAY - 1, DAY, DAY + 1, 28 * DAY, 29 * DAY, 31 * DAY, 365 * DAY, 366 * DAY, 10 * DAY,
             20 * 365 * DAY, 7305 * DAY, 7305 * DAY - 1, 631152000, -1, -DAY, -366 * DAY, 10 ** 9, 10 ** 11, 3 * 10 ** 11, -3 * 10 ** 11,
             10 ** 15]


def rand_time(rng, boundary=0.6):
    if rng.random() < boundary:
        y, mo, d, h, mi, s = rng.choice(BOUNDARY_TIMES)
    else:
        y = rng.choice([rng.randint(1000, 9999), rng.randint(1970, 2100), rng.randint(1970, 2100), rng.randint(1, 9999)])
        mo = rng.randint(1, 12)
        d = rng.randint(1, 28)
        h, mi, s = rng.randint(0, 23), rng.randint(0, 59), rng.randint(0, 59)
    return [y, mo, d, h, mi, s, rng.choice([0, 0, 1, 999999, rng.randrange(10 ** 6)]), rng.choice(OFFSETS)]


def rand_key_name(rng):
    ident = [G.tlv(8, bytes(rng.choice(b'abcXYZ09') for _ in range(rng.randint(1, 6)))) for _ in range(rng.choice([0, 1, 1, 2, 3]))]
    kid = rng.choice([G.tlv(8, b'\x01'), G.tlv(8, G.rand_bytes(rng, 8)), G.tlv(8, b'key-1'), G.tlv(54, b'\x07')])
    comps = ident + [G.tlv(8, b'KEY'), kid]
    if rng.random() < 0.1:
        comps = G.name_of_tv(G.rand_name_tv(rng, 5))     # not a key name at all: new_cert does not care
    k = rng.random()
    from ndn.encoding import Name
    if k < 0.35:
        return ['list', comps]
    if k < 0.55:
        return ['wire', bytes(Name.to_bytes(comps))]
    if k < 0.85:
        try:
            return ['str', Name.to_str(comps)]
        except Exception:   # noqa
            return ['list', comps]
    if k < 0.93:
        return ['str', G.rand_uri(rng)]                  # arbitrary URI, often malformed
    return ['wire', G.mutate_bytes(rng, bytes(Name.to_bytes(comps)))]


def rand_issuer(rng):
    k = rng.random()
    if k < 0.35:
        return ['text', rng.choice(['NDNCERT', 'self', 'ca', 'root', 'issuer-1', 'a', 'v=1', 'seg=7', '8=x', '%41'])]
    if k < 0.5:
        return ['text', G.rand_uri_comp(rng)]
    if k < 0.55:
        return ['text', rng.choice(['', 'a/b', 'é', 'a=b=c', '%', 'sha256digest=00'])]
    if k < 0.9:
        return ['comp', G.tlv(rng.choice([8, 8, 8, 32, 54, 1, 253]), G.rand_bytes(rng, rng.choice([0, 1, 4, 8, 32])))]
    return ['comp', G.rand_bytes(rng, rng.choice([0, 1, 2, 5]))]     # not a component


SUBJECTS = ['P-256', 'P-384', 'P-521', 'rsa', 'ed25519']
ISSUERS = ['ecdsa-P-256', 'ecdsa-P-384', 'ecdsa-P-521', 'rsa', 'rsa-1028', 'rsa-2050', 'ed25519', 'hmac', 'digest', 'null', None]


def rand_case(rng, fn=None, signer='?', pub=None):
    fn = fn or rng.choice(['derive', 'derive', 'derive', 'new', 'self', 'req'])
    case = {'fn': fn, 'key_name': rand_key_name(rng), 'pub': pub if pub is not None else rng.choice(SUBJECTS),
            'signer': rng.choice(ISSUERS) if signer == '?' else signer, 'pub_form': rng.choice(PUB_FORMS),
            'ts': rng.choice([0, 1, 255, 256, 65535, 65536, 1 << 32, (1 << 32) - 1, 1790379136352, rng.getrandbits(41),
                              (1 << 64) - 1, 1 << 64])}
    if fn == 'self':
        t = rand_time(rng)
        t[7] = 0
        case['now'] = t
    elif fn == 'req':
        t = rand_time(rng)
        t[7] = 0
        case['now'] = t
        t2 = mk_time(t)
        try:
            t2 = t2 + timedelta(microseconds=rng.choice([0, 7, 999999, 1000000, 59 * 10 ** 6]))
        except OverflowError:
            pass
        case['now2'] = fields(t2) + [t2.microsecond, 0]
    elif fn == 'derive':
        case['issuer'] = rand_issuer(rng)
        case['start'] = rand_time(rng)
        case['expire'] = rng.choice(DURATIONS) if rng.random() < 0.6 else rng.randint(0, 20 * 366 * DAY)
    else:
        case['issuer'] = rand_issuer(rng)
        if case['issuer'][0] == 'text':
            case['issuer'] = ['comp', G.tlv(8, b'iss')]
        case['start'] = rand_time(rng)
        case['end'] = rand_time(rng)
    return case


def run(ctx):
    rng = ctx.rng
    M = ctx.call
    keys = P.Keys.get()
    # 0. the clock and calendar model against CPython (strftime, timedelta addition, astimezone)
    for _ in range(ctx.n(300, 20000)):
        t = rand_time(rng)
        dt = mk_time(t)
        got = M([6, FMT.encode(), fields(dt)])
        if is_err(got) or bytes(got[1]) != dt.strftime(FMT).encode():
            ctx.disagree('strftime', 'different text', t, got, dt.strftime(FMT))
        e = rng.choice(DURATIONS) if rng.random() < 0.5 else rng.randint(-10 ** 10, 10 ** 10)
        try:
            exp = fields(dt + timedelta(seconds=e))
        except OverflowError:
            exp = 'OverflowError'
        got = M([7, fields(dt), z(e)])
        if (exp == 'OverflowError') != is_err(got) or (not is_err(got) and got[1] != exp):
            ctx.disagree('datetime + timedelta', 'different result', [t, e], got, exp)
        if dt.utcoffset() is not None:
            try:
                exp = fields(dt.astimezone(UTC))
            except OverflowError:
                exp = 'OverflowError'
            got = M([8, atime_sexp(dt)])
            if (exp == 'OverflowError') != is_err(got) or (not is_err(got) and got[1] != exp):
                ctx.disagree('astimezone(UTC)', 'different result', t, got, exp)
        if 1000 <= dt.year:
            back = M([13, dt.strftime(FMT).encode()])
            if not back or back[0] != fields(dt):
                ctx.violation('strftime', 'validity-text-roundtrip', 'reading the 15 characters back does not give the fields', t)
            if M([14, fields(dt)]) != z(instant(dt.replace(tzinfo=None))):
                ctx.disagree('instant', 'seconds since the epoch differ', t, M([14, fields(dt)]), instant(dt.replace(tzinfo=None)))
        ctx.case(('time', repr(t), e), True, None, 'clock')
    # 1. every issuer x every subject x the four entry points
    for fn in ('derive', 'new', 'self', 'req'):
        for sg in ISSUERS:
            for sub in SUBJECTS:
                for _ in range(ctx.n(1, 12)):
                    one_case(ctx, M, keys, rand_case(rng, fn, sg, sub))
    # 2. random mixture, incl. malformed names / issuers / out-of-range times
    for _ in range(ctx.n(500, 8000)):
        one_case(ctx, M, keys, rand_case(rng))
    # 3. validity: every boundary start x duration, naive / UTC / offsets, on the cheapest signer
    for (y, mo, d, h, mi, s) in BOUNDARY_TIMES:
        for off in (OFFSETS[1::2] if ctx.thorough else [None, 0, rng.choice(OFFSETS[4:])]):
            for e in (DURATIONS if ctx.thorough else rng.sample(DURATIONS, 4)):
                one_case(ctx, M, keys, {'fn': 'derive', 'key_name': ['str', '/a/KEY/k'], 'pub': b'pk', 'signer': 'digest', 'ts': 5,
                                        'issuer': ['text', 'ca'], 'start': [y, mo, d, h, mi, s, 0, off], 'expire': e})
        one_case(ctx, M, keys, {'fn': 'self', 'key_name': ['str', '/a/KEY/k'], 'pub': b'pk', 'signer': 'digest', 'ts': 5,
                                'now': [y, mo, d, h, mi, s, 17, 0]})
        one_case(ctx, M, keys, {'fn': 'req', 'key_name': ['str', '/a/KEY/k'], 'pub': b'pk', 'signer': 'digest', 'ts': 5,
                                'now': [y, mo, d, h, mi, s, 999999, 0],
                                'now2': [y, mo, d, h, mi, s, 999999, 0] if (y, mo, d, h, mi, s) == (9999, 12, 31, 23, 59, 59) else
                                fields(datetime(y, mo, d, h, mi, s) + timedelta(seconds=1)) + [3, 0]})
    # 3b. signer histories: one signer object used, reconfigured (12 ways), used again -- every key type with a key locator
    for label, steps in signer_histories(ctx):
        run_signer_history(ctx, M, keys, label, steps)
    # 4. signature lengths: the (reserved, actual) triangle x packet lengths around the length-encoding boundaries
    tri = [(r, a) for r in [0, 1, 2, 3, 9, 32, 64, 71, 72, 73, 104, 139, 140, 250, 251, 252] for a in {0, 1, r // 2, max(0, r - 2), max(0, r - 1), r} if a <= r]
    tri += [(253, 253), (253, 252), (256, 256), (300, 300), (300, 10), (72, 73), (0, 1)]
    base_case = {'fn': 'derive', 'key_name': ['list', [G.tlv(8, b'k')]], 'signer': None, 'ts': 9, 'issuer': ['comp', G.tlv(8, b'i')],
                 'start': [2025, 1, 1, 0, 0, 0, 0, None], 'expire': 3600, 'pub': b''}
    w0 = one_case(ctx, M, keys, base_case)
    base = len(w0) - 2 if w0 else 70         # length of the value with empty content and no signature
    if not ctx.thorough:
        tri = rng.sample(tri, 25) + [(253, 252), (253, 253), (72, 70), (252, 0), (72, 73), (140, 137)]
    for (res, act) in tri:
        sizes = set()
        for bnd in (253, 65536):
            full = base + 2 + res + 2      # value length with the whole reserved space, roughly
            for k in ((0, 1, 2, 3, res - act, res - act + 1, res + 3) if ctx.thorough else (0, 2, res - act + 1)):
                sizes.add(max(0, bnd - full + k - 2))
        sizes |= {0, 30}
        if not ctx.thorough:
            sizes = set(s for s in sizes if s < 1000) | set(rng.sample(sorted(s for s in sizes if s >= 1000), 1))
        for n in sorted(sizes):
            one_case(ctx, M, keys, {**base_case, 'signer': ['syn', res, act], 'pub': G.rand_bytes(rng, n)})
    # real ECDSA issuers (DER length varies run to run) with contents that put the packet length near 253
    for sg in ('ecdsa-P-256', 'ecdsa-P-384', 'ecdsa-P-521'):
        for n in range(ctx.n(60, 110), ctx.n(100, 260), ctx.n(4, 1)):
            one_case(ctx, M, keys, {**base_case, 'signer': sg, 'pub': G.rand_bytes(rng, n)})


def replay(ctx, data):
    """./check C16 --replay evidence/replays/C16-oracle-….json : re-run the recorded case only (fresh key material)."""
    from harness.lib.core import unjson
    case = unjson(data.get('case'))
    case.pop('wire', None)
    if 'history' in case:          # a signer history: repeat the steps on one signer object, then the failing issuance
        hist = case.pop('history')

        def fix(st):
            st = list(st)
            if st[0] == 'issue':
                st[1] = {k: (list(v) if k in ('now', 'now2', 'start', 'end', 'issuer', 'key_name') else v) for k, v in st[1].items()}
            return st
        steps = [fix(st) for st in hist] + [fix(['issue', case])]
        print('signer:', case.get('signer'), 'steps:', steps)
        run_signer_history(ctx, ctx.call, P.Keys.get(), case['signer'], steps, verbose=True)
        return
    for k in ('now', 'now2', 'start', 'end'):
        if k in case:
            case[k] = list(case[k])
    print('case:', case)
    one_case(ctx, ctx.call, P.Keys.get(), case, verbose=True)
