"""C13 — ill-formed schemas and models are rejected; accepted models always terminate.

 A. schemas: every static error kind injected at every position of generated schemas (and the unmodified
    schema).  Correspondence: compile_lvs + Checker() vs Model compile + sanity_check (outcome and error
    class).  Oracle (Spec/LvsSem.static_ok, no_rule_sign_cycle, sign_acyclicb): a static error or a signing
    cycle between rules must raise SemanticError; a schema free of static errors must compile — whatever
    the spelling / order of rule names — and must pass the loader unless a name pattern is its own signer.
    Look-alike identifiers: a reference to an undefined rule must be an error whatever the identifier looks
    like.  Per schema (with 0..3 further temporary-rule definitions added, one schema with 11 of them) every
    identifier '<temporary rule id><sep><n>' (sep in '_', '', '__'; n = 0 .. number of temporary definitions
    + 1 — the shapes under which a compiler may file the definitions of a temporary rule) and near misses of
    the defined ids ('#a_1', '#a1', '#a_', one character less, other case) is used as a signer and as a
    reference in a name.
 B. models: every single-field corruption of compiled models (ids, parents, destinations, edge value/tag,
    signer lists, option shapes, version, start id), used directly and after encode + Checker.load.
    Correspondence: Checker() vs Model sanity_check (outcome, error class, model functions, trust roots).
    Oracle (Spec/LvsSem.saneb): accepted => sane; not sane => LvsModelError (not some other exception);
    sane and rejected => only for a signing cycle; every query on an accepted model ends within the step
    budget (budget exhaustion = "diverges") and agrees with the model's machine.
"""
from harness.props import lvs_common as L
from harness.props.c11 import name_pool

RULE = ('A: generated schemas x {undefined rule, temporary rule, self reference, 2-cycle} at every name position, '
        '{unknown lhs, unknown temp lhs, unknown rhs, temp rhs, unknown / temp function argument} at every constraint '
        'position, {unknown, temporary} signer at every position, rule-name permutations; look-alike identifiers: the '
        'schema + 0..3 extra temporary-rule definitions (ids may repeat; one fixed schema with 11) x every undefined '
        'identifier <temporary id><_ | nothing | __><n>, n = 0 .. #temporary definitions + 1, <temporary id>_, and near '
        'misses of defined ids (<id>_1, <id>1, <id>_, one character less, other case), each as a signer and as a name '
        'reference at a random (thorough: 3 random) rule / position; B: compiled models x every '
        'single-field corruption (version, start id, named-pattern count, node id, parent, edge destination, edge '
        'value/tag, signer entry, 11 option shapes) to {0, other valid id, out of range, 2^63, absent}, direct and '
        'via save/load, then all names to length 2 + guided names under a step budget; non-trivial = the input differs '
        'from a valid schema/model; distinct by (schema, injection) / (model, corruption)')
ASSUMPTIONS = ['a query is observed as diverging when it performs more than 200000 node look-ups',
               'TLV encoding of corrupted models uses the real codec (values it cannot encode are only tested in memory)']


def rename_rules(ast, rng):
    """same schema, rule names permuted (the order of rule names must not matter, †17)"""
    ids = list(dict.fromkeys(r[0] for r in ast if r[0][1] != '_'))
    perm = ids[:]
    rng.shuffle(perm)
    mp = dict(zip(ids, perm))

    def f(x):
        return mp.get(x, x)
    return [(f(r[0]), [(c[0], f(c[1])) if c[0] == 'ref' else c for c in r[1]], r[2], [f(s) for s in r[3]]) for r in ast]


SANEB_MAX_NODES = 400

EXTRA_TEMP_IDS = ['#_', '#_t', '#_K']


def with_temp_rules(ast, lits, extra, rng):
    """the schema plus [extra] further definitions of temporary rules (the same id may be defined several times),
    inserted at random places of the file"""
    a2 = list(ast)
    for _ in range(extra):
        nm = [('lit', rng.choice(lits)) if rng.random() < 0.6 else ('pat', '_') for _ in range(rng.randint(1, 3))]
        a2.insert(rng.randint(0, len(a2)), (rng.choice(EXTRA_TEMP_IDS), nm, [], []))
    return a2


def lookalike_ids(ast):
    """-> [(kind, identifier)]: identifiers a schema text can spell, defined nowhere in [ast], that look like the label of a
    definition: a temporary rule id followed by a separator and a number (the k-th temporary definition of a file is filed /
    reported under its id + a counter), and near misses of the ordinary rule ids"""
    ids = [r[0] for r in ast]
    temp_defs = [i for i in ids if i[1] == '_']
    out = []
    for rid in dict.fromkeys(temp_defs):
        for n in range(0, len(temp_defs) + 2):
            for sep in ('_', '', '__'):
                out.append(('label-like', f'{rid}{sep}{n}'))
        out.append(('label-like', rid + '_'))
    for rid in dict.fromkeys(i for i in ids if i[1] != '_'):
        for v in (rid + '_1', rid + '1', rid + '_', rid[:-1], '#' + rid[1:].swapcase()):
            if len(v) > 1:
                out.append(('near-miss', v))
    seen = set(ids)
    return [(k, v) for k, v in out if v not in seen and not seen.add(v)]


def inject_lookalikes(ast, rng, per_id):
    """every look-alike identifier as a signer and as a reference inside a name, at [per_id] random rules / positions each"""
    out = []
    for kind, ident in lookalike_ids(ast):
        for _ in range(per_id):
            i = rng.randrange(len(ast))
            rid, name, cons, sign = ast[i]
            j = rng.randint(0, len(sign))
            a2 = list(ast)
            a2[i] = (rid, name, cons, sign[:j] + [ident] + sign[j:])
            out.append((kind + '-signer', a2))
            i = rng.randrange(len(ast))
            rid, name, cons, sign = ast[i]
            j = rng.randint(0, len(name))
            a2 = list(ast)
            a2[i] = (rid, name[:j] + [('ref', ident)] + name[j:], cons, sign)
            out.append((kind + '-reference', a2))
    return out


# 11 temporary definitions (two-digit counters), two ids, ordinary rules before, between and after them
MANY_TEMP_RULES = (
    [('#a', [('lit', 'a'), ('pat', 'x')], [], ['#k'])]
    + [('#_' if i % 3 else '#_t', [('lit', 'b'), ('lit', 'v=0')][: 1 + i % 2] + [('pat', '_')] * (i % 3), [], []) for i in range(6)]
    + [('#k', [('lit', 'k'), ('pat', 'x')], [], [])]
    + [('#_' if i % 2 else '#_t', [('lit', 'c')] + [('pat', '_')] * (1 + i % 2), [], ['#k'] if i == 3 else []) for i in range(5)]
    + [('#b', [('ref', '#a'), ('lit', 'KEY')], [], ['#a'])])


def check_static(ctx, ast, fe, kind, tag):
    M = ctx.call
    rng = ctx.rng
    text = L.txt_ast(ast, rng)
    sa = L.sx_ast(ast)
    case = {'schema': text, 'injected': kind}
    r = L.impl_compile(text)
    m = M([1, sa])
    ok, nocyc = M([8, sa])
    stage = 'compile'
    if r[0] == 'ok':
        c = L.impl_checker(r[1], L.py_fns(fe))
        stage = 'checker'
        ms = M([2, m[1]]) if not L.is_err(m) else m
        out_i = c
        out_m = ms
    else:
        out_i, out_m = r, m
    if not L.same_outcome(m, r):
        ctx.disagree('compile_lvs', 'different outcome (ok / error class)', case, m if L.is_err(m) else 'ok', r[1:] if r[0] == 'err' else 'ok')
    elif r[0] == 'ok' and not L.same_outcome(out_m, out_i):
        ctx.disagree('Checker()', 'different outcome on a compiled model', case, out_m, out_i[1:] if out_i[0] == 'err' else 'ok')
    # oracle
    final = out_i
    if not ok or not nocyc:
        if final[0] == 'ok':
            ctx.violation('compile_lvs', 'accepts-' + (kind if kind != 'none' else ('static-error' if not ok else 'cyclic-signing')),
                          'schema with a static error / cyclic signing is compiled and loaded without error', case)
        elif final[1] != L.E_SEMANTIC:
            ctx.violation('compile_lvs', 'wrong-exception-' + final[2].split(':')[0],
                          'ill-formed schema raises something else than SemanticError', case)
    else:
        if r[0] == 'err':
            ctx.violation('compile_lvs', 'rejects-well-formed-schema', f'schema without static error does not compile: {r[2]}', case)
        elif final[0] == 'err':
            # Spec sign_acyclicb walks reach_set (cubic in the number of nodes): large models are judged on the error class only
            acyc = M([9, L.dump_model(r[1])]) if len(r[1].nodes) <= SANEB_MAX_NODES else 0
            if acyc or final[1] != L.E_SEMANTIC:
                ctx.violation('Checker()', 'compiled-model-rejected', f'model compiled from a well-formed schema is rejected: {final[2]}', case)
        elif len(r[1].nodes) > SANEB_MAX_NODES:
            ctx.stat('static.saneb-skipped-large-model')     # Spec saneb is cubic in the number of nodes (1200 nodes: minutes)
        else:
            if not M([7, L.dump_model(r[1])]):
                ctx.violation('compile_lvs', 'compiled-model-not-sane', 'compiled model breaks a documented sanity rule', case)
    ctx.case((text, kind), kind != 'none', case if kind in ('unknown-rhs',) else None,
             f'{tag}.{kind}.' + ('ok' if final[0] == 'ok' else str(final[1]) + '@' + stage))


def check_loader(ctx, mk, fe, label, names, via_load):
    """mk() -> corrupted LvsModel (fresh object)"""
    M = ctx.call
    from ndn.app_support.light_versec import Checker
    fns, sfe = L.py_fns(fe), L.sx_fnenv(fe)
    model = mk()
    if via_load:
        try:
            wire = bytes(model.encode())
        except Exception:   # noqa  (not encodable: only tested in memory)
            ctx.stat('loader.unencodable')
            return
        try:
            from ndn.app_support.light_versec import binary as bny
            model = bny.LvsModel.parse(wire)
        except Exception as e:   # noqa
            ctx.stat('loader.unparsable:' + type(e).__name__)
            return
    dump = L.dump_model(model)
    case = {'corruption': label, 'via_load': via_load, 'model': dump}
    c = L.impl_checker(model, fns)
    ms = M([2, dump])
    sane = bool(M([7, dump]))
    if not L.same_outcome(ms, c):
        ctx.disagree('Checker()', 'different outcome (ok / error class)', case, ms, c[1:] if c[0] == 'err' else 'ok')
    elif c[0] == 'ok':
        got = [sorted(x.encode() for x in c[1]._model_fns), sorted(c[1]._trust_roots)]
        want = [sorted(ms[1][0]), sorted(ms[1][1])]
        if got != want:
            ctx.disagree('Checker()', 'different model functions / trust roots', case, want, got)
    if c[0] == 'ok':
        if not sane:
            ctx.violation('Checker._sanity_check', 'accepts-model-breaking-a-sanity-rule',
                          'a model that breaks a documented sanity rule is accepted', case)
        chk = L.with_budget(c[1])
        impl = []
        for n in names:
            impl.append(L.impl_match(chk, n))
            if impl[-1][0] == 'err' and impl[-1][1] == L.E_FUEL:
                names = names[:len(impl)]        # one diverging query is enough (each costs the whole budget)
                break
        mod = M([13, dump, sfe, L.MODEL_FUEL, names])
        for i, n in enumerate(names):
            ri, mi = impl[i], mod[i]
            if ri[0] == 'err' and ri[1] == L.E_FUEL:
                ctx.violation('Checker.match', 'query-diverges-on-accepted-model', 'match() exceeds the step budget on an accepted model', dict(case, name=n))
            if not L.same_outcome(mi, ri):
                ctx.disagree('Checker.match', 'different outcome on a corrupted model', dict(case, name=n), mi, ri[1:] if ri[0] == 'err' else ri[1])
            elif ri[0] == 'ok' and L.canon(L.model_match_result(mi[1])) != L.canon(ri[1]):
                ctx.disagree('Checker.match', 'different matches on a corrupted model', dict(case, name=n), mi[1], ri[1])
        pairs = [[names[i], names[(i * 7 + 3) % len(names)]] for i in range(0, len(names), 3)]
        implc = []
        for p, k in pairs:
            implc.append(L.impl_check(chk, p, k))
            if implc[-1][0] == 'err' and implc[-1][1] == L.E_FUEL:
                pairs = pairs[:len(implc)]
                break
        modc = M([14, dump, sfe, L.MODEL_FUEL, pairs])
        for i, pq in enumerate(pairs):
            ri, mi = implc[i], modc[i]
            if ri[0] == 'err' and ri[1] == L.E_FUEL:
                ctx.violation('Checker.check', 'query-diverges-on-accepted-model', 'check() exceeds the step budget on an accepted model', dict(case, pair=pq))
            if not L.same_outcome(mi, ri) or (ri[0] == 'ok' and bool(mi[1]) != ri[1]):
                ctx.disagree('Checker.check', 'different outcome on a corrupted model', dict(case, pair=pq), mi, ri[1:])
    else:
        if not sane and c[1] != L.E_LVSMODEL:
            ctx.violation('Checker._sanity_check', 'wrong-exception-' + c[2].split(':')[0],
                          'a model breaking a sanity rule raises something else than LvsModelError', case)
        if sane and not (c[1] == L.E_SEMANTIC and not M([9, dump])):
            ctx.violation('Checker._sanity_check', 'rejects-sane-model', f'a model satisfying every sanity rule is rejected: {c[2]}', case)
    ctx.case((label, via_load, repr(dump)), label != 'intact', {'corruption': label} if label.endswith('parent=0') else None,
             'loader.' + label.split('=')[0].split('[')[0].split(':')[0] + ('.load' if via_load else '.mem') + ('.accepted' if c[0] == 'ok' else '.' + str(c[1])))


LOADER_SCHEMAS = [
    ([('#pkt', [('lit', 'a'), ('pat', 'x')], [], ['#key']),
      ('#key', [('lit', 'k'), ('pat', 'x')], [[('x', [('lit', 'v=0'), ('pat', 'x'), ('fn', '$eq', [('pat', 'x'), ('lit', 'a')])])]], [])], {'$eq': 'eq'}),
    ([('#a', [('pat', '_x')], [[('_x', [('lit', 'a'), ('lit', 'b')])]], []),
      ('#b', [('ref', '#a'), ('ref', '#a')], [], ['#a']),
      ('#c', [('pat', 'x'), ('lit', 'a'), ('pat', 'x')], [], ['#b', '#a'])], {}),
]


def run(ctx):
    rng = ctx.rng
    # ---- A. static errors -----------------------------------------------------------------------
    g = L.Gen(rng, signing=True)
    nsch = ctx.n(25, 400)
    done = 0
    while done < nsch:
        ast, fe, lits = g.schema()
        if L.too_big(L.impl_compile(L.txt_ast(ast))):
            ctx.stat('static.skipped-huge-schema')
            continue
        if not ctx.call([8, L.sx_ast(ast)])[0]:
            check_static(ctx, ast, fe, 'none', 'static')     # generator produced an ill-formed schema itself
            continue
        done += 1
        check_static(ctx, ast, fe, 'none', 'static')
        check_static(ctx, rename_rules(ast, rng), fe, 'none', 'static.renamed')
        inj = L.inject_errors(ast, rng)
        if not ctx.thorough and len(inj) > 60:
            inj = rng.sample(inj, 60)
        for kind, a2 in inj:
            check_static(ctx, a2, fe, kind, 'static')
        # look-alike identifiers, on the schema with 0..3 further temporary-rule definitions
        extra = done % 4
        base = with_temp_rules(ast, lits, extra, rng)
        if extra and ctx.call([8, L.sx_ast(base)])[0]:
            check_static(ctx, base, fe, 'none', 'static.temp-rules-added')
        for kind, a2 in inject_lookalikes(base, rng, ctx.n(1, 3)):
            check_static(ctx, a2, fe, kind, 'static.lookalike')
    check_static(ctx, MANY_TEMP_RULES, {}, 'none', 'static.many-temp-rules')
    for kind, a2 in inject_lookalikes(MANY_TEMP_RULES, rng, ctx.n(1, 3)):
        check_static(ctx, a2, {}, kind, 'static.lookalike')
    # ---- B. corrupted models ----------------------------------------------------------------------
    from ndn.app_support.light_versec import compile_lvs, binary as bny
    schemas = list(LOADER_SCHEMAS)
    g2 = L.Gen(rng, signing=True, size=3)
    while len(schemas) < ctx.n(5, 40):
        ast, fe, lits = g2.schema()
        r = L.impl_compile(L.txt_ast(ast))
        if r[0] == 'ok' and len(r[1].nodes) <= 14 and L.impl_checker(r[1], L.py_fns(fe))[0] == 'ok':
            schemas.append((ast, fe))
    for ast, fe in schemas:
        text = L.txt_ast(ast)

        wire = bytes(compile_lvs(text).encode())

        def mk(wire=wire):
            return bny.LvsModel.parse(wire)
        base = mk()
        alpha = L.alphabet(L.all_lits(ast))[:4]
        names = list(L.names_upto(alpha, 2)) + L.guided_names(rng, base, alpha, 12) + [[L.DIGEST]]
        check_loader(ctx, mk, fe, 'intact', names, False)
        check_loader(ctx, mk, fe, 'intact', names, True)
        for label, mut in L.corruptions(mk):
            def mk2(mut=mut):
                m = mk()
                mut(m)
                return m
            check_loader(ctx, mk2, fe, label, names, False)
            check_loader(ctx, mk2, fe, label, names, True)
