"""C13 — ill-formed schemas and models are rejected; accepted models always terminate.

 A. schemas: every static error kind injected at every position of generated schemas (and the unmodified
    schema).  Correspondence: compile_lvs + Checker() vs Model compile + sanity_check (outcome and error
    class).  Oracle (Spec/LvsSem.static_ok, no_rule_sign_cycle, sign_acyclicb): a static error or a signing
    cycle between rules must raise SemanticError; a schema free of static errors must compile — whatever
    the spelling / order of rule names — and must pass the loader unless a name pattern is its own signer.
    Look-alike identifiers: a reference to an undefined rule must be an error whatever the identifier looks
    like.  Per schema (with 0..3 further temporary-rule definitions added, one schema with 11 of them) every
    identifier '<temporary rule id><sep><n>' (sep in '_', '', '__'; n = 0 .. number of temporary definitions
    + 1 — the shapes under which a compiler may file the definitions of a temporary rule) and near misses of
    the defined ids ('#a_1', '#a1', '#a_', one character less, other case) is used as a signer and as a
    reference in a name.
 B. models: every single-field corruption of compiled models (ids, parents, destinations, edge value/tag,
    signer lists, option shapes, version, start id), used directly and after encode + Checker.load.
    Correspondence: Checker() vs Model sanity_check (outcome, error class, model functions, trust roots).
    Oracle (Spec/LvsSem.saneb): accepted => sane; not sane => LvsModelError (not some other exception);
    sane and rejected => only for a signing cycle; every query on an accepted model ends within the step
    budget (budget exhaustion = "diverges") and agrees with the model's machine.
    The same on the wire: every TLV element of the encoded model removed (one at a time at every depth; one type everywhere),
    loaded with Checker.load.  The model handed to the specification is what an independent reader of the documented format
    finds in the bytes -- not the object the library's parser builds (a parser may fill in what is absent).
"""
from harness.props import lvs_common as L
from harness.props.c11 import name_pool

RULE = ('A: generated schemas x {undefined rule, temporary rule, self reference, 2-cycle} at every name position, '
        '{unknown lhs, unknown temp lhs, unknown rhs, temp rhs, unknown / temp function argument} at every constraint '
        'position, {unknown, temporary} signer at every position, rule-name permutations; look-alike identifiers: the '
        'schema + 0..3 extra temporary-rule definitions (ids may repeat; one fixed schema with 11) x every undefined '
        'identifier <temporary id><_ | nothing | __><n>, n = 0 .. #temporary definitions + 1, <temporary id>_, and near '
        'misses of defined ids (<id>_1, <id>1, <id>_, one character less, other case), each as a signer and as a name '
        'reference at a random (thorough: 3 random) rule / position; B: compiled models x every '
        'single-field corruption (version, start id, named-pattern count, node id, parent, edge destination, edge '
        'value/tag, signer entry, 11 option shapes) to {0, other valid id, out of range, 2^63, absent}, direct and '
        'via save/load; the same compiled models as BYTES x every single TLV element at every nesting depth removed (Version, '
        'StartId, NamedPatternCnt, each Node, and inside: NodeId, ParentId, Identifier, each edge and its NodeId / Value / Tag, '
        'Constraint, ConsOption and its Value / Tag / UserFnCall, UserFnId, FnArgs, KeyNodeId, TagSymbol and its Tag / Identifier) '
        'and every TLV type removed everywhere at once, loaded with Checker.load and judged on what a reader of the documented '
        'format (in the harness, no ndn.encoding) finds in those bytes; the parsed object is compared with that reading; '
        'then all names to length 2 + guided names under a step budget; non-trivial = the input differs '
        'from a valid schema/model; distinct by (schema, injection) / (model, corruption)')
ASSUMPTIONS = ['a query is observed as diverging when it performs more than 200000 node look-ups',
               'TLV encoding of corrupted models uses the real codec (values it cannot encode are only tested in memory)']


def rename_rules(ast, rng):
    """same schema, rule names permuted (the order of rule names must not matter, †17)"""
    ids = list(dict.fromkeys(r[0] for r in ast if r[0][1] != '_'))
    perm = ids[:]
    rng.shuffle(perm)
    mp = dict(zip(ids, perm))

    def f(x):
        return mp.get(x, x)
    return [(f(r[0]), [(c[0], f(c[1])) if c[0] == 'ref' else c for c in r[1]], r[2], [f(s) for s in r[3]]) for r in ast]


SANEB_MAX_NODES = 400

EXTRA_TEMP_IDS = ['#_', '#_t', '#_K']


def with_temp_rules(ast, lits, extra, rng):
    """the schema plus [extra] further definitions of temporary rules (the same id may be defined several times),
    inserted at random places of the file"""
    a2 = list(ast)
    for _ in range(extra):
        nm = [('lit', rng.choice(lits)) if rng.random() < 0.6 else ('pat', '_') for _ in range(rng.randint(1, 3))]
        a2.insert(rng.randint(0, len(a2)), (rng.choice(EXTRA_TEMP_IDS), nm, [], []))
    return a2


def lookalike_ids(ast):
    """-> [(kind, identifier)]: identifiers a schema text can spell, defined nowhere in [ast], that look like the label of a
    definition: a temporary rule id followed by a separator and a number (the k-th temporary definition of a file is filed /
    reported under its id + a counter), and near misses of the ordinary rule ids"""
    ids = [r[0] for r in ast]
    temp_defs = [i for i in ids if i[1] == '_']
    out = []
    for rid in dict.fromkeys(temp_defs):
        for n in range(0, len(temp_defs) + 2):
            for sep in ('_', '', '__'):
                out.append(('label-like', f'{rid}{sep}{n}'))
        out.append(('label-like', rid + '_'))
    for rid in dict.fromkeys(i for i in ids if i[1] != '_'):
        for v in (rid + '_1', rid + '1', rid + '_', rid[:-1], '#' + rid[1:].swapcase()):
            if len(v) > 1:
                out.append(('near-miss', v))
    seen = set(ids)
    return [(k, v) for k, v in out if v not in seen and not seen.add(v)]


def inject_lookalikes(ast, rng, per_id):
    """every look-alike identifier as a signer and as a reference inside a name, at [per_id] random rules / positions each"""
    out = []
    for kind, ident in lookalike_ids(ast):
        for _ in range(per_id):
            i = rng.randrange(len(ast))
            rid, name, cons, sign = ast[i]
            j = rng.randint(0, len(sign))
            a2 = list(ast)
            a2[i] = (rid, name, cons, sign[:j] + [ident] + sign[j:])
            out.append((kind + '-signer', a2))
            i = rng.randrange(len(ast))
            rid, name, cons, sign = ast[i]
            j = rng.randint(0, len(name))
            a2 = list(ast)
            a2[i] = (rid, name[:j] + [('ref', ident)] + name[j:], cons, sign)
            out.append((kind + '-reference', a2))
    return out


# 11 temporary definitions (two-digit counters), two ids, ordinary rules before, between and after them
MANY_TEMP_RULES = (
    [('#a', [('lit', 'a'), ('pat', 'x')], [], ['#k'])]
    + [('#_' if i % 3 else '#_t', [('lit', 'b'), ('lit', 'v=0')][: 1 + i % 2] + [('pat', '_')] * (i % 3), [], []) for i in range(6)]
    + [('#k', [('lit', 'k'), ('pat', 'x')], [], [])]
    + [('#_' if i % 2 else '#_t', [('lit', 'c')] + [('pat', '_')] * (1 + i % 2), [], ['#k'] if i == 3 else []) for i in range(5)]
    + [('#b', [('ref', '#a'), ('lit', 'KEY')], [], ['#a'])])


def check_static(ctx, ast, fe, kind, tag):
    M = ctx.call
    rng = ctx.rng
    text = L.txt_ast(ast, rng)
    sa = L.sx_ast(ast)
    case = {'schema': text, 'injected': kind}
    r = L.impl_compile(text)
    m = M([1, sa])
    ok, nocyc = M([8, sa])
    stage = 'compile'
    if r[0] == 'ok':
        c = L.impl_checker(r[1], L.py_fns(fe))
        stage = 'checker'
        ms = M([2, m[1]]) if not L.is_err(m) else m
        out_i = c
        out_m = ms
    else:
        out_i, out_m = r, m
    if not L.same_outcome(m, r):
        ctx.disagree('compile_lvs', 'different outcome (ok / error class)', case, m if L.is_err(m) else 'ok', r[1:] if r[0] == 'err' else 'ok')
    elif r[0] == 'ok' and not L.same_outcome(out_m, out_i):
        ctx.disagree('Checker()', 'different outcome on a compiled model', case, out_m, out_i[1:] if out_i[0] == 'err' else 'ok')
    # oracle
    final = out_i
    if not ok or not nocyc:
        if final[0] == 'ok':
            ctx.violation('compile_lvs', 'accepts-' + (kind if kind != 'none' else ('static-error' if not ok else 'cyclic-signing')),
                          'schema with a static error / cyclic signing is compiled and loaded without error', case)
        elif final[1] != L.E_SEMANTIC:
            ctx.violation('compile_lvs', 'wrong-exception-' + final[2].split(':')[0],
                          'ill-formed schema raises something else than SemanticError', case)
    else:
        if r[0] == 'err':
            ctx.violation('compile_lvs', 'rejects-well-formed-schema', f'schema without static error does not compile: {r[2]}', case)
        elif final[0] == 'err':
            # Spec sign_acyclicb walks reach_set (cubic in the number of nodes): large models are judged on the error class only
            acyc = M([9, L.dump_model(r[1])]) if len(r[1].nodes) <= SANEB_MAX_NODES else 0
            if acyc or final[1] != L.E_SEMANTIC:
                ctx.violation('Checker()', 'compiled-model-rejected', f'model compiled from a well-formed schema is rejected: {final[2]}', case)
        elif len(r[1].nodes) > SANEB_MAX_NODES:
            ctx.stat('static.saneb-skipped-large-model')     # Spec saneb is cubic in the number of nodes (1200 nodes: minutes)
        else:
            if not M([7, L.dump_model(r[1])]):
                ctx.violation('compile_lvs', 'compiled-model-not-sane', 'compiled model breaks a documented sanity rule', case)
    ctx.case((text, kind), kind != 'none', case if kind in ('unknown-rhs',) else None,
             f'{tag}.{kind}.' + ('ok' if final[0] == 'ok' else str(final[1]) + '@' + stage))


def check_loader(ctx, mk, fe, label, names, via_load, wire=None):
    """mk() -> corrupted LvsModel (fresh object); or wire = corrupted bytes (then mk is unused): the model is what the
    documented format reads out of these bytes, the implementation is Checker.load on them"""
    M = ctx.call
    fns, sfe = L.py_fns(fe), L.sx_fnenv(fe)
    if wire is not None:
        return check_loader_core(ctx, wire_dump(wire), impl_load(wire, fns), sfe, label, names, 'wire', 'Checker.load',
                                 wire=wire)
    model = mk()
    if via_load:
        try:
            wire = bytes(model.encode())
        except Exception:   # noqa  (not encodable: only tested in memory)
            ctx.stat('loader.unencodable')
            return
        try:
            from ndn.app_support.light_versec import binary as bny
            model = bny.LvsModel.parse(wire)
        except Exception as e:   # noqa
            ctx.stat('loader.unparsable:' + type(e).__name__)
            return
    check_loader_core(ctx, L.dump_model(model), L.impl_checker(model, fns), sfe, label, names,
                      'load' if via_load else 'mem', 'Checker()')


def _ctx_key(kv):
    """a pattern whose TagSymbol carries no Identifier is reported under the key None: sortable next to bytes"""
    return (kv[0] is not None, kv[0] or b'', kv[1])


def impl_match(chk, name):
    """as lvs_common.impl_match, the context sorted with absent identifiers first"""
    if isinstance(chk.model.nodes, L.CountingList):
        chk.model.nodes.left = L.IMPL_BUDGET
    try:
        out = []
        for rn, cx in chk.match(name):
            out.append([[x.encode() for x in rn],
                        sorted([[k.encode() if isinstance(k, str) else k, bytes(v)] for k, v in cx.items()], key=_ctx_key)])
        return ('ok', out)
    except Exception as e:   # noqa
        return ('err', L.exc_code(e), type(e).__name__ + ': ' + str(e)[:120])


def model_match_result(ans):
    return [[list(rn), sorted([[(k[0] if k else None), v] for k, v in cx], key=_ctx_key)] for rn, cx in ans]


def check_loader_core(ctx, dump, c, sfe, label, names, how, site, wire=None):
    """dump: the model (nested lists, what the specification is asked about); c: outcome of building the checker"""
    M = ctx.call
    via_load = how != 'mem'
    case = {'corruption': label, 'via_load': via_load, 'model': dump}
    if wire is not None:
        case['wire'] = wire.hex()
        got = parsed_dump(wire)
        if got is not None and L.canon(got) != L.canon(dump):
            ctx.disagree('LvsModel.parse', 'the parsed model differs from what the documented format reads out of the bytes',
                         case, dump, got)
    ms = M([2, dump])
    sane = bool(M([7, dump]))
    if not L.same_outcome(ms, c):
        ctx.disagree(site, 'different outcome (ok / error class)', case, ms, c[1:] if c[0] == 'err' else 'ok')
    elif c[0] == 'ok':
        got = [sorted(x.encode() for x in c[1]._model_fns), sorted(c[1]._trust_roots)]
        want = [sorted(ms[1][0]), sorted(ms[1][1])]
        if got != want:
            ctx.disagree(site, 'different model functions / trust roots', case, want, got)
    san_site = 'Checker._sanity_check' if wire is None else 'Checker.load'
    if c[0] == 'ok':
        if not sane:
            ctx.violation(san_site, 'accepts-model-breaking-a-sanity-rule' if wire is None else
                          'accepts-bytes-breaking-a-sanity-rule:' + label.split(':')[0],
                          'a model that breaks a documented sanity rule is accepted', case)
        chk = L.with_budget(c[1])
        impl = []
        for n in names:
            impl.append(impl_match(chk, n))
            if impl[-1][0] == 'err' and impl[-1][1] == L.E_FUEL:
                names = names[:len(impl)]        # one diverging query is enough (each costs the whole budget)
                break
        mod = M([13, dump, sfe, L.MODEL_FUEL, names])
        for i, n in enumerate(names):
            ri, mi = impl[i], mod[i]
            if ri[0] == 'err' and ri[1] == L.E_FUEL:
                ctx.violation('Checker.match', 'query-diverges-on-accepted-model', 'match() exceeds the step budget on an accepted model', dict(case, name=n))
            if not L.same_outcome(mi, ri):
                ctx.disagree('Checker.match', 'different outcome on a corrupted model', dict(case, name=n), mi, ri[1:] if ri[0] == 'err' else ri[1])
            elif ri[0] == 'ok' and L.canon(model_match_result(mi[1])) != L.canon(ri[1]):
                ctx.disagree('Checker.match', 'different matches on a corrupted model', dict(case, name=n), mi[1], ri[1])
        pairs = [[names[i], names[(i * 7 + 3) % len(names)]] for i in range(0, len(names), 3)]
        implc = []
        for p, k in pairs:
            implc.append(L.impl_check(chk, p, k))
            if implc[-1][0] == 'err' and implc[-1][1] == L.E_FUEL:
                pairs = pairs[:len(implc)]
                break
        modc = M([14, dump, sfe, L.MODEL_FUEL, pairs])
        for i, pq in enumerate(pairs):
            ri, mi = implc[i], modc[i]
            if ri[0] == 'err' and ri[1] == L.E_FUEL:
                ctx.violation('Checker.check', 'query-diverges-on-accepted-model', 'check() exceeds the step budget on an accepted model', dict(case, pair=pq))
            if not L.same_outcome(mi, ri) or (ri[0] == 'ok' and bool(mi[1]) != ri[1]):
                ctx.disagree('Checker.check', 'different outcome on a corrupted model', dict(case, pair=pq), mi, ri[1:])
    else:
        if not sane and c[1] != L.E_LVSMODEL:
            ctx.violation(san_site, 'wrong-exception-' + c[2].split(':')[0],
                          'a model breaking a sanity rule raises something else than LvsModelError', case)
        if sane and not (c[1] == L.E_SEMANTIC and not M([9, dump])):
            ctx.violation(san_site, 'rejects-sane-model', f'a model satisfying every sanity rule is rejected: {c[2]}', case)
    stratum = label.split('=')[0].split('[')[0].split(':')[0] if wire is None else wire_stratum(label)
    ctx.case((label, how, repr(dump)), label != 'intact', {'corruption': label} if label.endswith('parent=0') else None,
             'loader.' + stratum + '.' + how + ('.accepted' if c[0] == 'ok' else '.' + str(c[1])))


# ---------------------------------------------------------------------------------------------
# the binary format as documented (docs/src/lvs/binary-format.rst), read independently of ndn.encoding: the loader is judged
# on what the BYTES say, not on the object its parser builds out of them (a parser may fill in what is not there)
T_VALUE, T_TAG, T_NODE_ID, T_FN_ID, T_IDENT, T_FN_CALL, T_FN_ARGS = 0x21, 0x23, 0x25, 0x27, 0x29, 0x31, 0x33
T_OPTION, T_CONSTRAINT, T_VEDGE, T_PEDGE, T_KEY_NODE, T_PARENT = 0x41, 0x43, 0x51, 0x53, 0x55, 0x57
T_VERSION, T_NODE, T_SYMBOL, T_NPC = 0x61, 0x63, 0x67, 0x69
CONTAINERS = {T_NODE, T_SYMBOL, T_VEDGE, T_PEDGE, T_CONSTRAINT, T_OPTION, T_FN_CALL, T_FN_ARGS}
T_NAMES = {T_VALUE: 'Value', T_TAG: 'Tag', T_NODE_ID: 'NodeId', T_FN_ID: 'UserFnId', T_IDENT: 'Identifier', T_FN_CALL: 'UserFnCall',
           T_FN_ARGS: 'FnArgs', T_OPTION: 'ConsOption', T_CONSTRAINT: 'Constraint', T_VEDGE: 'ValueEdge', T_PEDGE: 'PatternEdge',
           T_KEY_NODE: 'KeyNodeId', T_PARENT: 'ParentId', T_VERSION: 'Version', T_NODE: 'Node', T_SYMBOL: 'TagSymbol',
           T_NPC: 'NamedPatternCnt'}


def _rd_var(buf, i):
    x = buf[i]
    if x < 253:
        return x, i + 1
    w = {253: 2, 254: 4, 255: 8}[x]
    return int.from_bytes(buf[i + 1:i + 1 + w], 'big'), i + 1 + w


def _wr_var(n):
    if n < 253:
        return bytes([n])
    for mark, w in ((253, 2), (254, 4), (255, 8)):
        if n < 1 << (8 * w):
            return bytes([mark]) + n.to_bytes(w, 'big')


def tlv_tree(buf):
    """bytes -> [[type, payload]], payload = bytes (leaf) or a list again (the documented container types)"""
    out, i = [], 0
    while i < len(buf):
        t, i = _rd_var(buf, i)
        ln, i = _rd_var(buf, i)
        v = bytes(buf[i:i + ln])
        assert len(v) == ln
        i += ln
        out.append([t, tlv_tree(v) if t in CONTAINERS else v])
    return out


def tlv_bytes(tree):
    out = b''
    for t, v in tree:
        vb = tlv_bytes(v) if isinstance(v, list) else v
        out += _wr_var(t) + _wr_var(len(vb)) + vb
    return out


def _one(tree, t, conv):
    for tt, v in tree:
        if tt == t:
            return [conv(v)]
    return []


def _all(tree, t, conv):
    return [conv(v) for tt, v in tree if tt == t]


def _uint(v):
    return int.from_bytes(v, 'big')


def wire_dump(wire):
    """what the documented format reads out of the bytes, in the shape of lvs_common.dump_model (an absent TLV is absent)"""
    def arg(t):
        return [_one(t, T_VALUE, bytes), _one(t, T_TAG, _uint)]

    def fn(t):
        return [_one(t, T_FN_ID, bytes), _all(t, T_FN_ARGS, arg)]

    def copt(t):
        return [_one(t, T_VALUE, bytes), _one(t, T_TAG, _uint), _one(t, T_FN_CALL, fn)]

    def node(t):
        return [_one(t, T_NODE_ID, _uint), _one(t, T_PARENT, _uint), _all(t, T_IDENT, bytes),
                _all(t, T_VEDGE, lambda e: [_one(e, T_NODE_ID, _uint), _one(e, T_VALUE, bytes)]),
                _all(t, T_PEDGE, lambda e: [_one(e, T_NODE_ID, _uint), _one(e, T_TAG, _uint),
                                            _all(e, T_CONSTRAINT, lambda c: _all(c, T_OPTION, copt))]),
                _all(t, T_KEY_NODE, _uint)]
    t = tlv_tree(wire)
    return [_one(t, T_VERSION, _uint), _one(t, T_NODE_ID, _uint), _one(t, T_NPC, _uint), _all(t, T_NODE, node),
            _all(t, T_SYMBOL, lambda s: [_one(s, T_TAG, _uint), _one(s, T_IDENT, bytes)])]


def wire_deletions(wire):
    """every single TLV element of the model, at every nesting depth, REMOVED (enclosing lengths adjusted), and for every TLV
    type every element of that type removed at once.  -> [(label, bytes)]"""
    tree = tlv_tree(wire)
    assert tlv_bytes(tree) == bytes(wire)
    out = []

    def without(t, path):
        k = path[0]
        if len(path) == 1:
            return t[:k] + t[k + 1:]
        return t[:k] + [[t[k][0], without(t[k][1], path[1:])]] + t[k + 1:]

    def walk(t, path, names):
        cnt = {}
        for k, (tt, v) in enumerate(t):
            nm = names + [f'{T_NAMES.get(tt, hex(tt))}[{cnt.get(tt, 0)}]']
            cnt[tt] = cnt.get(tt, 0) + 1
            out.append(('absent:' + '/'.join(nm), tlv_bytes(without(tree, path + [k]))))
            if isinstance(v, list):
                walk(v, path + [k], nm)
    walk(tree, [], [])

    def strip(t, ty):
        return [[tt, strip(v, ty) if isinstance(v, list) else v] for tt, v in t if tt != ty]

    def types(t):
        for tt, v in t:
            yield tt
            if isinstance(v, list):
                yield from types(v)
    for ty in sorted(set(types(tree))):
        out.append((f'absent-everywhere:{T_NAMES.get(ty, hex(ty))}', tlv_bytes(strip(tree, ty))))
    return out


def wire_stratum(label):
    """'absent:Node[2]/PatternEdge[0]/NodeId[0]' -> 'absent:Node/PatternEdge/NodeId'"""
    import re
    return re.sub(r'\[\d+\]', '', label)


def impl_load(wire, fns):
    from ndn.app_support.light_versec import Checker
    try:
        return ('ok', Checker.load(wire, fns))
    except BaseException as e:   # noqa  (RecursionError is an Exception; keep KeyboardInterrupt out)
        if isinstance(e, KeyboardInterrupt):
            raise
        return ('err', L.exc_code(e), type(e).__name__ + ': ' + str(e)[:120])


def parsed_dump(wire):
    from ndn.app_support.light_versec import binary as bny
    try:
        return L.dump_model(bny.LvsModel.parse(wire))
    except Exception:   # noqa  (the outcome of loading is judged through impl_load)
        return None


LOADER_SCHEMAS = [
    ([('#pkt', [('lit', 'a'), ('pat', 'x')], [], ['#key']),
      ('#key', [('lit', 'k'), ('pat', 'x')], [[('x', [('lit', 'v=0'), ('pat', 'x'), ('fn', '$eq', [('pat', 'x'), ('lit', 'a')])])]], [])], {'$eq': 'eq'}),
    ([('#a', [('pat', '_x')], [[('_x', [('lit', 'a'), ('lit', 'b')])]], []),
      ('#b', [('ref', '#a'), ('ref', '#a')], [], ['#a']),
      ('#c', [('pat', 'x'), ('lit', 'a'), ('pat', 'x')], [], ['#b', '#a'])], {}),
]


def run(ctx):
    rng = ctx.rng
    # ---- A. static errors -----------------------------------------------------------------------
    g = L.Gen(rng, signing=True)
    nsch = ctx.n(25, 400)
    done = 0
    while done < nsch:
        ast, fe, lits = g.schema()
        if L.too_big(L.impl_compile(L.txt_ast(ast))):
            ctx.stat('static.skipped-huge-schema')
            continue
        if not ctx.call([8, L.sx_ast(ast)])[0]:
            check_static(ctx, ast, fe, 'none', 'static')     # generator produced an ill-formed schema itself
            continue
        done += 1
        check_static(ctx, ast, fe, 'none', 'static')
        check_static(ctx, rename_rules(ast, rng), fe, 'none', 'static.renamed')
        inj = L.inject_errors(ast, rng)
        if not ctx.thorough and len(inj) > 60:
            inj = rng.sample(inj, 60)
        for kind, a2 in inj:
            check_static(ctx, a2, fe, kind, 'static')
        # look-alike identifiers, on the schema with 0..3 further temporary-rule definitions
        extra = done % 4
        base = with_temp_rules(ast, lits, extra, rng)
        if extra and ctx.call([8, L.sx_ast(base)])[0]:
            check_static(ctx, base, fe, 'none', 'static.temp-rules-added')
        for kind, a2 in inject_lookalikes(base, rng, ctx.n(1, 3)):
            check_static(ctx, a2, fe, kind, 'static.lookalike')
    check_static(ctx, MANY_TEMP_RULES, {}, 'none', 'static.many-temp-rules')
    for kind, a2 in inject_lookalikes(MANY_TEMP_RULES, rng, ctx.n(1, 3)):
        check_static(ctx, a2, {}, kind, 'static.lookalike')
    # ---- B. corrupted models ----------------------------------------------------------------------
    from ndn.app_support.light_versec import compile_lvs, binary as bny
    schemas = list(LOADER_SCHEMAS)
    g2 = L.Gen(rng, signing=True, size=3)
    while len(schemas) < ctx.n(5, 40):
        ast, fe, lits = g2.schema()
        r = L.impl_compile(L.txt_ast(ast))
        if r[0] == 'ok' and len(r[1].nodes) <= 14 and L.impl_checker(r[1], L.py_fns(fe))[0] == 'ok':
            schemas.append((ast, fe))
    for ast, fe in schemas:
        text = L.txt_ast(ast)

        wire = bytes(compile_lvs(text).encode())

        def mk(wire=wire):
            return bny.LvsModel.parse(wire)
        base = mk()
        alpha = L.alphabet(L.all_lits(ast))[:4]
        names = list(L.names_upto(alpha, 2)) + L.guided_names(rng, base, alpha, 12) + [[L.DIGEST]]
        check_loader(ctx, mk, fe, 'intact', names, False)
        check_loader(ctx, mk, fe, 'intact', names, True)
        for label, mut in L.corruptions(mk):
            def mk2(mut=mut):
                m = mk()
                mut(m)
                return m
            check_loader(ctx, mk2, fe, label, names, False)
            check_loader(ctx, mk2, fe, label, names, True)
        # the same on the bytes: every TLV element removed (what is judged is what the bytes say)
        check_loader(ctx, None, fe, 'intact', names, True, wire=wire)
        for label, w2 in wire_deletions(wire):
            check_loader(ctx, None, fe, label, names, True, wire=w2)
