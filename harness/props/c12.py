"""C12 — the signing check holds exactly when the schema lets that key sign that packet.

Per generated schema with signing relations:
 * correspondence: Checker.check vs Model/LvsChecker.lvs_check (run on the implementation's own tree) on
   pairs (packet name, key name);
 * direct oracle: Spec/LvsSem.can_sign evaluated on the source AST must equal the implementation's answer;
   for schemas whose constraints mention no other pattern ("closed"), a yes for a key name that matches no
   rule at all is reported separately.
Pairs: packet names that match a rule (all names to a length bound + tree-guided ones), key names likewise,
plus unrelated, empty and digest-suffixed names.
Digest clause ("a trailing implicit-digest component on either name is ignored"): per schema a few base pairs
(allowed ones first) are asked in every combination of {bare, +digest A, +digest B} on the packet name x the same
on the key name, plus suffixes of which only the last component / nothing may be dropped (two digests, a
ParametersSha256-typed component, a digest that is not the last component).  Every variant is compared with
can_sign; the 3 x 3 grid must in addition give one and the same answer.
"""
from harness.props import lvs_common as L
from harness.props.c11 import is_pseudo

RULE = ('schemas as for C11 with signing relations (chains, alternatives, shared pattern names between packet and key '
        'rules, constraints on shared patterns in the key rule, 10% with cycles); pairs = (names matching a rule with signers '
        '+ random) x (names matching any rule + tree-guided + random), empty names included; 5% digest on the packet name, '
        '5% on the key name, 8% on both (equal / different digest values), 2% a digest inside a name; digest grid: per schema '
        'up to 4 allowed + 4 refused + 2 random base pairs x {bare, +digest A, +digest B} on the packet x the same on the key '
        '(9 calls, one answer demanded), and x {two digests, ParametersSha256-typed last component, digest before the last '
        'component} on either side against {bare, +digest} on the other; '
        'non-trivial = both names non-empty; distinct by (schema text, packet, key)')
ASSUMPTIONS = ['lark 1.x and grammar.py are exercised, not modelled', 'user functions are the table / $eq / $eq_type instances supplied by the harness']

CORPUS = [
    # †7: constraint of the key rule on a pattern bound by the packet
    ([('#pkt', [('lit', 'a'), ('pat', 'x')], [], ['#key']),
      ('#key', [('lit', 'k'), ('pat', 'x')], [[('x', [('lit', 'v=0')])]], [])], {}),
    ([('#pkt', [('lit', 'a'), ('pat', 'x'), ('pat', 'y')], [], ['#key']),
      ('#key', [('lit', 'k'), ('pat', 'y'), ('pat', 'x')], [[('x', [('lit', 'a'), ('lit', 'b')]), ('y', [('fn', '$eq', [('lit', 'b')])])]], [])],
     {'$eq': 'eq'}),
    # docs: pattern carried through the chain, alternatives
    ([('#site', [('lit', 'a')], [], []),
      ('#KEY', [('lit', 'KEY'), ('pat', '_')], [], []),
      ('#post', [('ref', '#site'), ('lit', 'b'), ('pat', 'author'), ('pat', 'date')], [], ['#author', '#admin']),
      ('#author', [('ref', '#site'), ('lit', 'c'), ('pat', 'author'), ('ref', '#KEY')], [], ['#admin']),
      ('#admin', [('ref', '#site'), ('lit', 'k'), ('pat', 'admin'), ('ref', '#KEY')], [], ['#root']),
      ('#root', [('ref', '#site'), ('ref', '#KEY')], [], [])], {}),
    # docs warning: a constraint referring to a pattern bound by the packet
    ([('#r1', [('pat', 'a'), ('pat', 'b')], [[('b', [('pat', 'c')])]], []),
      ('#r2', [('pat', 'c'), ('pat', 'd')], [], ['#r1'])], {}),
    # merged end nodes with different signers
    ([('#r1', [('lit', 'a'), ('pat', 'x')], [], ['#k1']),
      ('#r2', [('lit', 'a'), ('pat', 'x')], [], ['#k2']),
      ('#k1', [('lit', 'k'), ('pat', 'x')], [], []),
      ('#k2', [('lit', 'b'), ('pat', '_')], [], [])], {}),
]


def closed(ast):
    for r in ast:
        for cs in r[2]:
            for (_, opts) in cs:
                for o in opts:
                    if o[0] == 'pat' or (o[0] == 'fn' and any(a[0] == 'pat' for a in o[2])):
                        return False
    return True


def has_fn(ast):
    return any(o[0] == 'fn' for r in ast for cs in r[2] for (_, opts) in cs for o in opts)


def real_match(res):
    return res[0] == 'ok' and any(not is_pseudo(x) for rn, _ in res[1] for x in rn)


def key_matches_some_rule(chk, key):
    """some real rule is reported for the key name; matches produced before a user function raises count
    (check() returns at the first hit and never reaches the raising edge)"""
    if isinstance(chk.model.nodes, L.CountingList):
        chk.model.nodes.left = L.IMPL_BUDGET
    try:
        for rn, _ in chk.match(key):
            if any(not is_pseudo(x.encode()) for x in rn):
                return True
    except Exception:   # noqa
        pass
    return False


BATCH = 250
DIGEST_A = L.DIGEST
DIGEST_B = bytes([1, 32]) + bytes(range(32, 64))
PARAMS_DIGEST = bytes([2, 32]) + bytes(range(32))     # ParametersSha256DigestComponent: not the implicit digest, never dropped

# what may follow a name: (label, suffix builder).  Only 'A' / 'B' are "the name with its implicit digest".
PLAIN_SUFFIXES = [('bare', lambda n: n), ('A', lambda n: n + [DIGEST_A]), ('B', lambda n: n + [DIGEST_B])]
ODD_SUFFIXES = [('AB', lambda n: n + [DIGEST_A, DIGEST_B]),                 # only the last one is dropped
                ('params', lambda n: n + [PARAMS_DIGEST]),                    # nothing is dropped
                ('A-inside', lambda n: n[:-1] + [DIGEST_A] + n[-1:])]         # nothing is dropped (for n = [] this is 'A')


def digest_grid(p, k):
    """-> [(label, pkt, key)]: the 3 x 3 grid first (bare.bare is entry 0), then the odd suffixes"""
    out = [(f'{a}.{c}', fa(list(p)), fc(list(k))) for a, fa in PLAIN_SUFFIXES for c, fc in PLAIN_SUFFIXES]
    for o, fo in ODD_SUFFIXES:
        for a, fa in PLAIN_SUFFIXES[:2]:
            out.append((f'{o}.{a}', fo(list(p)), fa(list(k))))
            out.append((f'{a}.{o}', fa(list(p)), fo(list(k))))
    return out


def has_digest(n):
    return any(c[:1] == b'\x01' for c in n)


def check_schema(ctx, ast, fe, lits, tag, maxlen, npairs):
    M = ctx.call
    rng = ctx.rng
    text = L.txt_ast(ast, rng)
    sa = L.sx_ast(ast)
    r = L.impl_compile(text)
    case = {'schema': text}
    if r[0] == 'err':
        ctx.case((text, 'compile-error'), True, None, 'compile.' + str(r[1]))
        return
    if L.too_big(r):
        ctx.stat('schemas.skipped-huge-model')
        return
    model = r[1]
    dump = L.dump_model(model)
    fns, sfe = L.py_fns(fe), L.sx_fnenv(fe)
    c = L.impl_checker(model, fns)
    if c[0] == 'err':
        ctx.case((text, 'checker-error'), True, None, 'checker.' + str(c[1]))
        return
    chk = L.with_budget(c[1])
    alpha = L.alphabet(L.all_lits(ast) or lits)
    if len(alpha) > 5:
        alpha = alpha[:3] + alpha[-2:]
    pool = list(L.names_upto(alpha, maxlen)) + L.guided_names(rng, model, alpha, 80)
    matched = [n for n in pool if real_match(L.impl_match(chk, n))]
    signed_nodes = [n for n in model.nodes if n.sign_cons]
    pk = list(matched) + [rng.choice(pool) for _ in range(10)] + [[]]
    kk = list(matched) + L.guided_names(rng, model, alpha, 40) + [rng.choice(pool) for _ in range(20)] + [[]]
    pairs = []
    if pk and kk:
        for _ in range(npairs):
            p, k = list(rng.choice(pk)), list(rng.choice(kk))
            t = rng.random()
            if t < 0.05:
                p = p + [DIGEST_A]
            elif t < 0.1:
                k = k + [rng.choice([DIGEST_A, DIGEST_B])]
            elif t < 0.18:          # two full names in one call
                p, k = p + [rng.choice([DIGEST_A, DIGEST_B])], k + [rng.choice([DIGEST_A, DIGEST_B])]
            elif t < 0.2:           # a digest-typed component that is not the last one stays
                if rng.random() < 0.5:
                    p.insert(rng.randint(0, max(len(p) - 1, 0)), DIGEST_A)
                else:
                    k.insert(rng.randint(0, max(len(k) - 1, 0)), DIGEST_B)
            pairs.append([p, k])
    pairs.append([[], []])
    seen = set()
    pairs = [pq for pq in pairs if (h := repr(pq)) not in seen and not seen.add(h)]
    impl = [L.impl_check(chk, p, k) for p, k in pairs]
    # ---- digest grid: base pairs without any digest, allowed ones first ---------------------------------
    bare = [i for i, (p, k) in enumerate(pairs) if not has_digest(p) and not has_digest(k)]
    yes = [i for i in bare if impl[i][0] == 'ok' and impl[i][1]]
    no = [i for i in bare if impl[i][0] == 'ok' and not impl[i][1] and pairs[i][0] and pairs[i][1]]
    base = rng.sample(yes, min(4, len(yes))) + rng.sample(no, min(4, len(no))) + rng.sample(bare, min(2, len(bare)))
    grids = []                      # (index of bare.bare, [(label, index)])
    for bi in dict.fromkeys(base):
        g = []
        for label, p, k in digest_grid(*pairs[bi]):
            if label == 'bare.bare':
                g.append((label, bi))
            else:
                # asked again even when the random stream already produced it: the answer must not depend on earlier calls
                pairs.append([p, k])
                impl.append(L.impl_check(chk, p, k))
                g.append((label, len(pairs) - 1))
        grids.append(g)
    # batches: the extracted model's node look-up is linear in the node id, a 3000-node tree answers ~10 pairs / s
    mod, spec = [], []
    for at in range(0, len(pairs), BATCH):
        mod += M([14, dump, sfe, L.MODEL_FUEL, pairs[at:at + BATCH]])
        spec += M([16, sa, sfe, pairs[at:at + BATCH]])
    is_closed = closed(ast)
    for i, (p, k) in enumerate(pairs):
        ri, mi = impl[i], mod[i]
        cs = dict(case, pkt=p, key=k)
        if not L.same_outcome(mi, ri):
            ctx.disagree('Checker.check', 'different outcome (ok / error class)', cs, mi, ri[1:] if ri[0] == 'err' else ri[1])
        elif ri[0] == 'ok' and bool(mi[1]) != ri[1]:
            ctx.disagree('Checker.check', 'different verdict', cs, mi[1], ri[1])
        if ri[0] == 'ok':
            want = bool(spec[i])
            if ri[1] and not want:
                ctx.violation('Checker.check', 'yes-though-schema-says-no', 'check() is True but can_sign does not hold', cs)
            elif want and not ri[1]:
                ctx.violation('Checker.check', 'no-though-schema-says-yes', 'check() is False but can_sign holds', cs)
            if ri[1] and is_closed and not key_matches_some_rule(chk, k):
                ctx.violation('Checker.check', 'yes-for-key-matching-no-rule', 'check() is True for a key name that matches no rule', cs)
        elif not has_fn(ast):
            ctx.violation('Checker.check', 'raises-' + ri[2].split(':')[0], 'check() raises on a schema without user functions', cs)
        ctx.case((text, p, k), bool(p) and bool(k), {'schema': text, 'pkt': p, 'key': k} if i == 5 else None,
                 tag + ('.yes' if ri[0] == 'ok' and ri[1] else '.no' if ri[0] == 'ok' else '.raise'))
        dg = ('pkt' if has_digest(p) else '') + ('key' if has_digest(k) else '')
        if dg:
            ctx.stat('digest.on-' + dg + ('.yes' if ri[0] == 'ok' and ri[1] else '.no' if ri[0] == 'ok' else '.raise'))
    # the clause itself: with or without the implicit digest on either name, one answer
    for g in grids:
        ref = impl[g[0][1]]
        for label, i in g[1:9]:
            if impl[i][:2] != ref[:2]:
                ctx.violation('Checker.check', 'trailing-digest-changes-answer',
                              f'check() answers {impl[i][1] if impl[i][0] == "ok" else impl[i][2]} with digests placed as '
                              f'{label} (packet.key) but {ref[1] if ref[0] == "ok" else ref[2]} on the bare names',
                              dict(case, pkt=pairs[i][0], key=pairs[i][1], bare_pkt=pairs[g[0][1]][0], bare_key=pairs[g[0][1]][1]))
        ctx.stat('digest.grids' + ('.allowed' if ref[0] == 'ok' and ref[1] else '.refused' if ref[0] == 'ok' else '.raise'))
    ctx.stat('schemas.with_signed_nodes' if signed_nodes else 'schemas.without_signed_nodes')


def run(ctx):
    rng = ctx.rng
    for ast, fe in CORPUS:
        check_schema(ctx, ast, fe, L.all_lits(ast), 'corpus', 4, ctx.n(600, 3000))
    g = L.Gen(rng, signing=True)
    for _ in range(ctx.n(150, 2500)):
        ast, fe, lits = g.schema()
        check_schema(ctx, ast, fe, lits, 'gen', 3, ctx.n(250, 1200))
