"""C08 — TLV models encode to exact, minimal TLV and decode back to equal values.

Correspondence: Model/Tlv.v (extracted) vs ndn.encoding.tlv_model on random model *classes* built with
type() (incl. IncludeBase/override) and on every shipped TlvModel class (reflected on this run).
Derivation: random families of class DEFINITIONS (IncludeBase of 0..3 bases, diamonds, overrides, nested includes);
the expected field list comes from the extracted collect (Model/TlvCollect.v), not from the class.
Direct oracle on the implementation: announced size = produced size; T/L in shortest form; integers in
the smallest legal width unless fixed; parse(encode(v)) = v; unknown non-critical elements inserted at
any position of any nesting level are ignored; unknown / repeated / out-of-order critical ones rejected.
"""
import importlib
import inspect

from harness.lib import gen as G
from harness.lib import tlvdesc as D
from harness.lib import tlvgen as TG
from harness.lib.model import is_err, exc_code

RULE = ('random TlvModel classes (1..6 fields per level, nesting <= 3, type numbers over every var-number size up to '
        '2^32, uint/bool/bytes/text/name/sub-model/repeated/map fields, IncludeBase + in-place override) and all '
        'shipped TlvModel classes; values at every integer width boundary, non-ASCII text, 0/252/253/65535/65536+ '
        'byte strings; wires: encoder output, single-edit mutants, unknown critical/non-critical elements inserted at '
        'every position of every level, duplicated and swapped elements. non-trivial = at least two fields present or '
        'a nested level; distinct by (descriptor, value/wire) hash. '
        'Class DEFINITIONS with derivation: families of 2..7 classes defined at run time with type() over a pool of 2..8 '
        'attribute names -- 0..3 bases each (plain inheritance, IncludeBase of one / two / three bases, the same base '
        'twice, includes of classes that include, bases sharing names through common ancestors = diamonds), 0..4 own '
        'fields placed before / between / after the includes, 60% of them carrying a name of an included base '
        '(override after the include, own field replaced by a later include), overrides keeping or changing the Type '
        'number and the kind, fields that are sub-models of earlier classes of the family; the EXPECTED field list '
        'is computed from the definition by the extracted collect of Model/TlvCollect.v (theorems C08_collect_*: base '
        'bodies pasted at their IncludeBase, each name once at its first place with its last field), never read from '
        'the class; oracle: the class is definable, _encoded_fields is that list (same Field objects, same order), and '
        'instances addressed by the expected names pass every oracle above under the expected descriptor; '
        'non-trivial = at least one IncludeBase; strata classdef.<includes>.<nested|plain-base|replace-in-include|'
        'override-after|own-before-include>')
ASSUMPTIONS = ['str<->UTF-8 conversion is done by CPython in the adapter; the model works on the UTF-8 bytes',
               'False / [] / {} are canonicalised to "absent" by the adapter (they encode to nothing)']

SHIPPED_MODULES = ['ndn.app_support.nfd_mgmt', 'ndn.encoding.ndnlp_v2', 'ndn.app_support.light_versec.binary',
                   'ndn.app_support.svs.tlv', 'ndn.encoding.ndn_format_0_3', 'ndn.app_support.security_v2']
SKIP_ENCODE = {'InterestPacketValue', 'InterestPacket', 'DataPacketValue', 'DataPacket', 'CertificateV2Value',
               'CertificateV2', 'CertificateV2SignatureInfo'}   # need signer markers: covered by C01/C16


def shipped_classes():
    from ndn.encoding.tlv_model import TlvModel
    out = []
    for mn in SHIPPED_MODULES:
        m = importlib.import_module(mn)
        for name, c in sorted(vars(m).items()):
            if inspect.isclass(c) and issubclass(c, TlvModel) and c is not TlvModel and c.__module__ == mn:
                out.append(c)
    return out


def impl(fn, *a):
    try:
        return ('ok', fn(*a))
    except Exception as e:   # noqa
        return ('err', exc_code(e), type(e).__name__)


def cmp(ctx, site, case, m, r, conv):
    if is_err(m):
        if m[1] in (98, 99):
            ctx.disagree(site, 'model bad request / out of fuel', case, m, None)
            return False
        if r[0] == 'ok':
            ctx.disagree(site, 'model raises, implementation returns', case, m, conv(r[1]))
            return False
        return True
    if r[0] == 'err':
        ctx.disagree(site, 'implementation raises, model returns', case, m[1], r[1:])
        return False
    if m[1] != conv(r[1]):
        ctx.disagree(site, 'different results', case, m[1], conv(r[1]))
        return False
    return True


def legal(d, v):
    """Independent legality rule for a value under a descriptor (what 'every legal assignment' means)."""
    if v is None:
        return True
    k = d[0]
    if k == 'uint':
        return v[0] == 'u' and v[1] < (256 ** d[1] if d[1] else 1 << 64)
    if k == 'model':
        return all(legal(fd, x) for (t, fd), x in zip(d[2], v[1]))
    if k == 'rep':
        return all(x is not None and legal(d[1], x) for x in v[1])
    if k == 'map':
        return all(legal(d[1], a) and legal(d[3], b) and a is not None and b is not None for a, b in v[1])
    return True


def dup_types(d):
    """duplicate Type numbers per level, for the message"""
    out = []

    def walk(dd, path):
        seen = {}
        for t, fd in dd[2]:
            for x in [t] + ([fd[2]] if fd[0] == 'map' else []):
                seen[x] = seen.get(x, 0) + 1
            subs = [fd] if fd[0] == 'model' else [fd[1]] if fd[0] == 'rep' else [fd[3]] if fd[0] == 'map' else []
            for sd in subs:
                if sd[0] == 'model':
                    walk(sd, path + [t])
        d2 = [hex(t) for t, n in seen.items() if n > 1]
        if d2:
            out.append((path, d2))
    try:
        walk(d, [])
    except Exception:   # noqa
        pass
    return out


def wf_desc(d):
    """Well-formed descriptor in the sense of Spec/TlvWf.v (the hypothesis of the C08 theorems): Type numbers of
    a level (fields and map value types) pairwise distinct, recursively.  Python happily builds classes that
    violate this; for them only the model/implementation correspondence is checked, not the oracle."""
    types = []
    for t, fd in d[2]:
        types.append(t)
        if fd[0] == 'map':
            types.append(fd[2])
    if len(set(types)) != len(types):
        return False
    for t, fd in d[2]:
        subs = [fd] if fd[0] == 'model' else [fd[1]] if fd[0] == 'rep' else [fd[3]] if fd[0] == 'map' else []
        for sd in subs:
            if sd[0] == 'model' and not wf_desc(sd):
                return False
    return True


def shortest(w):
    """Every T and L of the (strict) element sequence w is in shortest form (one level)."""
    try:
        return _shortest(w)
    except (IndexError, KeyError):
        return False


def _shortest(w):
    off = 0
    while off < len(w):
        t, a = TG.read_num(w, off)
        l, b = TG.read_num(w, off + a)
        if w[off:off + a] != G.tl(t) or w[off + a:off + a + b] != G.tl(l):
            return False
        off += a + b + l
    return off == len(w)


def check_minimal(ctx, d, v, w, case):
    """Shortest T/L at every level + smallest legal integer width (recursively, guided by the value)."""
    if not shortest(w):
        ctx.violation('TlvModel.encode', 'non-shortest-TL', 'a Type or Length is not in shortest form', case)
        return
    els = TG.tlv_walk(w)
    if els is None:
        ctx.violation('TlvModel.encode', 'not-well-formed', 'encoder output is not a sequence of well-formed TLV elements', case)
        return
    pos = 0
    for (t, fd), fv in zip(d[2], v[1]):
        if fv is None:
            continue
        items = [(fd, fv)]
        if fd[0] == 'rep':
            items = [(fd[1], x) for x in fv[1]]
        elif fd[0] == 'map':
            items = [y for a, b in fv[1] for y in ((fd[1], a), (fd[3], b))]
        for kd, kv in items:
            if pos >= len(els):
                ctx.violation('TlvModel.encode', 'missing-element', 'fewer elements than present values', case)
                return
            et, ep = els[pos]
            pos += 1
            if kd[0] == 'uint':
                n = kv[1]
                want = kd[1] if kd[1] is not None else (1 if n <= 0xFF else 2 if n <= 0xFFFF else 4 if n <= 0xFFFFFFFF else 8)
                if len(ep) != want or int.from_bytes(ep, 'big') != n:
                    ctx.violation('UintField.encode_into', 'integer-width', f'integer {n} encoded in {len(ep)} bytes', case)
            elif kd[0] == 'model':
                check_minimal(ctx, kd, kv, ep, case)
    if pos != len(els):
        ctx.violation('TlvModel.encode', 'extra-element', 'more elements than present values', case)


def unknown_types(d):
    used = {t for t, _ in d[2]} | {fd[2] for _, fd in d[2] if fd[0] == 'map'}
    nc = next(t for t in (64, 66, 130, 200, 1000, 65538) if t not in used)
    cr = next(t for t in (65, 67, 131, 201, 1001, 65539) if t not in used)
    return nc, cr


def to_py_named(d, v, names):
    """D.to_py for a top-level model whose attribute names are given by the harness (the EXPECTED field list of a
    generated class definition) instead of being read back from cls._encoded_fields."""
    obj = d[3]()
    for name, (t, fd), fv in zip(names, d[2], v[1]):
        pv = D.to_py(fd, fv)
        if fd[0] in ('rep', 'map') and pv is None:
            continue
        obj.__dict__[name] = pv
    return obj


def from_py_named(d, o, names):
    return ('m', [D.from_py(fd, o.__dict__[name]) if name in o.__dict__ else None
                  for name, (t, fd) in zip(names, d[2])])


def run_class(ctx, M, d, nvals, origin, shipped=False, names=None):
    """d: descriptor (with class refs) of a top-level model class: reflected from the class, or -- with [names] --
    the field list the harness expects for a class definition it generated (attribute names in [names])."""
    rng = ctx.rng
    cls = d[3]
    if names is None:
        to_py, from_py = D.to_py, D.from_py
    else:
        def to_py(dd, v):
            return to_py_named(dd, v, names)

        def from_py(dd, o):
            return from_py_named(dd, o, names)
    fs = D.fields_sexp(d)
    wf = wf_desc(d)
    if not wf:
        ctx.stat('descriptor.not-wf')

    class _Quiet:
        """oracle sink for descriptors outside the theorems' hypothesis"""
        @staticmethod
        def violation(*a, **k):
            ctx.stat('oracle-skipped.not-wf')
    real_ctx = ctx
    if not wf and shipped:
        # a model shipped with the library is inside the property whatever its shape: two fields of one level with the
        # same Type number cannot both survive a round trip (the decoder gives the element to the first one it has
        # not passed), so the descriptor itself is the failing input; the value oracles below stay on
        ctx.violation('shipped-model', 'descriptor-not-well-formed',
                      f'{origin}: the declared fields are not well-formed (duplicate Type numbers in one level, illegal '
                      f'fixed_len, ...): {dup_types(d)}', {'class': origin, 'fields': repr(TG.strip(d))[:1500]})
    if not wf and not shipped:
        ctx = type('CtxView', (), {'violation': _Quiet.violation, '__getattr__': lambda self, n: getattr(real_ctx, n)})()
    for _ in range(nvals):
        v = TG.rand_value(rng, d, big=False)
        if rng.random() < 0.02:
            # one very large string somewhere (65536+-byte payloads)
            for i, (t, fd) in enumerate(d[2]):
                if fd[0] == 'bytes' and not fd[1]:
                    v[1][i] = TG.rand_value(rng, fd, big=True)
                    break
        vs = [D.val_sexp(x) for x in v[1]]
        case = {'class': origin, 'fields': repr(TG.strip(d))[:1500], 'value': repr(v)[:1500]}
        obj = impl(to_py, d, v)
        if obj[0] == 'err':
            ctx.stat('adapter_skip')
            continue
        enc = impl(lambda: bytes(obj[1].encode()))
        m = M([1, fs, vs])
        ok = cmp(ctx, 'TlvModel.encode', case, m, enc, bytes)
        ln = impl(lambda: obj[1].encoded_length())
        cmp(ctx, 'TlvModel.encoded_length', case, M([2, fs, vs]), ln, int)
        present = sum(1 for x in v[1] if x is not None)
        nontrivial = present >= 2 or any(fd[0] in ('model', 'rep', 'map') and x is not None for (t, fd), x in zip(d[2], v[1]))
        ctx.case(('enc', repr(TG.strip(d)), repr(v)), nontrivial, case, f'{origin}.encode.{enc[0]}')
        if enc[0] != 'ok':
            if legal(d, v):
                ctx.violation('TlvModel.encode', 'legal-value-rejected', f'encode raises {enc[2]} on a legal assignment', case)
            continue
        w = enc[1]
        # ---- the two-phase API into a caller-supplied, dirty buffer at an offset must write the same bytes
        def two_phase():
            markers = {}
            n = obj[1].encoded_length(markers)
            off = rng.choice([0, 1, 7])
            buf = bytearray(b'\xaa' * (off + n + 3))
            obj[1].encode(buf, off, markers)
            return bytes(buf[:off]), bytes(buf[off:off + n]), bytes(buf[off + n:])
        tp = impl(two_phase)
        if tp[0] != 'ok' or tp[1][1] != w or set(tp[1][0]) - {0xaa} or set(tp[1][2]) - {0xaa}:
            ctx.violation('TlvModel.encode(wire, offset, markers)', 'dirty-buffer-encoding',
                          'encoding into a caller-supplied buffer at an offset does not write exactly the announced bytes',
                          {**case, 'fresh': w, 'two_phase': tp[1] if tp[0] == 'ok' else tp[1:]})
        # ---- oracle: announced size, minimality, round trip
        if ln[0] == 'ok' and ln[1] != len(w):
            ctx.violation('TlvModel.encoded_length', 'size-mismatch', f'announced {ln[1]} produced {len(w)}', case)
        check_minimal(ctx, d, v, w, case)
        back = impl(lambda: from_py(d, cls.parse(w, ignore_critical=d[1])))
        cmp(ctx, 'TlvModel.parse', {'wire': w, **case}, M([3, fs, d[1], w]), back,
            lambda o: [D.val_sexp(x) for x in o[1]])
        if back[0] != 'ok' or back[1] != v:
            ctx.violation('TlvModel.parse∘encode', 'roundtrip', f'parse(encode(v)) != v: {back[1:]!r:.300}', case)
            continue
        # ---- structural edits at every level
        tr = TG.tree_of(d, w)
        if tr is None:
            ctx.violation('TlvModel.encode', 'not-well-formed', 'encoder output is not a sequence of well-formed TLV elements', case)
            continue
        edits = []
        for path, children, ld in TG.levels(tr, d):
            nc, cr = unknown_types(ld)
            for posn in range(len(children) + 1):
                edits.append(('ins_nc', path, posn, nc, ld))
                edits.append(('ins_cr', path, posn, cr, ld))
            for posn in range(len(children)):
                edits.append(('dup', path, posn, None, ld))
                if posn + 1 < len(children):
                    edits.append(('swap', path, posn, None, ld))
                edits.append(('del', path, posn, None, ld))
        if len(edits) > ctx.n(24, 200):
            edits = rng.sample(edits, ctx.n(24, 200))
        for kind, path, posn, ut, ld in edits:
            import copy
            tr2 = copy.deepcopy(tr)
            lvl = tr2
            for i in path:
                lvl = lvl[i][1]
            if kind.startswith('ins'):
                lvl.insert(posn, [ut, G.rand_bytes(rng, rng.choice([0, 1, 3])), None])
            elif kind == 'dup':
                lvl.insert(posn, copy.deepcopy(lvl[posn]))
            elif kind == 'swap':
                lvl[posn], lvl[posn + 1] = lvl[posn + 1], lvl[posn]
            elif kind == 'del':
                del lvl[posn]
            w2 = TG.ser_tree(tr2)
            r2 = impl(lambda: from_py(d, cls.parse(w2, ignore_critical=d[1])))
            cmp(ctx, 'TlvModel.parse', {'wire': w2, 'edit': kind, **case}, M([3, fs, d[1], w2]), r2,
                lambda o: [D.val_sexp(x) for x in o[1]])
            if kind == 'ins_nc' and (r2[0] != 'ok' or r2[1] != v):
                ctx.violation('TlvModel.parse', 'noncritical-not-ignored',
                              f'unknown non-critical element {ut} inserted at level {path} position {posn} changes the result: {r2[1:]!r:.200}',
                              {'wire': w2, **case})
            if kind in ('dup', 'swap') and not ld[1] and r2[0] == 'ok':
                # recognised critical (odd) single-valued fields must not repeat or come out of order
                ftypes = [ft for ft, fd in ld[2]]
                simple = {ft for ft, fd in ld[2] if fd[0] not in ('rep', 'map')}
                has_map = any(fd[0] == 'map' for ft, fd in ld[2])
                ta = lvl[posn][0]
                tb = lvl[posn + 1][0]
                bad = False
                if not has_map and len(set(ftypes)) == len(ftypes):
                    if kind == 'dup' and ta in simple and ta % 2 == 1:
                        bad = True
                    if kind == 'swap' and ta != tb and ta in ftypes and tb in simple and tb % 2 == 1 \
                            and ftypes.index(tb) < ftypes.index(ta):
                        bad = True    # after the swap lvl[posn] (= old second) precedes lvl[posn+1] (= old first, critical)
                if bad:
                    ctx.violation('TlvModel.parse', 'critical-repeated-or-out-of-order',
                                  f'{kind} of critical element at level {path} position {posn} accepted', {'wire': w2, **case})
            if kind == 'ins_cr' and not ld[1] and r2[0] == 'ok':
                ctx.violation('TlvModel.parse', 'critical-accepted',
                              f'unknown critical element {ut} at level {path} position {posn} accepted', {'wire': w2, **case})
            ctx.case(('edit', w2, repr(TG.strip(d))), True, None, f'{origin}.edit.{kind}.{r2[0]}')
        # ---- byte-level mutants (model correspondence only)
        for _ in range(ctx.n(3, 12)):
            w3 = G.mutate_bytes(rng, w)
            r3 = impl(lambda: from_py(d, cls.parse(w3, ignore_critical=d[1])))
            cmp(ctx, 'TlvModel.parse', {'wire': w3, **case}, M([3, fs, d[1], w3]), r3,
                lambda o: [D.val_sexp(x) for x in o[1]])
            ctx.case(('mut', w3, repr(TG.strip(d))), True, None, f'{origin}.mutant.{r3[0]}')


# ---------------------------------------------------------------------------------------------------------------
# Generated CLASS DEFINITIONS (derivation): plain inheritance, IncludeBase of one / two / three bases, bases that
# share field names (diamonds), own fields before / between / after the includes that carry a name of an included
# base (overrides), includes of classes that include (nested), the same base included twice.  The class is DEFINED
# here with type(); the expected field list is NOT read from the class: the definition is sent to the extracted
# [collect] of Model/TlvCollect.v (theorems C08_collect_*: = the base bodies pasted at their IncludeBase, every name
# once, at the place of its first declaration, with the field of its last declaration).
FIELD_NAMES = ['fa', 'fb', 'fc', 'fd', 'fe', 'ff', 'fg', 'fh']


class Hierarchy:
    """decls[k] = (name index, Type number, descriptor); classes[i] = {'bases': [class idx], 'body': [item]},
    item = ('own', decl idx) | ('inc', class idx)."""

    def __init__(self):
        self.decls = []
        self.classes = []
        self.objs = {}        # decl idx -> Field object
        self._sexp = {}
        self._names = {}

    def body_sexp(self, i):
        if i not in self._sexp:
            self._sexp[i] = [[0, self.decls[it[1]][0], it[1]] if it[0] == 'own' else [1, self.body_sexp(it[1])]
                             for it in self.classes[i]['body']]
        return self._sexp[i]

    def names_of(self, i):
        """names declared in class i or, recursively, in what it includes"""
        if i not in self._names:
            out = set()
            for it in self.classes[i]['body']:
                out |= {self.decls[it[1]][0]} if it[0] == 'own' else self.names_of(it[1])
            self._names[i] = out
        return self._names[i]

    def shape(self, i):
        body = self.classes[i]['body']
        incs = [(k, it[1]) for k, it in enumerate(body) if it[0] == 'inc']
        tags = [f'inc{min(len(incs), 3)}']
        if self.classes[i]['bases'] and len({b for _, b in incs}) < len(self.classes[i]['bases']):
            tags.append('plain-base')
        if any(any(x[0] == 'inc' for x in self.classes[b]['body']) for _, b in incs):
            tags.append('nested')
        seen = set()
        for k, it in enumerate(body):
            if it[0] == 'inc':
                if seen & self.names_of(it[1]):
                    tags.append('replace-in-include')
                seen |= self.names_of(it[1])
            else:
                n = self.decls[it[1]][0]
                if any(k2 < k and n in self.names_of(b) for k2, b in incs):
                    tags.append('override-after')
                if any(k2 > k and n in self.names_of(b) for k2, b in incs):
                    tags.append('own-before-include')
                seen.add(n)
        return sorted(set(tags))

    def render(self, i):
        """pseudo-source of class i and of every class it derives from (for the report)"""
        need, todo = set(), [i]
        while todo:
            j = todo.pop()
            if j not in need:
                need.add(j)
                todo += self.classes[j]['bases']
        out = []
        for j in sorted(need):
            c = self.classes[j]
            lines = []
            for k, it in enumerate(c['body']):
                if it[0] == 'own':
                    n, t, fd = self.decls[it[1]]
                    lines.append(f'{FIELD_NAMES[n]} = field#{it[1]}(type {t:#x}, {TG.strip(fd)!r:.120})')
                else:
                    lines.append(f'_inc{k} = IncludeBase(C{it[1]})')
            bases = ', '.join(f'C{b}' for b in c['bases']) or 'TlvModel'
            out.append(f'class C{j}({bases}): ' + '; '.join(lines or ['pass']))
        return out


def rand_hierarchy(rng, built):
    """One random family of class definitions.  [built] : class idx -> (cls, expected descriptor) of the classes
    already defined and found as expected (usable as sub-models of later fields)."""
    h = Hierarchy()
    nnames = rng.randint(2, len(FIELD_NAMES))
    ncls = rng.randint(2, 7)
    name_slot = rng.randrange(nnames)
    used = {7}

    def fresh_type():
        while True:
            t = rng.choice(TG.TYPE_POOL) if rng.random() < 0.7 else rng.randint(1, 1 << 32)
            if t not in used:
                used.add(t)
                return t

    def new_decl(n, sub_ok):
        prev = [d for d in h.decls if d[0] == n]
        t = rng.choice(prev)[1] if prev and rng.random() < 0.3 else fresh_type()   # an override may keep the Type
        r = rng.random()
        if sub_ok and r < 0.12:
            j = rng.choice(sub_ok)
            fd = ['model', rng.random() < 0.2, built[j][1][2], built[j][0]]
        else:
            fd = TG.rand_kind(rng, rng.choice([0, 0, 1, 1, 2]))
            if n == name_slot and rng.random() < 0.4:
                fd = rng.choice([('name',), ('name',), ('rep', ('name',))])
            is_name = fd[0] == 'name' or (fd[0] == 'rep' and fd[1][0] == 'name')
            if is_name and n == name_slot:
                t = 7               # a NameField always writes Type 7 (as in TG.rand_model); one attribute name only
            elif is_name:
                fd = ('bytes', False)
            if fd[0] == 'map':
                fd = ('map', fd[1], fresh_type(), fd[3])
        h.decls.append((n, t, fd))
        return len(h.decls) - 1

    def gen_class(i):
        if i == 0 or rng.random() < 0.12:
            bases = []
        else:
            bases = rng.sample(range(i), min(i, rng.choice([1, 1, 2, 2, 2, 3])))
        items = []
        for b in bases:
            r = rng.random()
            if r < 0.85:
                items.append(('inc', b))
            if r < 0.06:
                items.append(('inc', b))       # the same base included twice
        inherited = sorted(set().union(*[h.names_of(b) for b in bases])) if bases else []
        own = []
        for _ in range(rng.choice([0, 1, 1, 2, 2, 3, 4])):
            n = rng.choice(inherited) if inherited and rng.random() < 0.6 else rng.randrange(nnames)
            if n not in own:
                own.append(n)
        sub_ok = [j for j in built if built[j][1][2]]
        items += [('own', new_decl(n, sub_ok)) for n in own]
        rng.shuffle(items)
        return {'bases': bases, 'body': items}
    return h, ncls, gen_class


_hcnt = [0]


def run_hierarchy(ctx, M, nvals):
    from ndn.encoding import tlv_model as TM
    rng = ctx.rng
    _hcnt[0] += 1
    built, shadows, classes = {}, [], []
    h, ncls, gen_class = rand_hierarchy(rng, built)
    for i in range(ncls):
        c = gen_class(i)
        # Python's own rules first (a consistent method resolution order must exist): mirror the bases with plain
        # classes; base orders that Python itself refuses are re-ordered (most derived first) or dropped
        shadow = None
        for order in (c['bases'], sorted(c['bases'], reverse=True)):
            try:
                shadow = type(f'S{i}', tuple(shadows[b] for b in order), {})
                c['bases'] = list(order)
                break
            except TypeError:
                continue
        if shadow is None:
            ctx.stat('classdef.python-mro-refused')
            break
        h.classes.append(c)
        shadows.append(shadow)
        attrs = {}
        try:
            for k, it in enumerate(c['body']):
                if it[0] == 'own':
                    n, t, fd = h.decls[it[1]]
                    h.objs[it[1]] = attrs[FIELD_NAMES[n]] = D.build_field(t, fd)
                else:
                    attrs[f'_inc{k}'] = TM.IncludeBase(classes[it[1]])
        except Exception as e:   # noqa  (a field constructor of the tree under test raised)
            ctx.disagree('field construction', f'{type(e).__name__}: {e}', h.render(i))
            break
        shape = h.shape(i)
        case = {'definition': h.render(i), 'class': f'C{i}', 'shape': shape}
        exp = M([6, h.body_sexp(i)])
        if is_err(exp):
            ctx.disagree('collect', 'model bad request', case, exp, None)
            break
        exp = [(int(n), int(k)) for n, k in exp]
        case['expected _encoded_fields'] = [f'{FIELD_NAMES[n]}=field#{k}' for n, k in exp]
        ctx.case(('classdef', repr(h.body_sexp(i)), repr([TG.strip(h.decls[k][2]) for _, k in exp])),
                 'inc0' not in shape, None, 'classdef.' + '.'.join(shape))
        # (a) a legal definition must be accepted
        try:
            cls = type(f'GenH{_hcnt[0]}C{i}', tuple(classes[b] for b in c['bases']) or (TM.TlvModel,), attrs)
        except Exception as e:   # noqa
            ctx.violation('TlvModelMeta', 'class-not-definable',
                          f'defining the class raises {type(e).__name__}: {e}', case)
            break
        classes.append(cls)
        # (b) the collected fields are the expected ones, in the expected order
        got = list(cls._encoded_fields)
        rev = {id(o): k for k, o in h.objs.items()}
        if len(got) != len(exp) or any(g is not h.objs[k] or g.name != FIELD_NAMES[n] for g, (n, k) in zip(got, exp)):
            case['got _encoded_fields'] = [f'{g.name}=field#{rev.get(id(g), "?")}' for g in got]
            ctx.violation('TlvModelMeta', 'field-collection',
                          'the fields collected for the class are not the declared ones in declared order (bases '
                          'spliced in at their IncludeBase, an existing name replaced in place)', case)
            continue
        dexp = ['model', rng.random() < 0.15, [(h.decls[k][1], h.decls[k][2]) for _, k in exp], cls]
        built[i] = (cls, dexp)
        # (c) instances encode every expected field once, in that order, with the announced size, and parse back
        if exp and rng.random() < (0.3 if 'inc0' in shape else ctx.n(1.0, 0.35)):
            run_class(ctx, M, dexp, nvals, 'derived', names=[FIELD_NAMES[n] for n, _ in exp])


def run(ctx):
    rng = ctx.rng
    M = ctx.call
    # UTF-8 validator vs CPython
    for _ in range(ctx.n(3000, 60000)):
        b = rng.choice(TG.TEXTS).encode() if rng.random() < 0.3 else G.rand_bytes(rng, rng.randint(1, 6))
        if rng.random() < 0.5:
            b = G.mutate_bytes(rng, b + 'é€\U0001F600'.encode())
        try:
            b.decode('utf-8')
            py = 1
        except UnicodeDecodeError:
            py = 0
        if M([5, b]) != py:
            ctx.disagree('utf8_valid', 'validator differs from CPython', b, M([5, b]), py)
        ctx.case(('utf8', b), len(b) > 1, None, 'utf8')
    # shipped classes (T1 reflection, fresh on every run)
    for c in shipped_classes():
        if c.__name__ in SKIP_ENCODE:
            continue
        try:
            d = D.reflect_class(c)
        except D.Unsupported as e:
            ctx.disagree('reflect', f'unsupported field in {c.__name__}: {e}', c.__name__)
            continue
        run_class(ctx, M, d, ctx.n(6, 150), 'shipped:' + c.__name__, shipped=True)
    # random classes
    for i in range(ctx.n(160, 6000)):
        spec = TG.rand_model(rng, rng.choice([0, 1, 1, 2, 2, 3]))
        try:
            d = TG.build_with_inheritance(rng, spec)
        except Exception as e:   # noqa
            ctx.disagree('class construction', f'{type(e).__name__}: {e}', repr(TG.strip(spec)))
            continue
        if TG.strip(d) != TG.strip(spec):
            ctx.violation('TlvModelMeta', 'field-collection', 'collected fields differ from declaration order with IncludeBase/override in place',
                          {'expected': repr(TG.strip(spec)), 'got': repr(TG.strip(d))})
            continue
        run_class(ctx, M, d, ctx.n(3, 6), 'generated')
    # random class DEFINITIONS with derivation; expectation from the extracted collect (Model/TlvCollect.v)
    for i in range(ctx.n(150, 3000)):
        run_hierarchy(ctx, M, 2)
