"""C08 — TLV models encode to exact, minimal TLV and decode back to equal values.

Correspondence: Model/Tlv.v (extracted) vs ndn.encoding.tlv_model on random model *classes* built with
type() (incl. IncludeBase/override) and on every shipped TlvModel class (reflected on this run).
Direct oracle on the implementation: announced size = produced size; T/L in shortest form; integers in
the smallest legal width unless fixed; parse(encode(v)) = v; unknown non-critical elements inserted at
any position of any nesting level are ignored; unknown / repeated / out-of-order critical ones rejected.
"""
import importlib
import inspect

from harness.lib import gen as G
from harness.lib import tlvdesc as D
from harness.lib import tlvgen as TG
from harness.lib.model import is_err, exc_code

RULE = ('random TlvModel classes (1..6 fields per level, nesting <= 3, type numbers over every var-number size up to '
        '2^32, uint/bool/bytes/text/name/sub-model/repeated/map fields, IncludeBase + in-place override) and all '
        'shipped TlvModel classes; values at every integer width boundary, non-ASCII text, 0/252/253/65535/65536+ '
        'byte strings; wires: encoder output, single-edit mutants, unknown critical/non-critical elements inserted at '
        'every position of every level, duplicated and swapped elements. non-trivial = at least two fields present or '
        'a nested level; distinct by (descriptor, value/wire) hash')
ASSUMPTIONS = ['str<->UTF-8 conversion is done by CPython in the adapter; the model works on the UTF-8 bytes',
               'False / [] / {} are canonicalised to "absent" by the adapter (they encode to nothing)']

SHIPPED_MODULES = ['ndn.app_support.nfd_mgmt', 'ndn.encoding.ndnlp_v2', 'ndn.app_support.light_versec.binary',
                   'ndn.app_support.svs.tlv', 'ndn.encoding.ndn_format_0_3', 'ndn.app_support.security_v2']
SKIP_ENCODE = {'InterestPacketValue', 'InterestPacket', 'DataPacketValue', 'DataPacket', 'CertificateV2Value',
               'CertificateV2', 'CertificateV2SignatureInfo'}   # need signer markers: covered by C01/C16


def shipped_classes():
    from ndn.encoding.tlv_model import TlvModel
    out = []
    for mn in SHIPPED_MODULES:
        m = importlib.import_module(mn)
        for name, c in sorted(vars(m).items()):
            if inspect.isclass(c) and issubclass(c, TlvModel) and c is not TlvModel and c.__module__ == mn:
                out.append(c)
    return out


def impl(fn, *a):
    try:
        return ('ok', fn(*a))
    except Exception as e:   # noqa
        return ('err', exc_code(e), type(e).__name__)


def cmp(ctx, site, case, m, r, conv):
    if is_err(m):
        if m[1] in (98, 99):
            ctx.disagree(site, 'model bad request / out of fuel', case, m, None)
            return False
        if r[0] == 'ok':
            ctx.disagree(site, 'model raises, implementation returns', case, m, conv(r[1]))
            return False
        return True
    if r[0] == 'err':
        ctx.disagree(site, 'implementation raises, model returns', case, m[1], r[1:])
        return False
    if m[1] != conv(r[1]):
        ctx.disagree(site, 'different results', case, m[1], conv(r[1]))
        return False
    return True


def legal(d, v):
    """Independent legality rule for a value under a descriptor (what 'every legal assignment' means)."""
    if v is None:
        return True
    k = d[0]
    if k == 'uint':
        return v[0] == 'u' and v[1] < (256 ** d[1] if d[1] else 1 << 64)
    if k == 'model':
        return all(legal(fd, x) for (t, fd), x in zip(d[2], v[1]))
    if k == 'rep':
        return all(x is not None and legal(d[1], x) for x in v[1])
    if k == 'map':
        return all(legal(d[1], a) and legal(d[3], b) and a is not None and b is not None for a, b in v[1])
    return True


def dup_types(d):
    """duplicate Type numbers per level, for the message"""
    out = []

    def walk(dd, path):
        seen = {}
        for t, fd in dd[2]:
            for x in [t] + ([fd[2]] if fd[0] == 'map' else []):
                seen[x] = seen.get(x, 0) + 1
            subs = [fd] if fd[0] == 'model' else [fd[1]] if fd[0] == 'rep' else [fd[3]] if fd[0] == 'map' else []
            for sd in subs:
                if sd[0] == 'model':
                    walk(sd, path + [t])
        d2 = [hex(t) for t, n in seen.items() if n > 1]
        if d2:
            out.append((path, d2))
    try:
        walk(d, [])
    except Exception:   # noqa
        pass
    return out


def wf_desc(d):
    """Well-formed descriptor in the sense of Spec/TlvWf.v (the hypothesis of the C08 theorems): Type numbers of
    a level (fields and map value types) pairwise distinct, recursively.  Python happily builds classes that
    violate this; for them only the model/implementation correspondence is checked, not the oracle."""
    types = []
    for t, fd in d[2]:
        types.append(t)
        if fd[0] == 'map':
            types.append(fd[2])
    if len(set(types)) != len(types):
        return False
    for t, fd in d[2]:
        subs = [fd] if fd[0] == 'model' else [fd[1]] if fd[0] == 'rep' else [fd[3]] if fd[0] == 'map' else []
        for sd in subs:
            if sd[0] == 'model' and not wf_desc(sd):
                return False
    return True


def shortest(w):
    """Every T and L of the (strict) element sequence w is in shortest form (one level)."""
    try:
        return _shortest(w)
    except (IndexError, KeyError):
        return False


def _shortest(w):
    off = 0
    while off < len(w):
        t, a = TG.read_num(w, off)
        l, b = TG.read_num(w, off + a)
        if w[off:off + a] != G.tl(t) or w[off + a:off + a + b] != G.tl(l):
            return False
        off += a + b + l
    return off == len(w)


def check_minimal(ctx, d, v, w, case):
    """Shortest T/L at every level + smallest legal integer width (recursively, guided by the value)."""
    if not shortest(w):
        ctx.violation('TlvModel.encode', 'non-shortest-TL', 'a Type or Length is not in shortest form', case)
        return
    els = TG.tlv_walk(w)
    if els is None:
        ctx.violation('TlvModel.encode', 'not-well-formed', 'encoder output is not a sequence of well-formed TLV elements', case)
        return
    pos = 0
    for (t, fd), fv in zip(d[2], v[1]):
        if fv is None:
            continue
        items = [(fd, fv)]
        if fd[0] == 'rep':
            items = [(fd[1], x) for x in fv[1]]
        elif fd[0] == 'map':
            items = [y for a, b in fv[1] for y in ((fd[1], a), (fd[3], b))]
        for kd, kv in items:
            if pos >= len(els):
                ctx.violation('TlvModel.encode', 'missing-element', 'fewer elements than present values', case)
                return
            et, ep = els[pos]
            pos += 1
            if kd[0] == 'uint':
                n = kv[1]
                want = kd[1] if kd[1] is not None else (1 if n <= 0xFF else 2 if n <= 0xFFFF else 4 if n <= 0xFFFFFFFF else 8)
                if len(ep) != want or int.from_bytes(ep, 'big') != n:
                    ctx.violation('UintField.encode_into', 'integer-width', f'integer {n} encoded in {len(ep)} bytes', case)
            elif kd[0] == 'model':
                check_minimal(ctx, kd, kv, ep, case)
    if pos != len(els):
        ctx.violation('TlvModel.encode', 'extra-element', 'more elements than present values', case)


def unknown_types(d):
    used = {t for t, _ in d[2]} | {fd[2] for _, fd in d[2] if fd[0] == 'map'}
    nc = next(t for t in (64, 66, 130, 200, 1000, 65538) if t not in used)
    cr = next(t for t in (65, 67, 131, 201, 1001, 65539) if t not in used)
    return nc, cr


def run_class(ctx, M, d, nvals, origin, shipped=False):
    """d: reflected descriptor (with class refs) of a top-level model class."""
    rng = ctx.rng
    cls = d[3]
    fs = D.fields_sexp(d)
    wf = wf_desc(d)
    if not wf:
        ctx.stat('descriptor.not-wf')

    class _Quiet:
        """oracle sink for descriptors outside the theorems' hypothesis"""
        @staticmethod
        def violation(*a, **k):
            ctx.stat('oracle-skipped.not-wf')
    real_ctx = ctx
    if not wf and shipped:
        # a model shipped with the library is inside the property whatever its shape: two fields of one level with the
        # same Type number cannot both survive a round trip (the decoder gives the element to the first one it has
        # not passed), so the descriptor itself is the failing input; the value oracles below stay on
        ctx.violation('shipped-model', 'descriptor-not-well-formed',
                      f'{origin}: the declared fields are not well-formed (duplicate Type numbers in one level, illegal '
                      f'fixed_len, ...): {dup_types(d)}', {'class': origin, 'fields': repr(TG.strip(d))[:1500]})
    if not wf and not shipped:
        ctx = type('CtxView', (), {'violation': _Quiet.violation, '__getattr__': lambda self, n: getattr(real_ctx, n)})()
    for _ in range(nvals):
        v = TG.rand_value(rng, d, big=False)
        if rng.random() < 0.02:
            # one very large string somewhere (65536+-byte payloads)
            for i, (t, fd) in enumerate(d[2]):
                if fd[0] == 'bytes' and not fd[1]:
                    v[1][i] = TG.rand_value(rng, fd, big=True)
                    break
        vs = [D.val_sexp(x) for x in v[1]]
        case = {'class': origin, 'fields': repr(TG.strip(d))[:1500], 'value': repr(v)[:1500]}
        obj = impl(D.to_py, d, v)
        if obj[0] == 'err':
            ctx.stat('adapter_skip')
            continue
        enc = impl(lambda: bytes(obj[1].encode()))
        m = M([1, fs, vs])
        ok = cmp(ctx, 'TlvModel.encode', case, m, enc, bytes)
        ln = impl(lambda: obj[1].encoded_length())
        cmp(ctx, 'TlvModel.encoded_length', case, M([2, fs, vs]), ln, int)
        present = sum(1 for x in v[1] if x is not None)
        nontrivial = present >= 2 or any(fd[0] in ('model', 'rep', 'map') and x is not None for (t, fd), x in zip(d[2], v[1]))
        ctx.case(('enc', repr(TG.strip(d)), repr(v)), nontrivial, case, f'{origin}.encode.{enc[0]}')
        if enc[0] != 'ok':
            if legal(d, v):
                ctx.violation('TlvModel.encode', 'legal-value-rejected', f'encode raises {enc[2]} on a legal assignment', case)
            continue
        w = enc[1]
        # ---- the two-phase API into a caller-supplied, dirty buffer at an offset must write the same bytes
        def two_phase():
            markers = {}
            n = obj[1].encoded_length(markers)
            off = rng.choice([0, 1, 7])
            buf = bytearray(b'\xaa' * (off + n + 3))
            obj[1].encode(buf, off, markers)
            return bytes(buf[:off]), bytes(buf[off:off + n]), bytes(buf[off + n:])
        tp = impl(two_phase)
        if tp[0] != 'ok' or tp[1][1] != w or set(tp[1][0]) - {0xaa} or set(tp[1][2]) - {0xaa}:
            ctx.violation('TlvModel.encode(wire, offset, markers)', 'dirty-buffer-encoding',
                          'encoding into a caller-supplied buffer at an offset does not write exactly the announced bytes',
                          {**case, 'fresh': w, 'two_phase': tp[1] if tp[0] == 'ok' else tp[1:]})
        # ---- oracle: announced size, minimality, round trip
        if ln[0] == 'ok' and ln[1] != len(w):
            ctx.violation('TlvModel.encoded_length', 'size-mismatch', f'announced {ln[1]} produced {len(w)}', case)
        check_minimal(ctx, d, v, w, case)
        back = impl(lambda: D.from_py(d, cls.parse(w, ignore_critical=d[1])))
        cmp(ctx, 'TlvModel.parse', {'wire': w, **case}, M([3, fs, d[1], w]), back,
            lambda o: [D.val_sexp(x) for x in o[1]])
        if back[0] != 'ok' or back[1] != v:
            ctx.violation('TlvModel.parse∘encode', 'roundtrip', f'parse(encode(v)) != v: {back[1:]!r:.300}', case)
            continue
        # ---- structural edits at every level
        tr = TG.tree_of(d, w)
        if tr is None:
            ctx.violation('TlvModel.encode', 'not-well-formed', 'encoder output is not a sequence of well-formed TLV elements', case)
            continue
        edits = []
        for path, children, ld in TG.levels(tr, d):
            nc, cr = unknown_types(ld)
            for posn in range(len(children) + 1):
                edits.append(('ins_nc', path, posn, nc, ld))
                edits.append(('ins_cr', path, posn, cr, ld))
            for posn in range(len(children)):
                edits.append(('dup', path, posn, None, ld))
                if posn + 1 < len(children):
                    edits.append(('swap', path, posn, None, ld))
                edits.append(('del', path, posn, None, ld))
        if len(edits) > ctx.n(24, 200):
            edits = rng.sample(edits, ctx.n(24, 200))
        for kind, path, posn, ut, ld in edits:
            import copy
            tr2 = copy.deepcopy(tr)
            lvl = tr2
            for i in path:
                lvl = lvl[i][1]
            if kind.startswith('ins'):
                lvl.insert(posn, [ut, G.rand_bytes(rng, rng.choice([0, 1, 3])), None])
            elif kind == 'dup':
                lvl.insert(posn, copy.deepcopy(lvl[posn]))
            elif kind == 'swap':
                lvl[posn], lvl[posn + 1] = lvl[posn + 1], lvl[posn]
            elif kind == 'del':
                del lvl[posn]
            w2 = TG.ser_tree(tr2)
            r2 = impl(lambda: D.from_py(d, cls.parse(w2, ignore_critical=d[1])))
            cmp(ctx, 'TlvModel.parse', {'wire': w2, 'edit': kind, **case}, M([3, fs, d[1], w2]), r2,
                lambda o: [D.val_sexp(x) for x in o[1]])
            if kind == 'ins_nc' and (r2[0] != 'ok' or r2[1] != v):
                ctx.violation('TlvModel.parse', 'noncritical-not-ignored',
                              f'unknown non-critical element {ut} inserted at level {path} position {posn} changes the result: {r2[1:]!r:.200}',
                              {'wire': w2, **case})
            if kind in ('dup', 'swap') and not ld[1] and r2[0] == 'ok':
                # recognised critical (odd) single-valued fields must not repeat or come out of order
                ftypes = [ft for ft, fd in ld[2]]
                simple = {ft for ft, fd in ld[2] if fd[0] not in ('rep', 'map')}
                has_map = any(fd[0] == 'map' for ft, fd in ld[2])
                ta = lvl[posn][0]
                tb = lvl[posn + 1][0]
                bad = False
                if not has_map and len(set(ftypes)) == len(ftypes):
                    if kind == 'dup' and ta in simple and ta % 2 == 1:
                        bad = True
                    if kind == 'swap' and ta != tb and ta in ftypes and tb in simple and tb % 2 == 1 \
                            and ftypes.index(tb) < ftypes.index(ta):
                        bad = True    # after the swap lvl[posn] (= old second) precedes lvl[posn+1] (= old first, critical)
                if bad:
                    ctx.violation('TlvModel.parse', 'critical-repeated-or-out-of-order',
                                  f'{kind} of critical element at level {path} position {posn} accepted', {'wire': w2, **case})
            if kind == 'ins_cr' and not ld[1] and r2[0] == 'ok':
                ctx.violation('TlvModel.parse', 'critical-accepted',
                              f'unknown critical element {ut} at level {path} position {posn} accepted', {'wire': w2, **case})
            ctx.case(('edit', w2, repr(TG.strip(d))), True, None, f'{origin}.edit.{kind}.{r2[0]}')
        # ---- byte-level mutants (model correspondence only)
        for _ in range(ctx.n(3, 12)):
            w3 = G.mutate_bytes(rng, w)
            r3 = impl(lambda: D.from_py(d, cls.parse(w3, ignore_critical=d[1])))
            cmp(ctx, 'TlvModel.parse', {'wire': w3, **case}, M([3, fs, d[1], w3]), r3,
                lambda o: [D.val_sexp(x) for x in o[1]])
            ctx.case(('mut', w3, repr(TG.strip(d))), True, None, f'{origin}.mutant.{r3[0]}')


def run(ctx):
    rng = ctx.rng
    M = ctx.call
    # UTF-8 validator vs CPython
    for _ in range(ctx.n(3000, 60000)):
        b = rng.choice(TG.TEXTS).encode() if rng.random() < 0.3 else G.rand_bytes(rng, rng.randint(1, 6))
        if rng.random() < 0.5:
            b = G.mutate_bytes(rng, b + 'é€\U0001F600'.encode())
        try:
            b.decode('utf-8')
            py = 1
        except UnicodeDecodeError:
            py = 0
        if M([5, b]) != py:
            ctx.disagree('utf8_valid', 'validator differs from CPython', b, M([5, b]), py)
        ctx.case(('utf8', b), len(b) > 1, None, 'utf8')
    # shipped classes (T1 reflection, fresh on every run)
    for c in shipped_classes():
        if c.__name__ in SKIP_ENCODE:
            continue
        try:
            d = D.reflect_class(c)
        except D.Unsupported as e:
            ctx.disagree('reflect', f'unsupported field in {c.__name__}: {e}', c.__name__)
            continue
        run_class(ctx, M, d, ctx.n(6, 150), 'shipped:' + c.__name__, shipped=True)
    # random classes
    for i in range(ctx.n(160, 6000)):
        spec = TG.rand_model(rng, rng.choice([0, 1, 1, 2, 2, 3]))
        try:
            d = TG.build_with_inheritance(rng, spec)
        except Exception as e:   # noqa
            ctx.disagree('class construction', f'{type(e).__name__}: {e}', repr(TG.strip(spec)))
            continue
        if TG.strip(d) != TG.strip(spec):
            ctx.violation('TlvModelMeta', 'field-collection', 'collected fields differ from declaration order with IncludeBase/override in place',
                          {'expected': repr(TG.strip(spec)), 'got': repr(TG.strip(d))})
            continue
        run_class(ctx, M, d, ctx.n(3, 6), 'generated')
