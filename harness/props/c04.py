"""C04 — incoming Interests reach exactly the handler of their longest attached prefix; duplicate attach
refused; detach frame; reply only before the deadline and truthfully reported.

Every history (list of events) is run three ways:
 * implementation: a real ndn.appv2.NDNApp / ndn.app.NDNApp / ndn.app_support.dispatcher.Dispatcher with a
   recording dummy face on the virtual-time loop (ndn.utils.timestamp patched to the virtual clock); Interests
   are real wire packets (ndn.encoding.make_interest, optionally inside an LpPacket with a PIT token) pushed
   through the real `_receive`; handlers record who was called with which name;
 * model (Model/Dispatch.v over Model/Trie.v, extracted): correspondence, differences -> ctx.disagree;
 * specification (Spec/DispatchSpec.v, extracted: a partial map prefix -> handler, "longest occupied prefix",
   "sent iff t <= deadline and the face is up, reported as sent iff sent"): evaluated against the
   implementation's observations (what went out on the recording face, what reply() returned / raised),
   differences -> ctx.violation.
Events between two `settle`s are executed inside one coroutine step (no loop turn in between), so
"Interest arrives, handler detached in the same turn" is generated on purpose.
"""
import asyncio
import itertools
import logging

from harness.lib import vtloop
from harness.lib import gen as G
from harness.lib.model import is_err

RULE = ('histories of attach/detach/receive/settle/reply/disconnect events over a name pool (components a, b, ab, c, '
        'keyword-typed a, binary, typed number, 300-byte component; depth 0..5 incl. the root prefix), each attach '
        'through a random representation (16 kinds: URI string, str/bytes/bytearray/memoryview component list, encoded '
        'name as bytes/bytearray/read-only or writable memoryview, read-only views of caller-owned writable buffers, writable view of a region of a larger scratch '
        'buffer, writable component views into one shared buffer); `scrib` events: the caller overwrites every '
        'writable buffer it handed to attach/detach so far (zeros, 0xFF, the same layout respelling every / only the '
        'last component into another pool name) and the specification machine is run on the history without them '
        '(attachments are values); buffer-reuse block: 7 writable representations x 4 overwrite contents x same turn / '
        'after a loop turn on the full 9-node tree (+ random subsets), all probe names, duplicate attaches, '
        'detaches of free and occupied prefixes, re-attach and second reuse, on all three front-ends; an exception '
        'out of the real receive path is an observation (class delivery). Interests as wire packets (bytes and bytearray buffers, with/without lifetime, '
        'with/without PIT token); exhaustive block: subsets of a 9-node name tree x all 781 Interest names of depth '
        '<= 4 over 5 components (thorough: all 512 subsets, quick: 40), on all three front-ends; reply grid: lifetimes '
        '{absent,0,1,100,4000,2^32} x reply time deadline-1/0/+1 ms x token {none, empty, 2 bytes}; state of the face '
        'at the reply: `down` (the transport clears running / face.shutdown() / app.shutdown()) and `up` events anywhere '
        'in a history plus a per-call flag; the same reply grid x 10 placements of the loss of the connection (before '
        'the Interest, in the loop turn of its arrival, after the delivery, after a first reply, only during the call; '
        'staying down, _clean_up, reconnected, loop turns in between) x the three ways; two-Interest reply '
        'interleavings with the connection lost / restored among the replies; random histories draw down/up with p = '
        '0.07 per step and 15 % of the replies on a face that is down for that call.  The recording face transmits only '
        'while it is up (like a socket), so `sent` is what actually went out; demanded by the specification machine '
        '(s_reply_out): the Data goes out iff t <= deadline and the face is up, and the callback reports "sent" (True) '
        'exactly then -- False or NetworkError otherwise (classes reply-*-face-down).  Reply sizes x envelope of the Interest '
        '(appv2, the only front-end whose handlers get a reply callback): the Data handed to reply() is a DigestSha256-signed '
        'packet of exactly n octets for n = the smallest signed Data (48), 50, 100, 200, every size 228..254 and 257..260 (the one-octet / '
        'three-octet TLV length switch of the Data and of an LpPacket around it; no TLV is 255 or 256 octets long), 300, 1000, '
        '4000, 8000, 8500, 8700 and every size 8750..8800 (thorough: 8681..8800; 8800 = the packet size limit, so every legal '
        'Data) x the Interest arriving bare / inside an LpPacket with a PIT token of 0, 1, 4, 8, 32 octets / an LpPacket without '
        'a token / with a CongestionMark (with and without a token) x lifetime {absent, 0, 100, 4000} x replies inside the '
        'lifetime, at the deadline, after it, handed over as bytes and as bytearray x the face up, down (three ways) and back '
        'up, down for one call; several Interests in different envelopes outstanding at once and answered in any order with '
        'Data of different sizes with down/up events in between; random histories draw the envelope (p = 0.3) and a size '
        '(p = 0.5, half of them within 60 octets of the limit).  Size and envelope are no business of the specification '
        'machine: the Data goes out iff t <= deadline and the face is up and reply() returns True exactly then (a reply that '
        'was due, did not go out and is reported as sent is class reply-return-not-truthful); the byte check demands that what '
        'went out is exactly that Data, bare when no PIT token came with the Interest, else inside an LpPacket echoing it.  A separate '
        'stream adds None handlers (correspondence only).  Registration API of the legacy front-end (real app.NDNApp connected '
        'through its own main_loop() to a scripted forwarder face): world histories of route() declared before connecting / on the '
        'live connection, register(name, handler) and register(name, None), unregister (of attached, free and announced-only '
        'prefixes), set_/unset_interest_filter, Interests, connect / disconnect / reconnect, and the forwarder answering the '
        'outstanding command with status 200 / 201 / 400 / 403 / 404 / 500 / 0, a Nack (50, 100, 150, 0, reason absent), no answer '
        '(timeout), a non-ControlResponse content, no content, a bad signature; (a) answer grid: 15 answers x 5 ways /a/b gets or '
        'loses a handler under a handler at /a, Interests before and after every answer; (b) role grid on the 9-node tree: each node x '
        'each role {free, filter, register, declared route, live route, announced without handler} (others random), probes of all '
        'probe names after every phase, unregister of half the nodes of every role, register with / without handler on occupied '
        'prefixes, reconnection; (c) random world histories steered by the schedule.  The schedule (Lin) turns a world history into '
        'table steps VRegister / VUnregister (Model/DispatchV1.v), Interests and loop turns; the specification machine '
        '(Spec/DispatchV1Spec.v: register without a handler changes nothing, unregister frees exactly that prefix and never fails, '
        'answers never reach the table) says who receives each Interest (classes *-registration-api).  '
        'Refused attach x options (legacy front-end: need_raw_packet x need_sig_ptrs x validator {none, accepting, rejecting} = 12 '
        'option sets; appv2: validator {none, accepting, rejecting} through attach_handler and route): a handler with a STRICT '
        'signature (exactly the optional arguments it asked for) occupies /r/p -- alone, or between handlers at /r and /r/p/q with '
        'options of their own --, then a second attach on /r/p (given as components, URI, encoded bytes, bytearray, component '
        'strings) is attempted with EVERY option set (all 144 / 9 pairs), then nothing / another refused attach with a third '
        'option set / detach / detach and a fresh attach with the refused options.  Before and after every step plain AND signed '
        '(DigestSha256) Interests at and under every prefix are pushed through _receive.  Demanded (the property\'s statement; '
        'C04_duplicate_refused_keeps_options is the model-side counterpart): the second attach raises ValueError; every Interest is '
        'delivered exactly once to the handler of its longest attached prefix iff the validator THAT handler was attached with '
        '(the application default when it brought none on v1; none = signed Interests dropped on appv2) accepts, no other validator is '
        'consulted, the handler is called with exactly the optional arguments it asked for (raw_packet = the received wire, '
        'sig_ptrs of that packet), no delivery task ends with an error (classes delivery / validator-consulted / '
        'handler-arguments / loop-exception, suffix -after-refused-attach once a refused attach has happened).  '
        'non-trivial = at least one attach and one Interest; distinct by history hash')
ASSUMPTIONS = [
    'events separated by `settle` are separated by loop quiescence; events inside one turn run without a loop turn '
    'in between (asyncio task scheduling is FIFO: modelled as the pending list)',
    'plain Interests only (no ApplicationParameters / signature): the validation gate is C05 -- except in the refused-attach '
    'family, where signed Interests show WHICH validator (the occupying handler\'s or the refused caller\'s) judges',
    'pygtrie 2.6.1 is modelled by Model/Trie.v (exercised, not verified); name normalisation is C09',
    'handlers are distinct callables; None as a handler is outside the specification (correspondence only)',
    'a face transmits nothing while `running` is false (the recording face drops such bytes, as a closed socket does); '
    'a NetworkError out of reply() counts as "not reported as sent"',
    'registration API (legacy front-end): WHEN the table step of a route() / register() / unregister() call runs is the '
    'schedule, an input: tasks run in creation order; the starting task of main_loop registers the declared routes in order, '
    'each when the previous command has completed (whatever the answer), and ends at the first refused one; commands go out '
    'one at a time.  The harness class Lin encodes this and is exercised (0 disagreements), not verified.  Not driven: '
    'disconnecting while a command is outstanding, route() on a live connection while the starting task is under way, '
    'register / unregister before the first connection (docs/C04.md)',
]

FE_V2, FE_V1, FE_DISP = 2, 1, 0
FE_NAME = {2: 'appv2.NDNApp', 1: 'app.NDNApp', 0: 'dispatcher.Dispatcher'}


# ---- implementation adapters ----------------------------------------------------------------------
class Face:
    """Recording face.  Like a socket, it transmits only while it is up: bytes handed to send() while it is
    down go nowhere (`dropped`), so `sent` is what actually went out."""
    def __init__(self):
        self.running = True
        self.sent = []
        self.dropped = []
        self.callback = None

    def send(self, data):
        (self.sent if self.running else self.dropped).append(bytes(data))

    def shutdown(self):
        self.running = False


class Reg:
    def __init__(self):
        self.calls = []

    def set_app(self, app):
        self.app = app

    async def register(self, name):
        self.calls.append(('reg', [bytes(c) for c in name]))
        return True

    async def unregister(self, name):
        self.calls.append(('unreg', [bytes(c) for c in name]))
        return True


class Tag:
    """A validator stand-in with an identity."""
    def __init__(self, i):
        self.i = i

    async def __call__(self, *a, **k):
        return True


def err_code(e):
    from ndn.types import NetworkError
    if isinstance(e, NetworkError):
        return 101
    if isinstance(e, KeyError):
        return 7
    if isinstance(e, ValueError):
        return 3
    if isinstance(e, TypeError):
        return 5
    if isinstance(e, AttributeError):
        return 9
    if isinstance(e, IndexError):
        return 2
    return 1000


WIRES = {}     # (name, lifetime) -> Interest wire built by ndn.encoding.make_interest

# ---- the Data handed to reply(): every legal size; the envelope the Interest arrived in ---------------
MAX_PKT = 8800          # NDN packet size limit: a Data packet of up to 8800 octets is a legal reply
_DATA = {}


def data_of_size(n):
    """A DigestSha256-signed Data packet (ndn.encoding.make_data) whose wire is exactly n octets, None when there
    is none (no TLV is 255 or 256 octets long; below the smallest signed Data).  The content is a counting
    pattern, so a truncated / shifted copy on the face is not the Data."""
    if n in _DATA:
        return _DATA[n]
    from ndn.encoding import make_data, MetaInfo
    from ndn.security import DigestSha256Signer

    def build(name, content):
        return bytes(make_data(name, MetaInfo(), content, signer=DigestSha256Signer()))
    out = None
    variants = [[]] + [[b'\x08\x01a', b'\x08\x01b'] + ([bytes([8, q]) + b'p' * q] if q else []) for q in range(6)]
    for name in variants:
        for content in (None, b''):
            w = build(name, content)
            if len(w) == n:
                out = w
        base = len(build(name, b''))
        if out is not None or base > n:
            continue
        for k in range(max(1, n - base - 8), n - base + 1):
            w = build(name, bytes((7 * i + 3) & 0xff for i in range(k)))
            if len(w) == n:
                out = w
                break
        if out is not None:
            break
    _DATA[n] = out
    return out


def min_data_size():
    from ndn.encoding import make_data, MetaInfo
    from ndn.security import DigestSha256Signer
    return len(make_data([], MetaInfo(), None, signer=DigestSha256Signer()))


def envelope(tok):
    """The 6th field of a `recv` event -> (inside an LpPacket?, PIT token | None, CongestionMark | None).
    None: the bare Interest; bytes: an LpPacket with that PIT token (b'' = an empty token);
    ('lp', token | None, mark | None): an LpPacket with / without a PIT token and with / without a CongestionMark."""
    if tok is None:
        return False, None, None
    if isinstance(tok, (bytes, bytearray)):
        return True, bytes(tok), None
    return True, (None if tok[1] is None else bytes(tok[1])), tok[2]


def lp_overhead(tok):
    """octets the LpPacket wrapper adds around a Data of >= 253 octets that echoes this PIT token"""
    in_lp, t, _ = envelope(tok)
    return 0 if t is None else 4 + 2 + len(t) + 4


ENVELOPES = [None, b'', b'\x07', b'\xde\xad\xbe\xef', b'\xde\xad\xbe\xef\x00\x00\x00\x01', bytes(range(200, 232)),
             ('lp', None, None), ('lp', None, 1), ('lp', b'\x01\x02\x03\x04', 1), ('lp', b'', 0xffff),
             ('lp', bytes(range(32)), 3)]


class Impl:
    def __init__(self, fe, loop):
        self.fe = fe
        self.loop = loop
        self.calls = []        # (hid, name, deadline, reply, kwargs)
        self.seen = 0
        self.face = Face()
        self.handlers = {}
        self.validators = {}
        self.tokens = []
        self.bufs = []         # caller-owned writable buffers handed to attach/detach: (buffer, image per mode)
        self.up = True         # state of the face between events (`down` / `up` events)
        self.env_errors = []   # exceptions out of shutdown() (environment events have no observation of their own)
        if fe == FE_V2:
            from ndn.appv2 import NDNApp
            self.reg = Reg()
            self.app = NDNApp(face=self.face, registerer=self.reg)
            self.trie = self.app._fib
        elif fe == FE_V1:
            from ndn.app import NDNApp
            self.app = NDNApp(face=self.face, keychain=object())
            self.trie = self.app._prefix_tree
        else:
            from ndn.app_support.dispatcher import Dispatcher
            self.app = Dispatcher()
            self.trie = self.app._tree

    def handler(self, hid):
        if hid is None:
            return None
        if hid not in self.handlers:
            if self.fe == FE_V2:
                def h(name, app_param, reply, context, hid=hid):
                    self.calls.append((hid, [bytes(c) for c in name], context['deadline'], reply,
                                       context.get('pit_token')))
            else:
                def h(name, param, app_param, hid=hid, **kw):
                    self.calls.append((hid, [bytes(c) for c in name], 0, None, sorted(kw)))
            self.handlers[hid] = h
        return self.handlers[hid]

    def validator(self, vid):
        if vid is None:
            return None
        return self.validators.setdefault(vid, Tag(vid))

    def attach(self, arg, hid, vid, raw, sig, via_route):
        h, v = self.handler(hid), self.validator(vid)
        try:
            if self.fe == FE_V2:
                if via_route:
                    self.app.route(arg, v)(h)
                else:
                    self.app.attach_handler(arg, h, v)
            elif self.fe == FE_V1:
                self.app.set_interest_filter(arg, h, v, raw, sig)
            else:
                self.app.register(arg, h)
            return [1]
        except Exception as e:   # noqa
            return [0, err_code(e)]

    def detach(self, arg):
        try:
            if self.fe == FE_V2:
                self.app.detach_handler(arg)
            elif self.fe == FE_V1:
                self.app.unset_interest_filter(arg)
            else:
                self.app.unregister(arg)
            return [1]
        except Exception as e:   # noqa
            return [0, err_code(e)]

    async def recv(self, name, life, buf_kind, token):
        from ndn.encoding import make_interest, InterestParam, parse_tl_num, parse_interest
        key = (tuple(name), life)
        wire = WIRES.get(key)
        if wire is None:
            wire = WIRES[key] = bytes(make_interest(name, InterestParam(lifetime=life, nonce=0x01020304)))
        wire = wire if buf_kind == 0 else bytearray(wire)
        if self.fe == FE_DISP:
            n, param, app_param, _ = parse_interest(wire)
            before = len(self.calls)
            try:
                r = self.app.dispatch(n, param, app_param)
            except Exception as e:   # noqa
                return [0, err_code(e)]
            return [5, 1 if r is True else (0 if r is False else 9), self.take()]
        in_lp, lp_token, mark = envelope(token)
        if in_lp and self.fe == FE_V2:
            from ndn.encoding import ndnlp_v2 as ndnlp
            pkt = ndnlp.LpPacket()
            pkt.lp_packet = ndnlp.LpPacketValue()
            if lp_token is not None:
                pkt.lp_packet.pit_token = lp_token
            if mark is not None:
                pkt.lp_packet.congestion_mark = mark
            pkt.lp_packet.fragment = wire
            wire = pkt.encode()
            wire = bytes(wire) if buf_kind == 0 else bytearray(wire)
        typ, _ = parse_tl_num(wire)
        try:
            await self.app._receive(typ, wire)
        except Exception as e:   # noqa  (the table lookup is real code: a raising lookup is an observation)
            return [0, err_code(e)]
        return [2]

    def take(self):
        new = self.calls[self.seen:]
        self.seen = len(self.calls)
        return [[c[0], c[1], c[2]] for c in new]

    def down(self, how):
        """the connection goes away: 0 the transport notices (running cleared), 1 face.shutdown(), 2 app.shutdown()"""
        self.up = False
        if self.fe == FE_DISP:
            return
        try:
            if how == 1:
                self.face.shutdown()
            elif how == 2:
                self.app.shutdown()
        except Exception as e:   # noqa
            self.env_errors.append(e)
        self.face.running = False

    def come_up(self):
        self.up = True
        self.face.running = True

    def reply(self, i, running, data):
        """[4, packets that went out on the face, return value] | [7, packets that went out, exception class]
        (reply raised) | [0, code] (no such reply callback).  `running` False: the face is down for this call."""
        if self.fe != FE_V2:
            return [0, 9]
        if i >= len(self.calls):
            return [0, 2]
        self.face.running = bool(running and self.up)
        n0 = len(self.face.sent)
        try:
            r = self.calls[i][3](data)
        except Exception as e:   # noqa
            sent = len(self.face.sent) - n0
            self.face.running = self.up
            return [7, sent, err_code(e)]
        sent = len(self.face.sent) - n0
        self.face.running = self.up
        code = {None: 0, False: 1, True: 2}.get(r, 9) if (r is None or isinstance(r, bool)) else 9
        return [4, sent, code]

    def cleanup(self):
        if self.fe == FE_DISP:
            return [1]
        try:
            self.app._clean_up()
            return [1]
        except Exception as e:   # noqa
            return [0, err_code(e)]

    def items(self):
        out = []
        for k, node in self.trie.iteritems():
            key = [bytes(c) for c in k]
            cb = next((i for i, h in self.handlers.items() if h is node.callback), None if node.callback is None else -1)
            vd = getattr(node, 'validator', None)
            vd = vd.i if isinstance(vd, Tag) else (None if vd is None else -1)
            ex = getattr(node, 'extra_param', None)
            ex = None if ex is None else [int(bool(ex.get('raw_packet'))), int(bool(ex.get('sig_ptrs')))]
            out.append([key, [[] if cb is None else [cb], [] if vd is None else [vd], [] if ex is None else [ex]]])
        return sorted(out, key=lambda x: x[0])

    def has_node(self, key):
        try:
            self.trie._get_node(key)
            return True
        except KeyError:
            return False
        except Exception:   # noqa  (no such accessor / a key that cannot be compared: not observable here)
            return None


# ---- name pool / representations ------------------------------------------------------------------
def comp(uri):
    from ndn.encoding import Component
    return bytes(Component.from_str(uri))


N_KINDS = 16
# representations that hand the library a buffer the caller can still write to afterwards
WRITABLE_KINDS = (3, 5, 7, 9, 10, 11, 12, 13, 14, 15)
N_MODES = 4


def respell(c, rot):
    """Another well-formed component of the same length (generic one-letter components rotate through the
    tree alphabet so that the respelt name is another name of the pool; otherwise the last value byte flips)."""
    if len(c) == 3 and c[0] == 8 and chr(c[2]) in rot:
        return c[:2] + rot[chr(c[2])].encode()
    return c[:-1] + bytes([c[-1] ^ 1]) if len(c) > 2 else c


ROT = {x: y for x, y in zip('abcez', 'bceza')}


def images(pre, comps, post, hdr):
    """What the caller writes over a buffer that held pre ++ hdr ++ comps ++ post, per scribble mode:
    0 zeros, 1 0xFF, 2 the same layout spelling another name (every component respelt), 3 only the last
    component respelt.  All images have the length of the buffer."""
    n = len(pre) + len(hdr) + sum(len(c) for c in comps) + len(post)
    alt_all = [respell(c, ROT) for c in comps]
    alt_last = list(comps[:-1]) + [respell(c, ROT) for c in comps[-1:]]
    return [bytes(n), b'\xff' * n, pre + hdr + b''.join(alt_all) + post, pre + hdr + b''.join(alt_last) + post]


def represent(rng, name, kind=None, bufs=None):
    """One of the accepted representations of the FormalName `name` (list of component bytes).  Buffers that stay
    writable for the caller are appended to `bufs` as (bytearray, images) for later `scrib` events."""
    from ndn.encoding import Name, Component
    kind = rng.randrange(N_KINDS) if kind is None else kind
    bufs = [] if bufs is None else bufs

    def own(c):            # a caller-owned writable copy of one component
        b = bytearray(c)
        bufs.append((b, images(b'', [bytes(c)], b'', b'')))
        return b

    def own_name(pre=b'', post=b''):
        enc = bytes(Name.to_bytes(name))
        hdr = enc[:len(enc) - sum(len(c) for c in name)]
        b = bytearray(pre + enc + post)
        bufs.append((b, images(pre, [bytes(c) for c in name], post, hdr)))
        return b

    if kind == 0:
        return kind, Name.to_str(name)
    if kind == 1:
        return kind, list(name)
    if kind == 2:
        return kind, [Component.to_str(c) for c in name]
    if kind == 3:
        return kind, [own(c) if i % 2 else memoryview(c) for i, c in enumerate(name)]
    if kind == 4:
        return kind, bytes(Name.to_bytes(name))
    if kind == 5:
        return kind, own_name()
    if kind == 6:
        return kind, memoryview(bytes(Name.to_bytes(name)))
    if kind == 7:
        return kind, tuple(memoryview(own(c)) for c in name)
    if kind == 8:
        return kind, [Component.to_str(c) if i % 2 else c for i, c in enumerate(name)]
    if kind == 9:          # writable view of the whole encoded name
        return kind, memoryview(own_name())
    if kind == 10:         # writable view of a region of a larger scratch buffer
        pre, post = b'\x07\x03\x08', b'\x08\x01a\x00\x00'
        b = own_name(pre, post)
        return kind, memoryview(b)[len(pre):len(b) - len(post)]
    if kind == 11:         # component list: writable views into ONE scratch buffer holding all components
        b = bytearray(b''.join(name))
        bufs.append((b, images(b'', [bytes(c) for c in name], b'', b'')))
        mv, out, o = memoryview(b), [], 0
        for c in name:
            out.append(mv[o:o + len(c)])
            o += len(c)
        return kind, out
    if kind == 12:         # every component a bytearray
        return kind, [own(c) for c in name]
    # 13-15: READ-ONLY views of buffers the caller still owns and can write to (the view is read-only, the memory is not)
    if kind == 13:
        return kind, memoryview(own_name()).toreadonly()
    if kind == 14:
        pre, post = b'\x07\x03\x08', b'\x08\x01a\x00\x00'
        b = own_name(pre, post)
        return kind, memoryview(b).toreadonly()[len(pre):len(b) - len(post)]
    b = bytearray(b''.join(name))
    bufs.append((b, images(b'', [bytes(c) for c in name], b'', b'')))
    mv, out, o = memoryview(b).toreadonly(), [], 0
    for c in name:
        out.append(mv[o:o + len(c)])
        o += len(c)
    return kind, out


def ns_sexp(arg):
    """The same argument as the model's ns_name (ExC04 request 3)."""
    if isinstance(arg, str):
        cps = [ord(c) for c in arg]
        return [1, bytes(cps) if all(c < 256 for c in cps) else cps]
    if isinstance(arg, (bytes, bytearray, memoryview)):
        return [0, bytes(arg)]
    out = []
    for c in arg:
        if isinstance(c, str):
            cps = [ord(x) for x in c]
            out.append([1, bytes(cps) if all(x < 256 for x in cps) else cps])
        else:
            out.append([0, bytes(c)])
    return [2, out]


# ---- running one history --------------------------------------------------------------------------
# harness-level events:
#   ('att', name, hid, vid, raw, sig, repr_kind, via_route) ('det', name, repr_kind)
#   ('recv', name, life, now, buf_kind, token) ('settle',) ('reply', i, now, running[, size]) ('clean',)
#       token: the envelope the Interest arrives in (see `envelope`); size: the Data handed to reply() is
#       data_of_size(size) instead of the small default one.  Neither is visible to the model / specification.
#   ('down', how) / ('up',): the face goes down (0 the transport clears `running`, 1 face.shutdown(), 2 app.shutdown())
#       and stays down until `up` (reconnected).  Not events of the model or the specification either: they fix
#       the `up` argument of the reply events that follow (face_states); the 4th field of `reply` is a per-call
#       override (False: the face is down during this one call).
#   ('scrib', mode): the caller overwrites every writable buffer it handed to attach/detach so far (see `images`).
#       Not an event of the model or of the specification: attachments are values there, so the observations
#       demanded for the rest of the history are those of the history without the scrib events.
SILENT = ('scrib', 'down', 'up')     # harness-level events without an observation of their own


def face_states(h):
    """per event of h: is the face up when the event happens (`down` / `up` events, and the per-call flag of reply)"""
    up, out = True, []
    for e in h:
        if e[0] == 'down':
            up = False
        elif e[0] == 'up':
            up = True
        out.append(bool(up and e[3]) if e[0] == 'reply' else up)
    return out


def model_ops(h):
    out = []
    for e, up in zip(h, face_states(h)):
        if e[0] in SILENT:
            continue
        if e[0] == 'att':
            out.append([1, e[1], [] if e[2] is None else [e[2]], [] if e[3] is None else [e[3]], e[4], e[5]])
        elif e[0] == 'det':
            out.append([2, e[1]])
        elif e[0] == 'recv':
            out.append([3, e[1], [] if e[2] is None else [e[2]], e[3]])
        elif e[0] == 'settle':
            out.append([4])
        elif e[0] == 'reply':
            out.append([5, e[1], e[2], up])
        else:
            out.append([6])
    return out


def spec_ops(fe, h):
    """None when the history leaves the specification's alphabet (None handler, reply in v1).  The state of the
    face at each reply (up / down, whichever way it went down) is part of the specification's event."""
    out = []
    for e, up in zip(h, face_states(h)):
        if e[0] in SILENT:
            continue
        if e[0] == 'att':
            if e[2] is None:
                return None
            out.append([1, e[1], e[2]])
        elif e[0] == 'det':
            out.append([2, e[1]])
        elif e[0] == 'recv':
            out.append([3, e[1], [] if e[2] is None else [e[2]], e[3]])
        elif e[0] == 'settle':
            out.append([4])
        elif e[0] == 'reply':
            if fe != FE_V2:
                return None
            out.append([5, e[1], e[2], up])
        else:
            out.append([6])
    return out


def abstract(fe, e, o):
    """Implementation observation -> specification observation."""
    if e[0] == 'att':
        return [1] if o == [1] else ([2] if o == [0, 3] else ['exc', o])
    if e[0] == 'det':
        return [1] if o == [1] else ([3] if o == [0, 7] else ['exc', o])
    if e[0] == 'recv':
        if fe == FE_DISP:
            return [6, o[1], o[2]] if o[0] == 5 else ['exc', o]
        return [4] if o == [2] else ['exc', o]
    if e[0] == 'settle':
        return [5, o[1]]
    if e[0] == 'reply':
        # [7, did the Data go out on the face, did the callback tell the application "sent" (return True)];
        # a NetworkError out of reply() tells the application "not sent"
        if o[0] == 4:
            return [7, 1 if o[1] else 0, 1 if o[2] == 2 else 0] if o[1] in (0, 1) and o[2] in (0, 1, 2) else ['odd', o]
        if o[0] == 7:
            return [7, 1 if o[1] else 0, 0] if o[1] in (0, 1) and o[2] == 101 else ['exc', o]
        return [8] if o == [0, 2] else ['exc', o]
    return [1] if o == [1] else ['exc', o]


VCLASS = {'att': 'attach-outcome', 'det': 'detach-outcome', 'recv': 'delivery', 'settle': 'delivery',
          'clean': 'disconnect'}


def run_history(ctx, fe, h, stratum, state, check_nodes=True):
    """state: dict with loop; returns nothing, reports through ctx."""
    rng = ctx.rng
    loop = state['loop']
    impl = Impl(fe, loop)
    data = state['data']
    obs = []
    reply_bytes = []

    async def turn(chunk, base):
        for j, e in enumerate(chunk):
            if e[0] == 'att':
                _, arg = represent(rng, e[1], e[6], impl.bufs)
                if state.get('check_norm'):
                    m = ctx.call([3, ns_sexp(arg)])
                    if is_err(m) or [bytes(c) for c in m[1]] != e[1]:
                        ctx.disagree('Name.normalize', 'attach argument does not normalise to the intended components',
                                     [e[6], e[1]], m, None)
                obs.append(impl.attach(arg, e[2], e[3], e[4], e[5], e[7]))
            elif e[0] == 'det':
                _, arg = represent(rng, e[1], e[2], impl.bufs)
                obs.append(impl.detach(arg))
            elif e[0] == 'recv':
                loop._vt = e[3] / 1000.0
                impl.tokens.append(e[5])
                obs.append(await impl.recv(e[1], e[2], e[4], e[5]))
            elif e[0] == 'reply':
                loop._vt = e[2] / 1000.0
                n0 = len(impl.face.sent)
                dt = data if len(e) < 5 or e[4] is None else data_of_size(e[4])
                o = impl.reply(e[1], e[3], dt if (len(e) + e[1]) % 2 else bytearray(dt))
                obs.append(o)
                if len(e) >= 5 and e[4] is not None:
                    ctx.stat('reply-data-octets:' + ('<=252' if e[4] <= 252 else '253..8700' if e[4] <= 8700 else
                                                     '8701..8779' if e[4] < 8780 else '8780..8800'))
                if o[0] == 4 and o[1] == 1:
                    reply_bytes.append((e[1], impl.face.sent[n0], dt))
                elif o[0] == 4 and o[1] > 1:
                    reply_bytes.append((e[1], None, dt))
            elif e[0] == 'clean':
                obs.append(impl.cleanup())
            elif e[0] == 'down':
                impl.down(e[1])
                ctx.stat(f'face-down:how{e[1]}')
            elif e[0] == 'up':
                impl.come_up()
            elif e[0] == 'scrib':
                for b, imgs in impl.bufs:
                    b[:] = imgs[e[1]]
                ctx.stat(f'scrib:mode{e[1]}')

    chunk = []
    for e in h:
        if e[0] == 'settle':
            loop.run_until_complete(turn(chunk, len(obs)))
            loop.settle()
            obs.append([3, impl.take()])
            chunk = []
        else:
            chunk.append(e)
    if chunk:
        loop.run_until_complete(turn(chunk, len(obs)))
        loop.settle()
    errs = loop.collect_errors() if state.get('collect') else list(loop.errors)
    loop.errors.clear()
    case = {'fe': FE_NAME[fe], 'history': h}
    full = h                                                   # with the scrib events
    pos = [i for i, e in enumerate(full) if e[0] not in SILENT]   # observed event j is full[pos[j]]
    mops, sops = model_ops(full), spec_ops(fe, full)
    ups = face_states(full)
    h = [full[i] for i in pos]
    reuse = '-after-caller-buffer-reuse'
    if impl.env_errors:
        ctx.violation(FE_NAME[fe], 'disconnect', f'shutdown raised {impl.env_errors[0]!r}', case)

    def reused(j):             # did the caller overwrite a buffer it had handed over before observed event j?
        seen = False
        for e in full[:pos[j]]:
            if e[0] in ('att', 'det') and e[6 if e[0] == 'att' else 2] in WRITABLE_KINDS and e[1]:
                seen = True
            elif e[0] == 'scrib' and seen:
                return True
        return False
    if errs:
        ctx.violation(FE_NAME[fe], 'loop-exception' + (reuse if h and reused(len(h) - 1) else ''),
                      f'exception reached the loop handler: {str(errs[0])[:200]}', case)

    # -- correspondence ------------------------------------------------------------------------------
    m = ctx.call([1, fe, mops])
    if is_err(m):
        ctx.disagree('C04.run', 'model rejected the request', case, m, None)
        return
    mobs, mstate = m
    for j, (e, mo, io) in enumerate(zip(h, mobs, obs)):
        if mo[0] == 2:     # lookup result: only "did it queue" is visible, at the next settle
            ctx.stat(f'lookup:{("noroute", "nocallback", "hit")[mo[1][0]]}')
            ok = io == [2]
        elif mo[0] == 3:
            ok = io[0] == 3 and [[c[0], [bytes(x) for x in c[1]], c[2]] for c in mo[1]] == io[1]
        elif mo[0] == 5:
            ok = io[0] == 5 and mo[1] == io[1] and [[c[0], [bytes(x) for x in c[1]], c[2]] for c in mo[2]] == io[2]
        elif io[0] == 7:      # reply raised: the model raises the same class and nothing went out
            ok = mo == [0, io[2]] and io[1] == 0
        else:
            ok = mo == io
        if not ok:
            ctx.disagree(f'{FE_NAME[fe]}:{e[0]}', f'event {pos[j]} ({e[0]}) observed differently', case, mo, io)
            break
    if len(mobs) != len(obs):
        ctx.disagree('C04.run', 'observation count', case, len(mobs), len(obs))
    # final table
    mlen, mitems, mpruned, mpending, mncalls = mstate
    if mlen != len(impl.trie):
        ctx.disagree(f'{FE_NAME[fe]}:len', 'len(table)', case, mlen, len(impl.trie))
    mit = sorted([[[bytes(c) for c in k], v] for k, v in mitems], key=lambda x: x[0])
    if mit != impl.items():
        ctx.disagree(f'{FE_NAME[fe]}:items', 'table contents (key, callback, validator, extra)', case, mit, impl.items())
    if mpruned != 1:
        ctx.disagree('Trie.pruned', 'model table has an empty node below the root', case, mpruned, None)
    if check_nodes:
        keys = {tuple(k) for k, _ in mit}
        nodes = {k[:i] for k in keys for i in range(len(k) + 1)} | {()}
        cand = {tuple(e[1][:i]) for e in h if e[0] in ('att', 'det') for i in range(len(e[1]) + 1)}
        for k in cand:
            hn = impl.has_node(list(k))
            if hn is not None and hn != (k in nodes):
                ctx.disagree(f'{FE_NAME[fe]}:nodes', 'trie node set (pruning after delete)', case, k in nodes, hn)
                break
    if mncalls != len(impl.calls):
        ctx.disagree(f'{FE_NAME[fe]}:calls', 'number of handler invocations', case, mncalls, len(impl.calls))

    # -- v1: the keyword arguments follow the flags given at attach time (node.extra_param) -------------
    if fe == FE_V1:
        flags = {}
        for e, io in zip(h, obs):
            if e[0] == 'att' and io == [1] and e[2] is not None:
                flags[e[2]] = sorted((['raw_packet'] if e[4] else []) + (['sig_ptrs'] if e[5] else []))
        for c in impl.calls:
            if c[0] in flags and c[4] != flags[c[0]]:
                ctx.disagree('app.NDNApp:kwargs', 'keyword arguments passed to the handler', case, flags[c[0]], c[4])
                break
    # -- v2: what reply() put on the face is the Data (bare, or in an LpPacket echoing the token) -------
    for i, sent, dt in reply_bytes:
        tok = impl.calls[i][4]
        good = False
        if sent is not None:
            if tok is None:
                good = sent == dt
            else:
                try:
                    from ndn.encoding import parse_lp_packet_v2
                    lp = parse_lp_packet_v2(sent, with_tl=True)
                    good = bytes(lp.fragment) == dt and bytes(lp.pit_token) == bytes(tok)
                except Exception:   # noqa
                    good = False
        if not good:
            ctx.violation(FE_NAME[fe], 'reply-wrong-bytes', 'reply() did not transmit exactly the Data once '
                          '(bare without PIT token, inside an LpPacket echoing the token otherwise)', case)

    # -- specification oracle on the implementation's observations ------------------------------------
    so = sops
    if so is not None:
        sobs = ctx.call([2, fe, so])
        for j, (e, s, io) in enumerate(zip(h, sobs, obs)):
            a = abstract(fe, e, io)
            if s[0] in (5, 6):
                s = s[:-1] + [[[c[0], [bytes(x) for x in c[1]], c[2]] for c in s[-1]]]
            if a != s:
                if e[0] == 'reply':
                    if a[0] == 7 and s[0] == 7 and a[1] != s[1] and not (s[1] == 1 and a[2] == 1):
                        cls = 'reply-sent-vs-deadline'      # went out after the deadline / withheld and said so
                    elif a[0] == 7 and s[0] == 7:
                        cls = 'reply-return-not-truthful'
                    else:
                        cls = 'reply-outcome'
                    if not ups[pos[j]]:
                        cls += '-face-down'
                else:
                    cls = VCLASS[e[0]]
                note = ''
                if e[0] == 'reply':
                    note = (' [reply: (went out on the face, reported as sent); the face is '
                            + ('up' if ups[pos[j]] else 'DOWN') + ' at this reply]')
                    if len(e) >= 5 and e[4] is not None:
                        rcv = [x for x in full[:pos[j]] if x[0] == 'recv']
                        note += (f' [the Data handed to reply() is {e[4]} octets; Interests arrived as '
                                 f'{[x[5] for x in rcv][:8]} (None bare, bytes = LpPacket with that PIT token, '
                                 f'(lp, token, CongestionMark))]')
                ctx.violation(FE_NAME[fe], cls + (reuse if reused(j) else ''),
                              f'event {pos[j]} {e[0]}: specification demands {s}, implementation did {a}{note}',
                              {'fe': FE_NAME[fe], 'history': full[:pos[j] + 1]})
                break
        ctx.stat('oracle_histories')
    else:
        ctx.stat('correspondence_only_histories')
    nontriv = any(e[0] == 'att' for e in h) and any(e[0] == 'recv' for e in h)
    ctx.case((fe, full), nontriv, {'fe': FE_NAME[fe], 'history': full[:12]}, stratum)


# =====================================================================================================
# The registration API of the legacy front-end: route() / register() / unregister() over a scripted forwarder
# =====================================================================================================
# World events (harness level; names are component lists):
#   ('route', name, hid, vid, raw, sig, repr_kind)   app.route(arg, v, raw, sig)(handler)      -- at any time
#   ('reg', name, hid | None, vid, raw, sig, repr_kind)   a task running app.register(arg, handler | None, v, raw, sig)
#   ('unreg', name, repr_kind)                       a task running app.unregister(arg)
#   ('att', ...) / ('det', ...) / ('recv', ...)      set_interest_filter / unset_interest_filter / an incoming Interest
#   ('connect',)                                     a task running app.main_loop(): the face opens, the declared routes
#                                                    are registered one after the other
#   ('disconnect',)                                  the connection goes away (only while no command is outstanding)
#   ('fwd', answer)                                  the forwarder answers the command that is outstanding (commands go out
#                                                    one at a time) and the loop runs: answer = a status code (200, 400, ...)
#                                                    | ('nack', reason form) | 'timeout' | 'garbage' | 'badsig' | 'empty'
#   ('settle',)                                      the loop runs
# The table steps these calls make (Model/DispatchV1.v: VRegister / VUnregister, Spec/DispatchV1Spec.v: SRegister /
# SUnregister) happen when the loop runs the calls; `Lin` is the schedule: it turns a world history into the history of
# table events, Interests and loop turns that the model and the specification machine are run on.
FWD_ANSWERS = [200, 200, 200, 400, 403, 404, 500, 201, 0, ('nack', 50), ('nack', 100), ('nack', 150), ('nack', ('absent',)),
               ('nack', 0), 'timeout', 'garbage', 'badsig', 'empty']


class FwdFace:
    """Scripted forwarder: records the command Interests the application sends; the history says how each is answered."""
    def __init__(self, loop):
        self.loop = loop
        self.running = False
        self.callback = None
        self.closed = None
        self.cmds = []         # outstanding commands: (wire, virtual time it was sent)
        self.sent = []

    async def open(self):
        self.running = True
        self.closed = self.loop.create_future()

    async def run(self):
        await self.closed

    def shutdown(self):
        self.running = False
        if self.closed is not None and not self.closed.done():
            self.closed.set_result(None)

    def send(self, data):
        self.sent.append(bytes(data))
        self.cmds.append((bytes(data), self.loop.time()))

    def isLocalFace(self):
        return True


class Lin:
    """The schedule of the legacy front-end's registration calls (asyncio: tasks run in creation order; commands are sent
    one at a time, first come first served; main_loop's starting task registers the declared routes in order, each after
    the previous command has completed -- whatever the answer --, and ends at the first refused one).  feed(i, e) consumes
    world event i and appends to self.ops entries (model op, specification op, where the implementation's observation
    is found):
        ('ev', i)          observation of world event i itself
        ('call', cid)      outcome of the first step of spawned call cid (a register / unregister task)
        ('route', i)       outcome of the first step of the register task that route() of event i created
        ('chain', c, k)    outcome of the k-th registration of the starting task of connection c
        ('clean', i)       the clean-up that follows the disconnect of event i
        ('turn', i)        the invocations made by the loop turn of event i
    `occ` (which prefixes are occupied) is tracked only to know where a starting task ends and to steer generation."""
    def __init__(self):
        self.connected = False      # face.running as the NEXT event sees it
        self.conn = 0
        self.declared = []
        self.chain = None           # routes the starting task has still to register | None
        self.chain_n = 0
        self.queue = []             # steps the next loop turn performs, in order
        self.cmds = []              # commands sent or waiting to be sent, in order: True = issued by the starting task
        self.occ = {}
        self.ops = []
        self.ncalls = 0

    @staticmethod
    def _opt(x):
        return [] if x is None else [x]

    def _attach(self, k, hid):
        if tuple(k) in self.occ:
            return False
        self.occ[tuple(k)] = hid
        return True

    def _register(self, r, src):
        name, hid, vid, raw, sig = r
        self.ops.append(([7, name, self._opt(hid), self._opt(vid), raw, sig], [7, name, self._opt(hid)], src))
        if hid is not None and not self._attach(name, hid):
            return False            # ValueError before any command
        return True

    def busy(self):
        return bool(self.cmds) or self.chain is not None or bool(self.queue)

    def feed(self, i, e):
        k = e[0]
        if k == 'att':
            self.ops.append(([1, e[1], self._opt(e[2]), self._opt(e[3]), e[4], e[5]], [1, e[1], e[2]], ('ev', i)))
            self._attach(e[1], e[2])
        elif k == 'det':
            self.ops.append(([2, e[1]], [2, e[1]], ('ev', i)))
            self.occ.pop(tuple(e[1]), None)
        elif k == 'recv':
            op = [3, e[1], self._opt(e[2]), e[3]]
            self.ops.append((op, op, ('ev', i)))
        elif k == 'route':
            r = (e[1], e[2], e[3], e[4], e[5])
            self.declared.append(r)
            if self.connected:
                self.queue.append(('route', r, i))
        elif k == 'reg':
            self.queue.append(('reg', (e[1], e[2], e[3], e[4], e[5]), self.ncalls))
            self.ncalls += 1
        elif k == 'unreg':
            self.queue.append(('unreg', e[1], self.ncalls))
            self.ncalls += 1
        elif k == 'connect':
            self.queue.append(('connect',))
        elif k == 'disconnect':
            self.connected = False          # face.shutdown() clears `running` at once; _clean_up follows in the loop turn
            self.queue.append(('disconnect', i))
        elif k in ('settle', 'fwd'):
            if k == 'fwd':
                if not self.cmds:
                    raise RuntimeError(f'event {i}: no command is outstanding')
                if self.cmds.pop(0):
                    self.queue.append(('chain',))
            self.turn()
            self.ops.append(([4], [4], ('turn', i)))
        else:
            raise RuntimeError(f'event {i}: unknown event {e!r}')

    def turn(self):
        q, self.queue = self.queue, []
        while q:
            st = q.pop(0)
            if st[0] in ('reg', 'route'):
                if self._register(st[1], ('call', st[2]) if st[0] == 'reg' else ('route', st[2])):
                    self.cmds.append(False)
            elif st[0] == 'unreg':
                self.ops.append(([8, st[1]], [8, st[1]], ('call', st[2])))
                self.occ.pop(tuple(st[1]), None)
                self.cmds.append(False)
            elif st[0] == 'connect':
                self.connected = True
                self.conn += 1
                self.chain = list(self.declared)
                self.chain_n = 0
                q.append(('chain',))        # the starting task is created by main_loop: it runs after what was created before
            elif st[0] == 'chain':
                if self.chain:
                    r = self.chain.pop(0)
                    ok = self._register(r, ('chain', self.conn, self.chain_n))
                    self.chain_n += 1
                    if ok:
                        self.cmds.append(True)
                    else:
                        self.chain = None   # the starting task ends with the ValueError
                else:
                    self.chain = None
            elif st[0] == 'disconnect':
                self.ops.append(([6], [6], ('clean', st[1])))
                self.occ.clear()


class World(Impl):
    """A real ndn.app.NDNApp over the scripted forwarder face, connected through its own main_loop()."""
    def __init__(self, loop):
        super().__init__(FE_V1, loop)
        from ndn.app import NDNApp
        self.face = FwdFace(loop)
        self.app = NDNApp(face=self.face, keychain=object())
        self.trie = self.app._prefix_tree
        self.ml = []            # main_loop tasks, one per connection
        self.chain_tasks = []   # the starting tasks main_loop created, one per connection
        self.route_tasks = []   # the register tasks route() created
        self.first = {}         # call id -> None (running) | ('ret', value) | ('exc', exception)
        self.tasks = []

    def factory(self, loop, coro, **kw):
        t = asyncio.Task(coro, loop=loop, **kw)
        qn = getattr(coro, '__qualname__', '')
        if 'starting_task' in qn:
            self.chain_tasks.append(t)
        elif qn.endswith('NDNApp.register'):
            self.route_tasks.append(t)
        return t

    async def guard(self, cid, co):
        try:
            self.first[cid] = ('ret', await co)
        except Exception as e:   # noqa  (an observation)
            self.first[cid] = ('exc', e)

    def spawn(self, co):
        cid = len(self.tasks)
        self.first[cid] = None
        self.tasks.append(self.loop.create_task(self.guard(cid, co)))

    def reg(self, arg, hid, vid, raw, sig):
        self.spawn(self.app.register(arg, self.handler(hid), self.validator(vid), bool(raw), bool(sig)))

    def unreg(self, arg):
        self.spawn(self.app.unregister(arg))

    def route(self, arg, hid, vid, raw, sig):
        """-> (outcome of route() itself, the register task it created | None)"""
        n = len(self.route_tasks)
        try:
            self.app.route(arg, self.validator(vid), bool(raw), bool(sig))(self.handler(hid))
            o = [1]
        except Exception as e:   # noqa
            o = [0, err_code(e)]
        return o, (self.route_tasks[n] if len(self.route_tasks) > n else None)

    def connect(self):
        self.ml.append(self.loop.create_task(self.app.main_loop()))

    @staticmethod
    def outcome(t):
        """first-step outcome of a task of the library: [1] unless it has ended with an exception"""
        if t is not None and t.done() and not t.cancelled() and t.exception() is not None:
            return [0, err_code(t.exception())]
        return [1]

    def answer(self, ans):
        """the forwarder answers the outstanding command (or lets it time out)"""
        from ndn.encoding import make_data, MetaInfo, parse_interest
        from ndn.security import DigestSha256Signer
        from ndn.app_support import nfd_mgmt
        from harness.props import _pipeline as PL
        wire, sent_at = self.face.cmds.pop(0)
        if ans == 'timeout':
            self.loop.advance_to(max(self.loop.time(), sent_at + 1.0 + 1e-6))
            return

        async def feed(typ, pkt):
            await self.face.callback(typ, pkt)
        if isinstance(ans, (tuple, list)):
            form = ans[1]
            form = tuple(form) if isinstance(form, (tuple, list)) else form
            self.loop.run_until_complete(feed(0x64, PL.nack_wire(wire, form)))
            return
        name = parse_interest(wire)[0]
        if ans == 'garbage':
            content = b'\x65\x03\x01\x02\x03'
        elif ans == 'empty':
            content = None
        else:
            cr = nfd_mgmt.ControlResponse()
            cr.status_code = 200 if ans == 'badsig' else ans
            cr.status_text = 'answer'
            content = G.tlv(0x65, bytes(cr.encode()))
        d = bytearray(make_data(name, MetaInfo(), content, signer=DigestSha256Signer()))
        if ans == 'badsig':
            d[-1] ^= 0x55
        self.loop.run_until_complete(feed(6, bytes(d)))


def run_world(ctx, h, stratum, state):
    """One world history on the real legacy NDNApp; model (Model/DispatchV1.v) and specification (Spec/DispatchV1Spec.v)
    are run on its linearisation."""
    rng = ctx.rng
    loop = state['loop']
    w = World(loop)
    lin = Lin()
    got = {}                 # src -> observation of the implementation
    route_task = {}
    case = {'fe': FE_NAME[FE_V1], 'world': 1, 'history': h}
    problems = []
    sched = []

    async def turn(chunk):
        for i, e in chunk:
            if e[0] == 'att':
                _, arg = represent(rng, e[1], e[6], w.bufs)
                got[('ev', i)] = w.attach(arg, e[2], e[3], e[4], e[5], 0)
            elif e[0] == 'det':
                _, arg = represent(rng, e[1], e[2], w.bufs)
                got[('ev', i)] = w.detach(arg)
            elif e[0] == 'recv':
                got[('ev', i)] = await w.recv(e[1], e[2], e[4], None)
            elif e[0] == 'route':
                _, arg = represent(rng, e[1], e[6], w.bufs)
                o, route_task[i] = w.route(arg, e[2], e[3], e[4], e[5])
                if o != [1]:
                    problems.append(f'event {i}: route() raised (error class {o[1]})')
            elif e[0] == 'reg':
                _, arg = represent(rng, e[1], e[6], w.bufs)
                w.reg(arg, e[2], e[3], e[4], e[5])
            elif e[0] == 'unreg':
                _, arg = represent(rng, e[1], e[2], w.bufs)
                w.unreg(arg)
            elif e[0] == 'connect':
                w.connect()
            elif e[0] == 'disconnect':
                w.face.shutdown()

    def after_turn(i, n0):
        """observations of the table steps the loop turn of event i performed (lin.ops[n0:]) and its invocations"""
        for _, _, src in lin.ops[n0:]:
            if src[0] == 'call':
                r = w.first.get(src[1])
                got[src] = [0, err_code(r[1])] if r is not None and r[0] == 'exc' else [1]
            elif src[0] == 'route':
                got[src] = World.outcome(route_task.get(src[1]))
            elif src[0] == 'chain':
                got[src] = World.outcome(w.chain_tasks[src[1] - 1] if len(w.chain_tasks) >= src[1] else None)
            elif src[0] == 'clean':
                ml = w.ml[-1] if w.ml else None
                ct = w.chain_tasks[-1] if w.chain_tasks else None
                o = World.outcome(ml)
                if o != [1] and ct is not None and World.outcome(ct) != [1] and ct.exception() is ml.exception():
                    o = [1]         # main_loop passes on what ended its starting task: observed there already
                if ml is None or not ml.done():
                    o = [0, 1000]   # main_loop still running after the connection went away
                got[src] = o
        got[('turn', i)] = [3, w.take()]

    old_factory = loop.get_task_factory()
    loop.set_task_factory(w.factory)
    chunk = []
    try:
        for i, e in enumerate(h):
            if e[0] in ('settle', 'fwd'):
                n0 = len(lin.ops)
                for j, ee in chunk:
                    lin.feed(j, ee)
                lin.feed(i, e)
                if chunk:
                    loop.run_until_complete(turn(chunk))
                if e[0] == 'fwd' and not w.face.cmds:
                    # the schedule expects a command on the face and the implementation has sent none: nothing to answer;
                    # the loop turn still happens and the oracle below judges what the table did
                    sched.append(f'event {i}: the forwarder has no command to answer')
                elif e[0] == 'fwd':
                    w.answer(e[1])
                    ctx.stat('fwd:' + (e[1] if isinstance(e[1], str) else ('nack' if isinstance(e[1], (tuple, list)) else str(e[1]))))
                loop.settle()
                after_turn(i, n0)
                chunk = []
            else:
                chunk.append((i, e))
        if chunk:
            raise RuntimeError('a world history must end with a loop turn')
    except RuntimeError as e:
        ctx.disagree('C04.world', f'schedule: {e}', case, None, None)
        _world_teardown(w, loop, old_factory)
        loop.errors.clear()
        return
    _world_teardown(w, loop, old_factory)
    errs = list(loop.errors)
    loop.errors.clear()
    obs = [got.get(src) for _, _, src in lin.ops]

    def upto(j):        # the world history up to the loop turn that produced linearised event j
        return h[:next((x[2][1] for x in lin.ops[j:] if x[2][0] == 'turn'), len(h) - 1) + 1]
    for what in problems:
        ctx.violation(FE_NAME[FE_V1], 'route-raises', what, case)
    if errs:
        ctx.violation(FE_NAME[FE_V1], 'loop-exception-registration-api',
                      f'exception reached the loop handler: {str(errs[0])[:200]}', case)
    for cid, r in w.first.items():
        if r is not None and r[0] == 'exc':
            ctx.stat(f'world:call-raised-{type(r[1]).__name__}')
    for (mop, _, src), o in zip(lin.ops, obs):
        if src[0] in ('call', 'route', 'chain', 'clean'):
            what = {7: 'register', 8: 'unregister', 6: 'clean-up'}[mop[0]]
            if mop[0] == 7 and not mop[2]:
                what += '-without-handler'
            ctx.stat(f'world:{src[0]}:{what}:{"ok" if o == [1] else "refused" if o == [0, 3] else "raised"}')
    if lin.conn > 1:
        ctx.stat('world:reconnected')

    if sched:
        ctx.disagree(f'{FE_NAME[FE_V1]}:registration-api:commands', 'commands on the face are not those of the schedule: ' + sched[0],
                     case, None, None)

    # -- correspondence ---------------------------------------------------------------------------------------
    def calls(l):
        return [[c[0], [bytes(x) for x in c[1]], c[2]] for c in l]
    m = ctx.call([7, FE_V1, [x[0] for x in lin.ops]])
    if is_err(m):
        ctx.disagree('C04.world', 'model rejected the request', case, m, None)
        return
    mobs, mstate = m
    for j, (mo, io) in enumerate(zip(mobs, obs)):
        if mo[0] == 2:
            ctx.stat(f'world-lookup:{("noroute", "nocallback", "hit")[mo[1][0]]}')
            ok = io == [2]
        elif mo[0] == 3:
            ok = io is not None and io[0] == 3 and calls(mo[1]) == io[1]
        else:
            ok = mo == io
        if not ok:
            src = lin.ops[j][2]
            ctx.disagree(f'{FE_NAME[FE_V1]}:registration-api:{src[0]}',
                         f'linearised event {j} (model op {lin.ops[j][0][0]}, from {src}) observed differently',
                         {**case, 'history': upto(j)}, mo, io)
            break
    mlen, mitems, mpruned, mpending, mncalls = mstate
    mit = sorted([[[bytes(c) for c in k], v] for k, v in mitems], key=lambda x: x[0])
    if mit != w.loop_state_items:
        ctx.disagree(f'{FE_NAME[FE_V1]}:registration-api:items', 'table contents (key, callback, validator, extra)', case, mit,
                     w.loop_state_items)
    if mncalls != len(w.calls):
        ctx.disagree(f'{FE_NAME[FE_V1]}:registration-api:calls', 'number of handler invocations', case, mncalls, len(w.calls))
    # -- specification oracle ---------------------------------------------------------------------------------
    sobs = ctx.call([8, FE_V1, [x[1] for x in lin.ops]])
    if is_err(sobs) or len(sobs) != len(obs):
        ctx.disagree('C04.world', 'specification machine rejected the request', case, sobs, None)
        return
    for j, (s, io) in enumerate(zip(sobs, obs)):
        sop, src = lin.ops[j][1], lin.ops[j][2]
        kind = sop[0]
        if io is None:
            a = ['missing']
        elif kind in (1, 7):
            a = [1] if io == [1] else ([2] if io == [0, 3] else ['exc', io])
        elif kind == 2:
            a = [1] if io == [1] else ([3] if io == [0, 7] else ['exc', io])
        elif kind == 3:
            a = [4] if io == [2] else ['exc', io]
        elif kind == 4:
            a = [5, io[1]]
        else:
            a = [1] if io == [1] else ['exc', io]
        if s[0] == 5:
            s = [5, calls(s[1])]
        if a != s:
            cls = {1: 'attach-outcome', 2: 'detach-outcome', 3: 'delivery', 4: 'delivery', 6: 'disconnect',
                   7: 'register-outcome', 8: 'unregister-outcome'}[kind]
            what = {1: 'set_interest_filter', 2: 'unset_interest_filter', 3: 'Interest', 4: 'loop turn', 6: 'clean-up after disconnect',
                    7: 'table step of register', 8: 'table step of unregister'}[kind]
            ctx.violation(FE_NAME[FE_V1], cls + '-registration-api',
                          f'{what} ({" ".join(str(x) for x in src)}): specification demands {s}, implementation did {a} '
                          '[(5 calls) = handler invocations (handler, Interest name, 0) made by the loop turn]',
                          {'fe': FE_NAME[FE_V1], 'world': 1, 'history': upto(j)})
            break
    ctx.stat('oracle_histories')
    ctx.stat('registration_api_histories')
    nontriv = any(e[0] in ('att', 'reg', 'route') for e in h) and any(e[0] == 'recv' for e in h)
    ctx.case(('world', h), nontriv, {'fe': FE_NAME[FE_V1], 'world': 1, 'history': h[:12]}, stratum)


def _world_teardown(w, loop, old_factory):
    """not part of the history: read the final table, close the connection, let main_loop end, cancel what is left"""
    n = len(w.calls)
    try:
        w_items = w.items()
    except Exception as e:   # noqa
        w_items = repr(e)
    w.loop_state_items = w_items
    try:
        w.face.shutdown()
        loop.settle()
        every = w.tasks + w.ml + w.chain_tasks + w.route_tasks
        for t in every:
            if not t.done():
                t.cancel()
        loop.settle()
        for t in every:
            if t.done() and not t.cancelled():
                t.exception()
    except Exception:   # noqa
        pass
    finally:
        loop.set_task_factory(old_factory)
    del w.calls[n:]

# ---- generators -------------------------------------------------------------------------------------
def name_pool():
    cs = [comp('a'), comp('b'), comp('ab'), comp('c'), comp('32=a'), comp('%00%FF'), comp('seg=5'),
          comp('x' * 300)]
    return cs


def rand_name(rng, cs, maxlen=5):
    n = rng.choice([0, 1, 1, 2, 2, 2, 3, 3, 4, 5][:maxlen + 5])
    w = [6, 4, 2, 2, 1, 1, 1, 1]
    return [rng.choices(cs, w)[0] for _ in range(n)]


def gen_history(rng, fe, cs, wf=True):
    """A random history; wf=False additionally draws None handlers, a stopped face and replies off v2."""
    h = []
    t = 1_000_000 + rng.randrange(1000)
    used = []
    ncalls = 0      # lower bound of calls known delivered (for picking reply indices)
    pend = 0
    next_h = 1
    deadlines = []  # (deadline) per recv in order (only a hint: some are not delivered)
    down = False
    for _ in range(rng.randint(4, 40)):
        r = rng.random()
        if r < 0.30 or not used:
            nm = rand_name(rng, cs) if (not used or rng.random() < 0.6) else \
                rng.choice(used)[:rng.randint(0, 5)] + rand_name(rng, cs, 2)[:rng.randint(0, 2)]
            nm = nm[:6]
            hid = next_h
            next_h += 1
            if not wf and rng.random() < 0.15:
                hid = None
            vid = rng.choice([None, None, 100 + next_h])
            h.append(('att', nm, hid, vid, rng.randrange(2), rng.randrange(2), rng.randrange(N_KINDS),
                      rng.randrange(2)))
            used.append(nm)
        elif r < 0.45:
            nm = rng.choice(used) if rng.random() < 0.8 else rand_name(rng, cs)
            if rng.random() < 0.1:
                nm = nm[:max(0, len(nm) - 1)]
            h.append(('det', nm, rng.randrange(N_KINDS)))
        elif r < 0.80:
            base = rng.choice(used)
            k = rng.random()
            if k < 0.5:
                nm = base + rand_name(rng, cs, 2)[:rng.randint(0, 2)]
            elif k < 0.7:
                nm = base[:rng.randint(0, len(base))]
            elif k < 0.85:
                nm = base[:-1] + [rng.choice(cs)] if base else [rng.choice(cs)]
            else:
                nm = rand_name(rng, cs)
            life = rng.choice([None, 0, 1, 50, 100, 4000, 1 << 32])
            tok = rng.choice([None, None, b'', b'\x01\x02', b'\xde\xad\xbe\xef\x00\x00\x00\x01'])
            if fe == FE_V2 and rng.random() < 0.3:
                tok = rng.choice(ENVELOPES)
            h.append(('recv', nm, life, t, rng.randrange(2), tok))
            pend += 1
            deadlines.append(t + (4000 if life is None else life))
        elif r < 0.90:
            h.append(('settle',))
            ncalls += pend
            pend = 0
        elif r < 0.97:
            if fe == FE_V2 or not wf:
                i = rng.randrange(max(1, ncalls + (0 if wf else 1)))
                d = rng.choice(deadlines) if deadlines else t
                now = max(t, d + rng.choice([-1, 0, 1, -50, 50]))
                t = now
                running = rng.random() < (0.85 if wf else 0.7)
                if fe == FE_V2 and rng.random() < 0.5:      # a Data of any legal size, mostly near a boundary
                    h.append(('reply', i, now, running, rand_reply_size(rng)))
                else:
                    h.append(('reply', i, now, running))
        else:
            h.append(('clean',))
        if fe != FE_DISP and rng.random() < 0.07:   # the connection goes away / comes back
            h.append(('up',) if down else ('down', rng.randrange(3)))
            down = not down
        if rng.random() < 0.12:     # the caller reuses the buffers it passed to attach/detach so far
            h.append(('scrib', rng.randrange(N_MODES)))
        if rng.random() < 0.3:
            t += rng.choice([0, 1, 1, 10, 99, 100, 101, 3999, 4000, 4001])
    h.append(('settle',))
    return h


def reply_sizes(thorough):
    """Wire sizes of the Data handed to reply(): the smallest signed Data, around the one-octet / three-octet TLV length
    switch of the Data itself (252, 253, 254, 257; no TLV is 255 or 256 octets long) and of the LpPacket around it
    (Data of 230..251 octets), the middle of the range, and every size of the last 51 (thorough: 120) octets up to the
    limit, where a wrapper of 8 + 2 + len(token) octets takes the packet on the face over 8800."""
    lo = min_data_size()
    mid = [lo, lo + 2, 100, 200] + list(range(228, 255)) + [257, 258, 259, 260, 300, 1000, 4000, 8000, 8500, 8700]
    top = list(range(MAX_PKT - (119 if thorough else 50), MAX_PKT + 1))
    return [n for n in mid + top if data_of_size(n) is not None]


def rand_reply_size(rng):
    k = rng.random()
    if k < 0.5:
        n = MAX_PKT - rng.randrange(60)
    elif k < 0.75:
        n = rng.randrange(225, 262)
    else:
        n = rng.randrange(min_data_size(), MAX_PKT + 1)
    while data_of_size(n) is None:
        n -= 1
    return n


def reply_size_family(ctx, state):
    """Reply sizes over the whole legal range x the envelope the Interest arrived in x state of the face (appv2: the
    only front-end whose handlers get a reply callback).  Every history: a handler at /a, Interests /a/b arriving in the
    given envelopes, a loop turn, then replies with a Data of the given size.  Demanded by the specification machine
    (the size of the Data and the envelope are not its business: any legal Data): goes out iff t <= deadline and the
    face is up, reported True exactly then; by the byte check: what went out is that Data, bare (no PIT token came with
    the Interest) or in an LpPacket echoing the token."""
    rng = ctx.rng
    a, b = comp('a'), comp('b')
    t0 = 3_000_000
    gi = 0
    for size in reply_sizes(ctx.thorough):
        for ei, env in enumerate(ENVELOPES):
            gi += 1
            life = (None, 0, 100, 4000)[gi % 4]
            d = t0 + (4000 if life is None else life)
            att = ('att', [a], 1, None, 0, 0, rng.randrange(N_KINDS), gi % 2)
            rc = ('recv', [a, b], life, t0, gi % 2, env)
            how = gi % 3
            # the face stays up: inside the lifetime (twice: a handler may answer again), at the deadline, after it
            h = [att, rc, ('settle',), ('reply', 0, t0, True, size), ('reply', 0, d, True, size),
                 ('reply', 0, d + 1, True, size), ('settle',)]
            run_history(ctx, FE_V2, h, 'reply-size-up', state)
            # the face goes down and comes back; down for one call only
            h = [att, rc, ('settle',), ('down', how), ('reply', 0, d, True, size), ('up',), ('reply', 0, d, True, size),
                 ('reply', 0, d, False, size), ('reply', 0, d, True, size), ('reply', 0, d + 1, True, size), ('settle',)]
            if ctx.thorough or gi % 3 == 0:        # quick: a third of the (size, envelope) pairs, rotating
                run_history(ctx, FE_V2, h, 'reply-size-face', state)
    # several Interests in different envelopes outstanding at once, answered in any order with Data of different sizes
    sizes = reply_sizes(ctx.thorough)
    for k in range(ctx.n(80, 3000)):
        envs = [rng.choice(ENVELOPES) for _ in range(rng.randint(2, 6))]
        lives = [rng.choice((None, 0, 1, 100, 4000)) for _ in envs]
        h = [('att', [a], 1, None, 0, 0, rng.randrange(N_KINDS), 0), ('att', [a, b], 2, None, 0, 0, rng.randrange(N_KINDS), 1)]
        h += [('recv', [a, b][:1 + i % 2] + [comp('c')], lives[i], t0 + i, rng.randrange(2), env) for i, env in enumerate(envs)]
        h.append(('settle',))
        ds = [t0 + i + (4000 if lf is None else lf) for i, lf in enumerate(lives)]
        ts = sorted(max(t0 + len(envs), rng.choice(ds) + rng.choice((-1, 0, 0, 0, 1))) for _ in range(rng.randint(3, 9)))
        down = False
        for t in ts:
            if rng.random() < 0.15:
                h.append(('up',) if down else ('down', rng.randrange(3)))
                down = not down
            sz = rng.choice(sizes) if rng.random() < 0.5 else rand_reply_size(rng)
            h.append(('reply', rng.randrange(len(envs)), t, rng.random() < 0.9, sz))
        h.append(('settle',))
        run_history(ctx, FE_V2, h, 'reply-size-mixed', state)


TREE_COMPS = ['a', 'b', 'c', 'e', 'z']


def tree_names():
    a, b, c, e, z = [comp(x) for x in TREE_COMPS]
    nodes = [[], [a], [a, b], [a, b, c], [a, c], [e], [e, a], [a, b, c, e], [e, a, b]]
    cs = [a, b, c, e, z]
    names = [list(p) for d in range(5) for p in itertools.product(cs, repeat=d)]
    return nodes, names


# ---- generators of world histories (registration API of the legacy front-end) -------------------------------
ROLES = ['free', 'filter', 'reg', 'decl', 'route', 'announce']


def answers_cycle(rng):
    pool = list(dict.fromkeys(FWD_ANSWERS))
    rng.shuffle(pool)
    while True:
        for a in pool:
            yield a


def world_roles_history(rng, nodes, probes, roles, ans):
    """Every node of the name tree plays a role: free | handler by set_interest_filter | handler by register | handler by
    route() declared before connecting | handler by route() on the live connection | announced to the forwarder without a
    handler (register(name, None)).  Probes (Interests for every probe name) after each phase; every command answered in
    one of the ways a forwarder can answer; then unregister of half the nodes of EVERY role, duplicates (register with
    and without a handler on occupied prefixes), disconnect and reconnect (only the declared routes come back)."""
    h = []
    hid = [0]

    def nh():
        hid[0] += 1
        return hid[0]

    def kind():
        return rng.randrange(N_KINDS)

    def probe(t):
        h.extend(('recv', n, None, t, len(n) % 2, None) for n in probes)
        h.append(('settle',))
    by = {r: [p for p, x in zip(nodes, roles) if x == r] for r in ROLES}
    owner = {}
    decl = by['decl'][:]
    rng.shuffle(decl)
    filt = by['filter'][:]
    rng.shuffle(filt)
    for p in decl:
        owner[tuple(p)] = nh()
        h.append(('route', p, owner[tuple(p)], rng.choice([None, 100 + hid[0]]), rng.randrange(2), rng.randrange(2), kind()))
    for p in filt[:len(filt) // 2]:
        owner[tuple(p)] = nh()
        h.append(('att', p, owner[tuple(p)], None, rng.randrange(2), rng.randrange(2), kind(), 0))
    h += [('connect',), ('settle',)]
    # the starting task: one declared route per answer; Interests while it is under way
    for i, p in enumerate(decl):
        if i == len(decl) // 2:
            probe(1)
        h.append(('fwd', next(ans)))
    for p in filt[len(filt) // 2:]:
        owner[tuple(p)] = nh()
        h.append(('att', p, owner[tuple(p)], None, rng.randrange(2), rng.randrange(2), kind(), 0))
    live = [('reg', p) for p in by['reg']] + [('route', p) for p in by['route']] + [('announce', p) for p in by['announce']]
    rng.shuffle(live)
    n_cmd = 0
    for r, p in live:
        if r == 'announce':
            h.append(('reg', p, None, rng.choice([None, 7]), rng.randrange(2), rng.randrange(2), kind()))
        else:
            owner[tuple(p)] = nh()
            h.append((r, p, owner[tuple(p)], rng.choice([None, 100 + hid[0]]), rng.randrange(2), rng.randrange(2), kind()))
        n_cmd += 1
        if rng.random() < 0.3:
            h.append(('settle',))
    h.append(('settle',))
    probe(2)                                   # commands not answered yet
    for i in range(n_cmd):
        h.append(('fwd', next(ans)))
        if i == n_cmd // 2:
            probe(3)
    probe(4)
    # unregister half of the nodes of every role (free and announced-only ones too: never an error)
    gone = [p for r in ROLES for p in by[r][:(len(by[r]) + 1) // 2]]
    rng.shuffle(gone)
    for p in gone:
        h.append(('unreg', p, kind()))
    h.append(('settle',))
    probe(5)
    for _ in gone:
        h.append(('fwd', next(ans)))
    # on occupied prefixes: register with a handler is refused, without one it changes nothing; free ones are announced
    n_cmd = 0
    for p in nodes:
        if rng.random() < 0.5:
            h.append(('reg', p, None, None, 0, 0, kind()))
            n_cmd += 1
    for p in nodes:
        if rng.random() < 0.35:
            h.append(('reg', p, nh(), None, 0, 0, kind()))
            n_cmd += 1          # upper bound: refused ones send nothing
    h.append(('settle',))
    probe(6)
    h.append(('DRAIN',))
    h += [('disconnect',), ('settle',), ('connect',), ('settle',)]
    probe(7)
    h.append(('DRAIN',))
    probe(8)
    return h


def drain(h):
    """replace the ('DRAIN',) markers by as many forwarder answers (200 / timeouts alternating) as commands are outstanding"""
    lin, out, k = Lin(), [], 0
    for e in h:
        if e[0] == 'DRAIN':
            while lin.cmds:
                k += 1
                ev = ('fwd', 200 if k % 3 else 'timeout')
                lin.feed(len(out), ev)
                out.append(ev)
        else:
            lin.feed(len(out), e)
            out.append(e)
    return out


def world_answer_grid(a, b, x):
    """(stratum, history): a handler at /a; then /a/b gets a handler by register / no handler (announced only) / a handler by
    a declared route / by a route on the live connection; is unregistered while attached / while free -- the forwarder
    answering each command in the given way; Interests /a/b/x, /a/b, /a/x, /a, /x before and after every answer."""
    out = []
    P = [[a, b, x], [a, b], [a, x], [a], [x]]

    def probe(t):
        return [('recv', n, None, t, 0, None) for n in P] + [('settle',)]
    for ans in dict.fromkeys(FWD_ANSWERS):
        for op in ('reg-h', 'reg-none', 'chain', 'route-live', 'unreg-free'):
            h = [('att', [a], 1, None, 0, 0, 0, 0)]
            if op == 'chain':
                h.append(('route', [a, b], 2, None, 0, 0, 1))
            h += [('connect',), ('settle',)]
            if op == 'reg-h':
                h.append(('reg', [a, b], 2, None, 0, 0, 4))
            elif op == 'reg-none':
                h.append(('reg', [a, b], None, None, 0, 0, 0))
            elif op == 'route-live':
                h.append(('route', [a, b], 2, None, 1, 0, 2))
            elif op == 'unreg-free':
                h.append(('unreg', [a, b], 0))
            h += [('settle',)] + probe(1) + [('fwd', ans)] + probe(2)
            h += [('unreg', [a, b], 1), ('settle',)] + probe(3) + [('fwd', ans)] + probe(4)
            # again, now without a handler, then with one
            h += [('reg', [a, b], None, None, 0, 0, 0), ('settle',)] + probe(5) + [('fwd', ans)] + probe(6)
            h += [('reg', [a, b], 3, None, 0, 0, 0), ('settle',)] + probe(7) + [('fwd', ans)] + probe(8)
            out.append((f'registration-answers-{op}', h))
    return out


def gen_world(rng, cs):
    """A random world history, steered by the schedule `Lin` (which calls are legal now, which prefixes are occupied)."""
    lin, h = Lin(), []
    state = 'down'           # down | connecting | up | closing
    hid = [0]
    used = []

    def emit(e):
        lin.feed(len(h), e)
        h.append(e)

    def nh():
        hid[0] += 1
        return hid[0]

    def pick_name(prefer_free=False):
        r = rng.random()
        occ = [list(k) for k in lin.occ]
        if occ and r < 0.45:                    # below / at / above an occupied prefix
            base = rng.choice(occ)
            k = rng.random()
            if k < 0.5:
                nm = base + rand_name(rng, cs, 2)[:rng.randint(1, 2)]
            elif k < 0.75:
                nm = base
            else:
                nm = base[:rng.randint(0, len(base))]
        elif used and r < 0.7:
            nm = rng.choice(used)
        else:
            nm = rand_name(rng, cs, 3)
        nm = nm[:5]
        if prefer_free and tuple(nm) in lin.occ and rng.random() < 0.85:
            nm = nm + [rng.choice(cs)]
        return nm
    n_steps = rng.randint(8, 45)
    for _ in range(n_steps):
        r = rng.random()
        pending = any(q[0] in ('connect', 'disconnect') for q in lin.queue)
        if state == 'down' and not pending and r < 0.25:
            emit(('connect',))
            state = 'connecting'
        elif r < 0.12:
            declared = {tuple(d[0]) for d in lin.declared}
            if lin.connected and (lin.chain is not None or pending):
                continue                        # route() while the starting task is under way: not driven (see docs)
            nm = pick_name(prefer_free=True)
            if not lin.connected and (tuple(nm) in declared or tuple(nm) in lin.occ) and rng.random() < 0.9:
                continue
            emit(('route', nm, nh(), rng.choice([None, None, 100 + hid[0]]), rng.randrange(2), rng.randrange(2), rng.randrange(N_KINDS)))
            used.append(nm)
        elif r < 0.22:
            nm = pick_name(prefer_free=True)
            if not lin.connected and tuple(nm) in {tuple(d[0]) for d in lin.declared} and rng.random() < 0.9:
                continue
            emit(('att', nm, nh(), rng.choice([None, None, 100 + hid[0]]), rng.randrange(2), rng.randrange(2), rng.randrange(N_KINDS), 0))
            used.append(nm)
        elif r < 0.27:
            nm = rng.choice(used) if used and rng.random() < 0.8 else pick_name()
            emit(('det', nm, rng.randrange(N_KINDS)))
        elif r < 0.50:
            if not lin.connected or pending:
                continue
            k = rng.random()
            if k < 0.35:
                nm = pick_name(prefer_free=True)
                emit(('reg', nm, nh(), rng.choice([None, None, 100 + hid[0]]), rng.randrange(2), rng.randrange(2), rng.randrange(N_KINDS)))
                used.append(nm)
            elif k < 0.7:                       # announced only
                nm = pick_name()
                emit(('reg', nm, None, rng.choice([None, None, 7]), rng.randrange(2), rng.randrange(2), rng.randrange(N_KINDS)))
                used.append(nm)
            else:
                nm = rng.choice(used) if used and rng.random() < 0.8 else pick_name()
                emit(('unreg', nm, rng.randrange(N_KINDS)))
        elif r < 0.78:
            if not lin.connected or pending:
                continue
            for _ in range(rng.choice([1, 1, 2, 4])):
                base = rng.choice(used) if used else []
                k = rng.random()
                if k < 0.5:
                    nm = base + rand_name(rng, cs, 2)[:rng.randint(0, 2)]
                elif k < 0.7:
                    nm = base[:rng.randint(0, len(base))]
                elif k < 0.85:
                    nm = base[:-1] + [rng.choice(cs)] if base else [rng.choice(cs)]
                else:
                    nm = rand_name(rng, cs)
                emit(('recv', nm, rng.choice([None, 0, 4000]), 0, rng.randrange(2), None))
        elif r < 0.88:
            emit(('settle',))
            state = {'connecting': 'up', 'closing': 'down'}.get(state, state)
        elif r < 0.97:
            if lin.cmds:
                emit(('fwd', rng.choice(FWD_ANSWERS)))
                state = {'connecting': 'up', 'closing': 'down'}.get(state, state)
        else:
            if state == 'up' and not lin.busy() and lin.connected:
                emit(('disconnect',))
                emit(('settle',))
                state = 'down'
    emit(('settle',))
    while lin.cmds:
        emit(('fwd', rng.choice([200, 200, 'timeout', 400])))
    if lin.connected:
        for nm in used[-6:]:
            emit(('recv', nm + [cs[0]], None, 0, 0, None))
        emit(('settle',))
    return h


# ---- refused attach x options ------------------------------------------------------------------------------------
# "Attaching a second handler to an occupied prefix is refused" -- and the refusal is a no-op: the occupying handler keeps
# receiving exactly the Interests it received before, called exactly the way it asked to be called (v1: with / without
# raw_packet / sig_ptrs), judged by exactly the validator it was attached with.  The other families attach tolerant handlers
# (**kw) with always-accepting validators and feed plain Interests, so what a refused call leaves behind in the node was
# visible to the correspondence (table items) only.  Here handlers have STRICT signatures, validators have identities and
# verdicts, Interests come plain and signed, and both attaches run through every combination of options.
RF_VD = (None, 'accept', 'reject')
RF_THEN = ('none', 'again', 'detach', 'reattach')
RF_AROUND = ('alone', 'nested')
RF_APIS = {FE_V1: ('filter',), FE_V2: ('attach', 'route')}


def rf_options(fe):
    """(need_raw_packet, need_sig_ptrs, validator) an attach can ask for on this front-end"""
    if fe == FE_V1:
        return [(r, g, v) for r in (False, True) for g in (False, True) for v in RF_VD]
    return [(False, False, v) for v in RF_VD]


def refused_scenario(ctx, fe, loop, sp):
    """sp: {'first': [raw, sig, vd], 'second': [raw, sig, vd], 'around', 'then', 'api', 'repr'}"""
    from ndn.encoding import make_interest, InterestParam, Name
    from ndn.security import DigestSha256Signer
    site = FE_NAME[fe]
    face = Face()
    if fe == FE_V2:
        from ndn.appv2 import NDNApp
        from ndn.types import ValidResult
        app = NDNApp(face=face, registerer=Reg())
    else:
        from ndn.app import NDNApp
        app = NDNApp(face=face, keychain=object())
    R, P, Q = [comp('r')], [comp('r'), comp('p')], [comp('r'), comp('p'), comp('q')]
    first, second = tuple(sp['first']), tuple(sp['second'])
    case = {'fe': site, 'refused': dict(sp)}
    log, consults = [], []
    phase = ['before']
    refused = [False]

    def cls(c):
        return c + ('-after-refused-attach' if refused[0] else '')

    def mk_handler(hid, raw, sig):
        def rec(name, **kw):
            log.append((hid, [bytes(c) for c in name],
                        {k: (bytes(v) if k == 'raw_packet' else v.signature_info is not None) for k, v in kw.items()}))
        if fe == FE_V2:
            def h(name, app_param, reply, context):
                rec(name)
        elif raw and sig:
            def h(name, param, app_param, raw_packet, sig_ptrs):
                rec(name, raw_packet=raw_packet, sig_ptrs=sig_ptrs)
        elif raw:
            def h(name, param, app_param, raw_packet):
                rec(name, raw_packet=raw_packet)
        elif sig:
            def h(name, param, app_param, sig_ptrs):
                rec(name, sig_ptrs=sig_ptrs)
        else:
            def h(name, param, app_param):
                rec(name)
        return h

    def mk_validator(vid, verdict):
        if verdict is None:
            return None
        if fe == FE_V2:
            async def v(name, sig, context):
                consults.append(vid)
                return ValidResult.PASS if verdict == 'accept' else ValidResult.FAIL
        else:
            async def v(name, sig):
                consults.append(vid)
                return verdict == 'accept'
        return v
    if fe == FE_V1:
        app.int_validator = mk_validator('default', 'accept')      # whom v1 asks when a filter brought no validator
    table = {}          # prefix (tuple) -> (hid, raw, sig, vid or None, verdict or None): what the application asked for

    def attach(prefix, hid, opts, who, arg=None, api=None):
        raw, sig, vd = opts
        h, v = mk_handler(hid, raw, sig), mk_validator(who, vd)
        arg = list(prefix) if arg is None else arg
        try:
            if fe == FE_V2:
                if api == 'route':
                    app.route(arg, v)(h)
                else:
                    app.attach_handler(arg, h, v)
            else:
                app.set_interest_filter(arg, h, v, raw, sig)
            return None
        except Exception as e:   # noqa
            return e

    def occupy(prefix, hid, opts, who):
        e = attach(prefix, hid, opts, who)
        if e is not None:
            ctx.violation(site, cls('attach-outcome'), f'attach on the free prefix {b"".join(prefix).hex()} raised {e!r}', case)
        else:
            table[tuple(prefix)] = (hid, opts[0], opts[1], who if opts[2] else None, opts[2])

    def probe(label):
        """plain and signed Interests at / under every prefix of the table: who receives, called how, judged by whom"""
        phase[0] = label
        x = comp('x')
        for tgt in ([P + [x], P, R + [x], Q + [x]] if sp['around'] == 'nested' else [P + [x], P, R + [x]]):
            for signed in (False, True):
                wire = bytes(make_interest(list(tgt), InterestParam(nonce=0x0a0b0c0d, lifetime=4000), b'' if signed else None,
                                           signer=DigestSha256Signer(for_interest=True) if signed else None))
                del log[:], consults[:]
                loop.errors.clear()
                try:
                    loop.run_until_complete(app._receive(5, wire))
                    exc = None
                except Exception as e:   # noqa
                    exc = e
                loop.settle()
                what = f'[{label}] {"signed" if signed else "plain"} Interest {b"".join(tgt).hex()}'
                if exc is not None:
                    ctx.violation(site, cls('delivery'), f'{what}: reception raised {exc!r}', case)
                if loop.errors or len(log) != 1:        # (never-retrieved task exceptions only surface at a collection)
                    errs = loop.collect_errors()
                    loop.errors.clear()
                    if errs:
                        e = errs[0].get('exception')
                        ctx.violation(site, cls('loop-exception'), f'{what}: the delivery task ended with {e!r}'[:300], case)
                owner = None
                for k in range(len(tgt), -1, -1):
                    if tuple(tgt[:k]) in table:
                        owner = table[tuple(tgt[:k])]
                        break
                # -- who judges
                if owner is None or not signed:
                    want_consults = []
                elif owner[3] is not None:
                    want_consults = [owner[3]]
                else:
                    want_consults = ['default'] if fe == FE_V1 else []
                if consults != want_consults:
                    ctx.violation(site, cls('validator-consulted'),
                                  f'{what}: validators consulted {consults!r}, the handler that occupies the longest attached '
                                  f'prefix was attached with {want_consults!r}', case)
                # -- who receives, called how
                if owner is None:
                    deliver = False
                elif not signed:
                    deliver = True
                elif owner[4] is None:
                    deliver = fe == FE_V1
                else:
                    deliver = owner[4] == 'accept'
                got = [(hid, kw) for hid, _, kw in log]
                if not deliver:
                    if got:
                        ctx.violation(site, cls('delivery'), f'{what}: delivered to {[g[0] for g in got]!r}, expected nobody', case)
                    continue
                if [g[0] for g in got] != [owner[0]]:
                    ctx.violation(site, cls('delivery'), f'{what}: delivered to {[g[0] for g in got]!r}, expected exactly handler '
                                                         f'{owner[0]} (longest attached prefix), once', case)
                    continue
                if log[0][1][:len(tgt)] != list(tgt):
                    ctx.violation(site, cls('delivery'), f'{what}: the handler got the name {b"".join(log[0][1]).hex()}', case)
                want_kw = {}
                if owner[1]:
                    want_kw['raw_packet'] = wire
                if owner[2]:
                    want_kw['sig_ptrs'] = signed
                if fe == FE_V1 and got[0][1] != want_kw:
                    ctx.violation(site, cls('handler-arguments'),
                                  f'{what}: handler {owner[0]} was called with optional arguments {sorted(got[0][1])!r} '
                                  f'(expected {sorted(want_kw)!r} with the received packet / its signature pointers)', case)

    oa, ob = ((True, False, 'accept'), (False, True, None)) if sp['repr'] % 2 == 0 else ((False, False, 'reject'), (True, True, 'accept'))
    if fe == FE_V2:
        oa, ob = (False, False, oa[2]), (False, False, ob[2])
    if sp['around'] == 'nested':
        occupy(R, 0, oa, 'shorter')
    occupy(P, 1, first, 'first')
    if sp['around'] == 'nested':
        occupy(Q, 2, ob, 'longer')
    probe('before')
    # -- the refused attach: the same prefix, in another representation, other options
    reprs = [list(P), Name.to_str(P), bytes(Name.to_bytes(P)), bytearray(Name.to_bytes(P)), [Name.to_str([c])[1:] for c in P]]

    def refuse(opts, who, k):
        e = attach(P, 9, opts, who, arg=reprs[k % len(reprs)], api=sp['api'])
        refused[0] = True
        if not isinstance(e, ValueError):
            ctx.violation(site, 'attach-outcome', f'a second attach on the occupied prefix /r/p with options {opts!r} '
                                                  f'{"succeeded" if e is None else "raised " + repr(e)} (ValueError expected)', case)
            if e is None:
                table[tuple(P)] = (9, opts[0], opts[1], who if opts[2] else None, opts[2])
    refuse(second, 'second', sp['repr'])
    probe('after the refused attach')
    then = sp['then']
    if then == 'again':
        opts = rf_options(fe)
        refuse(opts[(opts.index(second) + 5) % len(opts)], 'third', sp['repr'] + 1)
        probe('after another refused attach')
    elif then in ('detach', 'reattach'):
        try:
            (app.detach_handler if fe == FE_V2 else app.unset_interest_filter)(list(P))
            del table[tuple(P)]
        except Exception as e:   # noqa
            ctx.violation(site, cls('detach-outcome'), f'detach of the occupied prefix /r/p raised {e!r}', case)
        if then == 'reattach':
            occupy(P, 9, second, 'second')
        probe('after detach' + (' and a fresh attach with the refused options' if then == 'reattach' else ''))
    errs = loop.collect_errors()
    loop.errors.clear()
    if errs:
        e = errs[0].get('exception')
        ctx.violation(site, cls('loop-exception'), f'a delivery task ended with {e!r}'[:300], case)
    ctx.case(('rf', fe, repr(sorted(sp.items()))), True, case, f'refused-attach.{site}.{then}')


def refused_family(ctx, loop):
    """every pair of option sets (first attach, refused attach) on v1 and v2; the table around the prefix, the representation
    of the refused name, the API and what happens next rotate in the quick tier and are enumerated in the thorough one"""
    import gc
    i = 0
    gc.collect()
    gc.freeze()         # keeps the long-lived heap out of the per-scenario collections
    for fe in (FE_V1, FE_V2):
        opts = rf_options(fe)
        for first in opts:
            for second in opts:
                for api in RF_APIS[fe]:
                    combos = [(a, t) for a in RF_AROUND for t in RF_THEN]
                    if not ctx.thorough:
                        combos = [combos[(i + j * 3) % len(combos)] for j in range(2 if fe == FE_V1 else 4)]
                    for around, then in combos:
                        i += 1
                        refused_scenario(ctx, fe, loop, {'first': list(first), 'second': list(second), 'around': around,
                                                         'then': then, 'api': api, 'repr': i % 5})
    gc.unfreeze()


def run(ctx):
    import ndn.utils
    rng = ctx.rng
    logging.getLogger('ndn').setLevel(logging.CRITICAL)
    loop = vtloop.new_loop()
    old_ts = ndn.utils.timestamp
    ndn.utils.timestamp = loop.now_ms
    from ndn.encoding import make_data, MetaInfo
    state = {'loop': loop, 'data': bytes(make_data('/a/b/x', MetaInfo(), b'payload')), 'check_norm': True}
    try:
        # the default lifetime the model uses is the one of the source (also a Coq obligation, T1)
        from ndn import appv2
        if ctx.call([6]) != appv2.DEFAULT_LIFETIME:
            ctx.disagree('DEFAULT_LIFETIME', 'constant', None, ctx.call([6]), appv2.DEFAULT_LIFETIME)
        cs = name_pool()

        # ---- 1. reply grid (v2): lifetime x (deadline-1, deadline, deadline+1) x token ---------------
        a = comp('a')
        for life in (None, 0, 1, 100, 4000, 1 << 32):
            for delta in (-1, 0, 1, -1000, 1000):
                for tok in (None, b'', b'\x01\x02'):
                    for buf in (0, 1):
                        t0 = 1_000_000
                        d = t0 + (4000 if life is None else life)
                        if d + delta < t0:
                            continue
                        h = [('att', [a], 1, None, 0, 0, rng.randrange(N_KINDS), 0),
                             ('recv', [a, comp('b')], life, t0, buf, tok), ('settle',),
                             ('reply', 0, d + delta, True), ('reply', 0, d + delta, True), ('settle',)]
                        run_history(ctx, FE_V2, h, 'reply-grid', state)
                        # the reply decision alone: model closure and specification
                        mr = ctx.call([5, d, d + delta, 1])
                        sr = ctx.call([4, d, d + delta])
                        if mr != [1, [sr, 2 if sr else 1]]:
                            ctx.disagree('reply_closure', 'model closure vs specification', [d, d + delta], mr, sr)
        # ---- 1b. reply grid x state of the face: the connection goes away (three ways) at every point between
        # the arrival of the Interest and the reply -- before the Interest, in the loop turn of its arrival, after
        # the delivery, after a first reply --, stays down / is cleaned up / comes back; the handler kept `reply`
        # and calls it before, at and after the deadline.  Demanded: the Data goes out iff inside the lifetime and
        # the face is up, and "sent" (True) is reported exactly then (False or NetworkError otherwise).
        b = comp('b')

        def face_patterns(rp, how):
            return [
                ('down-after-delivery', [('settle',), ('down', how), rp, rp]),
                ('down-clean', [('settle',), ('down', how), ('clean',), rp]),
                ('down-up', [('settle',), ('down', how), ('up',), rp, rp]),
                ('down-clean-up', [('settle',), ('down', how), ('clean',), ('up',), rp]),
                ('reply-down-reply', [('settle',), rp, ('down', how), rp]),
                ('down-reply-up-reply', [('settle',), ('down', how), rp, ('up',), rp]),
                ('down-in-arrival-turn', [('down', how), ('settle',), rp, ('up',), rp]),
                ('down-before-arrival', None),
                ('down-during-call', [('settle',), rp[:3] + (False,), rp, rp[:3] + (False,)]),
                ('down-settle-reply', [('settle',), ('down', how), ('settle',), rp, ('settle',), ('up',), ('settle',), rp]),
            ]
        gi = 0
        for life in (None, 0, 1, 100, 4000, 1 << 32):
            for delta in (-1, 0, 1, -1000, 1000):
                t0 = 1_000_000
                d = t0 + (4000 if life is None else life)
                if d + delta < t0:
                    continue
                for tok in (None, b'', b'\x01\x02'):
                    rp = ('reply', 0, d + delta, True)
                    for pi in range(10):
                        hows = (0, 1, 2) if pi == 0 else ((gi + pi) % 3,)
                        for how in hows:
                            nm, mid = face_patterns(rp, how)[pi]
                            gi += 1
                            att = ('att', [a], 1, None, 0, 0, rng.randrange(N_KINDS), gi % 2)
                            rc = ('recv', [a, b], life, t0, gi % 2, tok)
                            if mid is None:
                                h = [att, ('down', how), rc, ('settle',), rp, ('up',), rp]
                            else:
                                h = [att, rc] + mid
                            run_history(ctx, FE_V2, h + [('settle',)], 'reply-face-' + nm, state)
                    for u in (0, 1):
                        mr = ctx.call([5, d, d + delta, u])
                        sr = ctx.call([4, d, d + delta, u])
                        want = [1, [sr, 2 if sr else 1]] if (u or d + delta > d) else [0, 101]
                        if mr != want or sr != (1 if (u and d + delta <= d) else 0):
                            ctx.disagree('reply_closure', 'model closure vs specification (face state)',
                                         [d, d + delta, u], mr, sr)
        # two Interests with different lifetimes, replies in both orders around both deadlines
        for l1, l2 in ((100, 200), (200, 100), (0, 4000), (None, 1)):
            for k in range(ctx.n(6, 40)):
                t0 = 2_000_000
                ev = [('att', [a], 1, None, 0, 0, rng.randrange(N_KINDS), 1), ('att', [a, a], 2, None, 0, 0, rng.randrange(N_KINDS), 0),
                      ('recv', [a, a, a], l1, t0, 0, None), ('recv', [a, comp('b')], l2, t0 + 3, 1, b'\x07'), ('settle',)]
                ts = sorted(t0 + 3 + rng.choice([0, 1, 96, 97, 98, 99, 100, 101, 196, 197, 198, 199, 200, 201, 3997, 3998, 4001])
                            for _ in range(4))
                for t in ts:
                    ev.append(('reply', rng.randrange(2), t, True))
                ev.append(('settle',))
                run_history(ctx, FE_V2, ev, 'reply-two', state)
                # the same with the connection lost (and possibly restored) somewhere among the replies
                ev2 = ev[:-1]
                i1 = rng.randrange(5, len(ev2) + 1)
                ev2.insert(i1, ('down', k % 3))
                if rng.random() < 0.6:
                    ev2.insert(rng.randrange(i1 + 1, len(ev2) + 1), ('up',))
                run_history(ctx, FE_V2, ev2 + [('settle',)], 'reply-two-face', state)

        # ---- 1c. reply sizes over the legal range x envelope of the Interest x state of the face ----------
        reply_size_family(ctx, state)

        # ---- 2. exhaustive block: subsets of a 9-node tree x all names of depth <= 4 ------------------
        nodes, names = tree_names()
        masks = list(range(512))
        if not ctx.thorough:
            fixed = [0, 511] + [1 << i for i in range(9)] + [511 ^ (1 << i) for i in range(9)]
            masks = fixed + rng.sample([m for m in masks if m not in fixed], 20)
        state['check_norm'] = False
        for fe in (FE_V2, FE_V1, FE_DISP):
            for mi, mask in enumerate(masks):
                if not ctx.thorough and fe != FE_V2 and mi % 3 != fe:
                    continue            # quick: each of the other front-ends sees a third of the subsets
                sub = [nodes[i] for i in range(9) if mask >> i & 1]
                order = sub[:]
                rng.shuffle(order)
                h = [('att', p, 1 + nodes.index(p), None, 0, 0, rng.randrange(N_KINDS), rng.randrange(2)) for p in order]
                # duplicate attach on every occupied prefix, detach on every free one
                h += [('att', p, 50 + nodes.index(p), None, 0, 0, rng.randrange(N_KINDS), 0) for p in sub]
                h += [('det', p, rng.randrange(N_KINDS)) for p in nodes if p not in sub]
                h += [('recv', n, 4000, 1_000_000, (len(n) + mi) % 2, None) for n in names]
                h.append(('settle',))
                rng.shuffle(order)
                # detach half, look again at every node name and its children, detach the rest
                half = order[:len(order) // 2]
                h += [('det', p, rng.randrange(N_KINDS)) for p in half]
                probe = [n for n in names if len(n) <= 3 or n[:3] in nodes or n[:4] in nodes]
                h += [('recv', n, None, 1_000_001, 0, None) for n in probe]
                h.append(('settle',))
                h += [('det', p, rng.randrange(N_KINDS)) for p in order[len(order) // 2:]]
                h += [('recv', n, None, 1_000_002, 1, None) for n in nodes]
                h.append(('settle',))
                run_history(ctx, fe, h, f'tree-exhaustive-{FE_NAME[fe]}', state)
        # ---- 2b. caller-owned buffers: every prefix attached through a representation whose buffer stays
        # writable for the caller (bytearray / writable memoryview, whole name, region of a scratch buffer,
        # per-component buffers), then the caller overwrites those buffers (4 contents) -- in the same turn or
        # after a loop turn -- and the table must behave as if nothing happened: every probe name delivered
        # by longest prefix, duplicates refused, free prefixes KeyError, detach of each prefix succeeds once.
        probe_all = [n for n in names if len(n) <= 3 or n[:3] in nodes or n[:4] in nodes]
        for fe in (FE_V2, FE_V1, FE_DISP):
            combos = [(k, m, tm) for k in WRITABLE_KINDS for m in range(N_MODES) for tm in (0, 1)]
            for ci, (kind, mode, timing) in enumerate(combos):
                if not ctx.thorough and fe != FE_V2 and (ci + fe) % 2:
                    continue            # quick: the other front-ends see every (kind, mode) with one timing
                ms = [511] + rng.sample(range(1, 511), ctx.n(1 if fe == FE_V2 else 0, 12))
                for mask in ms:
                    sub = [nodes[i] for i in range(9) if mask >> i & 1]
                    order = sub[:]
                    rng.shuffle(order)
                    h = [('att', p, 1 + nodes.index(p), None, 0, 0, kind, rng.randrange(2)) for p in order]
                    if timing:
                        h.append(('settle',))
                    h.append(('scrib', mode))
                    h += [('recv', n, 4000, 1_000_000, len(n) % 2, None) for n in probe_all]
                    h.append(('settle',))
                    h += [('att', p, 50 + nodes.index(p), None, 0, 0, rng.randrange(N_KINDS), 0) for p in sub]
                    h += [('det', p, kind) for p in nodes if p not in sub]
                    rng.shuffle(order)
                    h += [('det', p, rng.choice((kind, rng.randrange(N_KINDS)))) for p in order[:len(order) // 2]]
                    h.append(('scrib', (mode + 1 + rng.randrange(3)) % N_MODES))
                    h += [('recv', n, None, 1_000_001, 0, None) for n in probe_all]
                    h.append(('settle',))
                    # re-attach what was detached through a writable buffer again, reuse it, detach everything
                    h += [('att', p, 80 + nodes.index(p), None, 0, 0, kind, 0) for p in order[:len(order) // 2]]
                    h.append(('scrib', mode))
                    h += [('recv', n, None, 1_000_002, 1, None) for n in nodes]
                    h.append(('settle',))
                    h += [('det', p, rng.randrange(N_KINDS)) for p in order]
                    h += [('det', p, kind) for p in order[:2]]
                    h += [('recv', n, None, 1_000_003, 1, None) for n in nodes]
                    h.append(('settle',))
                    run_history(ctx, fe, h, f'buffer-reuse-{FE_NAME[fe]}', state)
        state['check_norm'] = True

        # ---- 2c. the registration API of the legacy front-end over a scripted forwarder (route / register with and
        # without a handler / unregister, declared routes and the starting task, every kind of answer, reconnection);
        # who receives each Interest is judged by the specification machine on the linearised history
        a, b = comp('a'), comp('b')
        for stratum, h in world_answer_grid(a, b, comp('z')):
            run_world(ctx, h, stratum, state)
        ans = answers_cycle(rng)
        role_sets = []
        for i in range(9):
            for r in ROLES:
                if ctx.thorough or (i * len(ROLES) + ROLES.index(r)) % 2 == 0:
                    roles = [rng.choice(ROLES) for _ in range(9)]
                    roles[i] = r
                    role_sets.append(roles)
        role_sets.append(['filter'] + ['announce'] * 8)
        role_sets.append(['decl'] * 9)
        role_sets.append(['filter', 'announce', 'reg', 'announce', 'decl', 'announce', 'route', 'announce', 'announce'])
        for _ in range(ctx.n(0, 150)):
            role_sets.append([rng.choice(ROLES) for _ in range(9)])
        for roles in role_sets:
            run_world(ctx, drain(world_roles_history(rng, nodes, probe_all, roles, ans)), 'registration-roles', state)
        for i in range(ctx.n(200, 8000)):
            run_world(ctx, gen_world(rng, cs), 'registration-random', state)

        # ---- 3. random histories ------------------------------------------------------------------
        for fe in (FE_V2, FE_V1, FE_DISP):
            for i in range(ctx.n(250, 12000)):
                h = gen_history(rng, fe, cs, wf=True)
                state['collect'] = (i % 50 == 0)
                run_history(ctx, fe, h, f'history-{FE_NAME[fe]}', state)
            for i in range(ctx.n(80, 3000)):
                h = gen_history(rng, fe, cs, wf=False)
                run_history(ctx, fe, h, f'history-nonspec-{FE_NAME[fe]}', state)
        state['collect'] = True

        # ---- 3b. refused attach x options: a refused second attach leaves the occupying handler untouched ------
        refused_family(ctx, loop)

        # ---- 4. same-turn races: Interest queued, then the table changes before the loop runs ------
        a, b = comp('a'), comp('b')
        for fe in (FE_V2, FE_V1):
            for k in range(9):
                h = [('att', [a], 1, None, 0, 0, k, 0), ('att', [a, b], 2, None, 1, 1, 8 - k, 0),
                     ('recv', [a, b, a], 10, 5_000_000, k % 2, None), ('det', [a, b], k),
                     ('recv', [a, b, a], 10, 5_000_000, k % 2, None), ('att', [a, b], 3, None, 0, 1, k, 0),
                     ('recv', [a, b], 10, 5_000_000, 1, None), ('settle',),
                     ('recv', [a, b], 10, 5_000_001, 0, None), ('clean',), ('recv', [a], 10, 5_000_001, 0, None),
                     ('settle',)]
                run_history(ctx, fe, h, 'same-turn', state)
    finally:
        ndn.utils.timestamp = old_ts
        try:
            loop.close()
        except Exception:   # noqa
            pass
        asyncio.set_event_loop(None)


def replay(ctx, data):
    """./check C04 --replay file: re-run the single history stored in a replay file."""
    import ndn.utils
    from harness.lib.core import unjson
    from ndn.encoding import make_data, MetaInfo
    case = unjson(data.get('case'))
    if isinstance(case, dict) and 'refused' in case:
        logging.getLogger('ndn').setLevel(logging.CRITICAL)
        loop = vtloop.new_loop()
        try:
            refused_scenario(ctx, {v: k for k, v in FE_NAME.items()}[case['fe']], loop, case['refused'])
        finally:
            loop.close()
            asyncio.set_event_loop(None)
        return
    if not isinstance(case, dict) or 'history' not in case:
        ctx.notes.append('replay: the file holds no single history; full run repeated with the same seed')
        return run(ctx)
    fe = {v: k for k, v in FE_NAME.items()}[case['fe']]
    h = []
    for e in case['history']:
        e = list(e)
        if e[0] in ('att', 'det', 'recv', 'route', 'reg', 'unreg'):
            e[1] = [bytes(c) for c in e[1]]
        if e[0] == 'recv' and isinstance(e[5], list):
            e[5] = tuple(e[5])
        if e[0] == 'fwd' and isinstance(e[1], list):
            e[1] = ('nack', tuple(e[1][1]) if isinstance(e[1][1], list) else e[1][1])
        h.append(tuple(e))
    if not h or h[-1][0] not in ('settle', 'fwd'):
        h.append(('settle',))
    logging.getLogger('ndn').setLevel(logging.CRITICAL)
    loop = vtloop.new_loop()
    old_ts = ndn.utils.timestamp
    ndn.utils.timestamp = loop.now_ms
    state = {'loop': loop, 'data': bytes(make_data('/a/b/x', MetaInfo(), b'payload')), 'check_norm': True,
             'collect': True}
    try:
        if case.get('world'):
            run_world(ctx, h, 'replay', state)
        else:
            run_history(ctx, fe, h, 'replay', state)
    finally:
        ndn.utils.timestamp = old_ts
        loop.close()
        asyncio.set_event_loop(None)
