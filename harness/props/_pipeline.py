"""Shared by C03 and C05: drives the real Interest/Data pipeline (ndn.appv2.NDNApp and the legacy ndn.app.NDNApp)
through an event history on the virtual-time loop and returns canonical observations.

History = list of events (tuples).  Times are integer milliseconds after the start of the run.
Every event carries a *tie mode* saying how it is linearised against timers that are due at exactly its time t
(DESIGN §2.6 "ties"):
    0  timers due at <= t run to completion first, then the event                      (no tie)
    1  timers due at <  t run; the clock is set to t; the event's synchronous part runs; then the timers due at t
       fire in the same loop iteration                                                 (packet first, timer second)
    2  timers due at <  t run; the timer callbacks due at t fire (they cancel the futures) but the woken waiters
       have not run yet when the event's synchronous part runs                         (timer, packet, waiter clean-up)
Mode 2 is what a datagram face produces when a packet and a timer become ready in one select().

Events (first element = tag):
    ('express', i, name, cbp, dig, life, vmode, t, tie)   name: tuple of small ints; dig: None | data id | 'x'
                                                           vmode: ('imm', verdict) | ('def',)   [validator of i]
    ('await',   i, t, tie)
    ('data',    d, name, t, tie)
    ('nack',    name, dig, reason, t, tie)                 reason: int r          NackReason element, shortest encoding
                                                           | ('absent',)    Nack header WITHOUT a NackReason element
                                                                            (NDNLPv2: reason None = 0)
                                                           | ('wide', r, w) NackReason element with a w-byte value
                                                                            (w in 1,2,4,8, not the shortest)
    ('setdefault', harness_validator, t)                   legacy front-end: app.int_validator := a harness validator
                                                           (True) / the library default sha256_digest_checker (False)
    ('vdone',   i, verdict, t, tie)
    ('cancel',  i, t, tie)
    ('shutdown', t, tie)
    ('advance', t)
    ('attach',  prefix, has_validator, t)                  handler h = index of the attach event
    ('interest', k, name, has_params, sig, digest_ok, verdict, t)   sig: 0 none | 1 DigestSha256 ok | 2 DigestSha256 bad
                                                           verdict: what the harness validator (if consulted) answers
                                                           digest_ok: True | False (own digest, one bit flipped)
                                                           | 'reuse:<k0>' WRONG: the digest component is the one of Interest k0
                                                             of the same history (before or after it), the parameters differ
                                                           | 'copy:<k0>'  RIGHT: the very packet of Interest k0 once more (a
                                                             retransmission; name / has_params / sig must repeat k0's)
                                                           non-empty ApplicationParameters are unique per run and per k
    ('arrive', k, name, has_params, sig, digest_ok, t)     an Interest whose application-supplied validator (if one is
                                                           consulted) SUSPENDS until ('ivdone', k, verdict, t); the
                                                           application may change its routes in between
    ('ivdone', k, verdict, t)                              the suspended Interest validator of k answers
    ('detach', prefix, t)                                  appv2 detach_handler / legacy unset_interest_filter
    ('repr', i, kind, t, 0)                                harness level (harness/props/_namebufs.py): the Express of i that
                                                           follows hands its name over in representation `kind` (URI, encoded
                                                           name, component lists, views of caller-owned buffers, ...)
    ('scrib', mode, t, 0)                                  harness level: the caller overwrites every buffer it handed to
                                                           express so far.  Model and specification see neither (names are
                                                           values there; a scrib only advances the clock)
    ('pkt', d, form, t, 0) / ('via', wrap, t, 0) / ('iopt', i, opts, t, 0)
                                                           harness level (harness/props/_dress.py): what the packet of data id d
                                                           looks like (MetaInfo, Content, signature kind), how the NEXT Data / Nack
                                                           is delivered (bare / inside an NDNLPv2 LpPacket with header fields),
                                                           which further parameters the Express of i carries (MustBeFresh,
                                                           HopLimit).  Model and specification see none of them
Verdicts: v2: 0 FAIL 1 TIMEOUT 2 SILENCE 3 PASS 4 ALLOW_BYPASS 5 (raise TimeoutError);  v1: index into V1_VALUES.
In every place of a verdict (vmode ('imm', v), 'vdone', 'interest', 'ivdone') v may also be 'raise:<Class>': the validator
TERMINATES WITH AN EXCEPTION of that class instead of answering (raise_outcomes(): every exception class ndn.types defines
plus some built-in ones) - at once, or, for a suspended validator, when it is resumed.
"""
import asyncio
import contextvars
import gc
import hashlib
import logging

from harness.lib import vtloop
from harness.props import _namebufs as NB
from harness.props import _dress as DR

# the incoming Interest being processed: (k, verdict, deferred).  Set when the packet is handed to the application; the
# task the application creates for it (submit_interest) inherits the context, so a validator / handler that runs later -
# after other Interests arrived - still knows which Interest it is working on.
_CUR = contextvars.ContextVar('harness_cur_interest', default=None)

V1_VALUES = [False, True, None, 0, 1, '', 'x', [], [0]]      # truthiness is what the legacy front-end looks at


def v1_truth(k):
    return bool(V1_VALUES[k])


# ---- validator outcomes that are not a verdict: the validator terminates with an exception ------------------
RAISE = 'raise:'
# built-in classes a validator (one that fetches certificates over the network, looks keys up, ...) ends with
RAISE_BUILTIN = ['Exception', 'TimeoutError', 'CancelledError', 'OSError']
# PendingIntEntry.satisfy (appv2, Data) turns these two into the verdict TIMEOUT (model verdict 5)
RAISE_AS_TIMEOUT_V2 = (RAISE + 'TimeoutError', RAISE + 'CancelledError')


def is_raise(v):
    return isinstance(v, str) and v.startswith(RAISE)


def raise_outcomes():
    """'raise:<Class>' for every exception class the library defines (reflected from ndn.types, so a class added
    there is covered) and for RAISE_BUILTIN."""
    import ndn.types as T
    lib = sorted(n for n, c in vars(T).items()
                 if isinstance(c, type) and issubclass(c, BaseException) and c.__module__ == T.__name__)
    return [RAISE + n for n in lib + RAISE_BUILTIN]


def make_exception(v):
    import builtins
    import ndn.types as T
    n = v[len(RAISE):]
    c = getattr(T, n, None)
    if not (isinstance(c, type) and issubclass(c, BaseException)):
        c = asyncio.CancelledError if n == 'CancelledError' else getattr(builtins, n)
    for args in ((), (150,), ([], None, None, None)):
        try:
            return c(*args)
        except TypeError:
            continue
    raise ValueError(v)


def dies_v2(fe, v):
    """appv2, Data validator: an exception other than TimeoutError / CancelledError kills the task running
    PendingIntEntry.satisfy; nobody resolves the future: for the pipeline that validator never answers."""
    return fe == 'v2' and is_raise(v) and v not in RAISE_AS_TIMEOUT_V2


def dok_true(dok):
    """Is the parameters digest of an incoming Interest right (the digest_ok field of 'interest' / 'arrive')."""
    if isinstance(dok, str):
        return dok.startswith('copy:')
    return bool(dok)


_SALT = [0]        # ApplicationParameters are unique per World (= per case): nothing a case sends was seen by the process before


def comp(k):
    from ndn.encoding import Component
    return Component.from_str(chr(97 + k) if k < 26 else 'c%d' % k)


# ---- Nack reasons: every value / encoding a forwarder may legally send -------------------------------------
def nack_reason_value(reason):
    """The reason the application must see (what the model / specification is given)."""
    if isinstance(reason, (tuple, list)):
        return 0 if reason[0] == 'absent' else reason[1]
    return reason


def nack_wire(interest_wire, reason, via=None):
    """LpPacket{Nack{[NackReason]}, Fragment{interest}}; the plain-int form goes through the library's encoder,
    the other forms are encoded here (LpPacket 0x64, Nack 0x0320, NackReason 0x0321, Fragment 0x50).  With a delivery
    `via` (_dress.VIA_NAMES) other than 'bare' / 'lp' the further NDNLPv2 header fields of that delivery stand around the
    Nack header (type-number order)."""
    from harness.lib import gen as G
    plain = via in (None, 'bare', 'lp')
    if not isinstance(reason, (tuple, list)):
        if plain:
            from ndn.encoding import make_network_nack
            return bytes(make_network_nack(interest_wire, reason))
        hdr = G.tlv(0x0321, DR._nni(int(reason)))
    elif reason[0] == 'absent':
        hdr = b''
    else:
        hdr = G.tlv(0x0321, int(reason[1]).to_bytes(reason[2], 'big'))
    return DR.lp_wrap(interest_wire, via, nack_header=G.tlv(0x0320, hdr))


# value boundaries of the NackReason number (0 = None, the three reasons forwarders send, widths 1/2/4/8)
NACK_VALUES = [0, 1, 50, 100, 150, 255, 256, 65535, 65536, (1 << 32) - 1, 1 << 32, (1 << 64) - 1]
NACK_FORMS = ([('absent',)] + NACK_VALUES
              + [('wide', 0, 2), ('wide', 0, 8), ('wide', 50, 2), ('wide', 150, 4), ('wide', 255, 8), ('wide', 65535, 4)])
# what the random histories draw from: the falsy / boundary reasons as often as the common ones
NACK_POOL = [50, 100, 150, 0, ('absent',), 0, ('absent',), 1, 255, 256, ('wide', 0, 2), ('wide', 150, 4), 1 << 32]


def data_wire(d, name, form=None):
    """The Data packet of data id d (default dress: MetaInfo with ContentType 0, DigestSha256 signed, content identifies d;
    otherwise the form (meta, content, sig) of harness/props/_dress.py)."""
    return DR.wire(d, [comp(k) for k in name], tuple(name), tuple(form) if form is not None else DR.DEFAULT_FORM)


def data_hash(d, name, form=None):
    """The implicit digest: SHA-256 of the BARE Data packet, whatever it is delivered in."""
    return hashlib.sha256(data_wire(d, name, form)).digest()


class RecFace:
    """Recording dummy face (own code; implements the Face interface the applications use)."""
    def __init__(self):
        self.running = False
        self.callback = None
        self.sent = []
        self._stop = None

    async def open(self):
        self.running = True
        self._stop = asyncio.get_running_loop().create_future()

    def shutdown(self):
        self.running = False
        if self._stop is not None and not self._stop.done():
            self._stop.set_result(None)

    def send(self, data):
        self.sent.append(bytes(data))

    async def run(self):
        await self._stop

    async def isLocalFace(self):
        return True


class DummyRegisterer:
    def set_app(self, app):
        self.app = app

    async def register(self, name):
        return True

    async def unregister(self, name):
        return True


class World:
    def __init__(self, frontend, dig_of, forms=None):
        """dig_of: data id -> (name) so that implicit digests can be computed before the Data exists.
        forms: data id -> (meta, content, sig) of _dress.py for the ids that are not the default packet."""
        import ndn.utils
        self.fe = frontend
        self.loop = vtloop.new_loop(1000.0)
        self.t0 = 1000.0
        self._orig_ts = ndn.utils.timestamp
        ndn.utils.timestamp = self.loop.now_ms
        logging.getLogger('ndn').setLevel(logging.CRITICAL)
        self.face = RecFace()
        if frontend == 'v2':
            from ndn import appv2
            self.mod = appv2
            self.app = appv2.NDNApp(face=self.face, registerer=DummyRegisterer())
        else:
            from ndn import app as appv1
            self.mod = appv1
            self.app = appv1.NDNApp(face=self.face, keychain=object())
        self.dig_of = dig_of
        self.forms = dict(forms or {})
        self.next_via = None       # delivery of the next Data / Nack event ('via')
        self.iopts = {}            # i -> further Interest parameters of the next Express of i ('iopt')
        self.key2d = {}            # what a validator can tell a Data by (data_key) -> data id
        self.coros = {}
        self.tasks = {}
        self.completion = {}       # i -> (kind, payload, time)
        self.vfut = {}             # i -> future the validator of i is waiting on
        self.vcalls = []           # (i, data id) validator invocations for Data
        self.sig2d = {}            # signature value -> data id
        self.errors = []           # exceptions escaping _receive / express / harness-visible calls
        self.handler_calls = []    # (handler id, interest id)
        self.ivcalls = []          # (interest id) validator invocations for incoming Interests
        self.ivwho = []            # (interest id, which validator): ('route', handler id) | ('default', generation)
        self.n_default = 0         # harness validators installed as app.int_validator so far (legacy front-end)
        self.lib_int_validator = getattr(self.app, 'int_validator', None)     # the library's default, to restore it
        self.shut_seen = False
        self.validated_before = {}
        self.int_wire2k = {}
        self.cur_k = None
        self.ivfut = {}            # k -> future a suspended Interest validator is waiting on
        self.detach_errors = []
        self.nb = NB.Buffers()     # what the caller owns: buffers handed to express, where the expressed names live in them
        self.reprs = {}            # i -> representation kind of the next Express of i
        self.k = 0                 # index of the event being run
        self.raised = []           # the exception objects harness validators terminated with ('raise:<Class>')
        _SALT[0] += 1
        self.salt = _SALT[0]
        self.history = []
        self.main = self.loop.create_task(self.app.main_loop())
        self.loop.settle()

    # -- time -------------------------------------------------------------------------------
    def sec(self, t):
        return self.t0 + t / 1000.0

    def now(self):
        return self.loop.now_ms() - int(round(self.t0 * 1000))

    def position(self, t, tie):
        """Bring the loop to the point where the event's synchronous part has to run."""
        if tie == 0:
            self.loop.advance_to(self.sec(t))
        else:
            self.loop.advance_to(self.sec(t) - 0.0005)
            if self.loop.time() < self.sec(t):
                self.loop._vt = self.sec(t)

    def apply(self, fn, tie):
        """Run fn() (the event's synchronous part) according to the tie mode, then run to quiescence."""
        if tie == 2:
            box = []

            def later():
                # runs in iteration k+1: after the timer callbacks of iteration k, before the waiters they woke
                try:
                    fn()
                except BaseException as e:      # noqa
                    box.append(e)
            # iteration k: [first] then the timers that are due; `first` queues `later` behind nothing else
            self.loop.call_soon(lambda: self.loop.call_soon(later))
            self.loop.settle()
            if box:
                raise box[0]
        else:
            # fn runs first in the next iteration; due timers are appended behind it by _run_once
            box = []

            def now():
                try:
                    fn()
                except BaseException as e:      # noqa
                    box.append(e)
            self.loop.call_soon(now)
            self.loop.settle()
            if box:
                raise box[0]

    # -- validators -------------------------------------------------------------------------
    def make_validator(self, i, vmode):
        fe = self.fe

        async def validator(name, sig, ctx=None):
            try:
                d = self.key2d.get(self.data_key(name, sig))
            except Exception:      # noqa
                d = None
            self.vcalls.append((i, d))
            if vmode[0] == 'imm':
                v = vmode[1]
            else:
                fut = asyncio.get_running_loop().create_future()
                self.vfut[i] = fut
                v = await fut
            return self.verdict_value(v)
        return validator

    @staticmethod
    def data_key(name, sig):
        """What identifies a Data towards a validator (which sees the name and the signature pointers): the signature value;
        for an empty one (null signature) the octets the signature covers; for an unsigned Data its name (_dress.fix_forms:
        at most one unsigned id per name and history)."""
        from ndn.encoding import Name
        v = sig.signature_value_buf
        if v is not None and len(v) > 0:
            return ('s', bytes(v))
        if sig.signature_info is not None:
            return ('c', b''.join(bytes(x) for x in sig.signature_covered_part))
        return ('n', bytes(Name.to_bytes(name)))

    def identify(self, i, content):
        """The data id an Interest was completed with, as b'data-<d>': read off the content when it names the id, otherwise
        (no / empty Content) the Data the validator of i was last asked about; the content handed to the caller must be
        the content of that packet."""
        c = bytes(content) if content is not None else None
        d = None
        if c and c.startswith(b'data-'):
            try:
                d = int(c.split(b'-')[1])
            except ValueError:
                d = None
        else:
            d = next((x for j, x in reversed(self.vcalls) if j == i and x is not None), None)
        if d is None:
            return None
        want = DR.content_bytes(d, self.forms.get(d, DR.DEFAULT_FORM)[1])
        if (c or b'') != (want or b''):
            return None
        return b'data-%d' % d

    def verdict_value(self, v):
        if is_raise(v):
            e = make_exception(v)
            self.raised.append(e)
            raise e
        if self.fe == 'v2':
            from ndn.types import ValidResult as VR
            if v == 5:
                raise TimeoutError()
            # the model numbers the verdicts in the order of the enum values (Proofs/ValidResultAgree.v)
            return sorted(VR, key=lambda m: m.value)[v]
        return V1_VALUES[v]

    # -- events -----------------------------------------------------------------------------
    def digest_bytes(self, dig):
        if dig is None:
            return None
        if dig == 'x':
            return b'\xee' * 32
        return data_hash(dig, self.dig_of[dig], self.forms.get(dig))

    def full_name(self, name, dig):
        from ndn.encoding import Component
        n = [comp(k) for k in name]
        if dig is not None:
            n.append(Component.from_bytes(self.digest_bytes(dig), Component.TYPE_IMPLICIT_SHA256))
        return n

    def ev_express(self, i, name, cbp, dig, life, vmode):
        n0 = self.full_name(name, dig)
        val = self.make_validator(i, vmode)
        kind = self.reprs.pop(i, None)
        opts = self.iopts.pop(i, ())
        kw = {}
        if 'mbf' in opts:
            kw['must_be_fresh'] = True
        if 'hop' in opts:
            kw['hop_limit'] = 5

        def fn():
            # the representation is built AT express time (a shared receive buffer is rewritten for this very call)
            n = n0 if kind is None else self.nb.represent(i, n0, kind, dig is not None)
            if self.fe == 'v2':
                self.coros[i] = self.app.express(n, val, lifetime=life, can_be_prefix=cbp, nonce=1000 + i, **kw)
            else:
                self.coros[i] = self.app.express_interest(n, validator=val, lifetime=life, can_be_prefix=cbp,
                                                          nonce=1000 + i, **kw)
        return fn

    def ev_await(self, i):
        def fn():
            coro = self.coros.pop(i, None)
            if coro is None:
                return

            async def waiter():
                try:
                    r = await coro
                    if self.fe == 'v2':
                        name, content, _ctx = r
                    else:
                        name, _mi, content = r
                    ident = self.identify(i, content)
                    if ident is None:
                        self.completion[i] = ('error', 'data-or-content-never-delivered',
                                              self.now())
                    else:
                        self.completion[i] = ('data', ident, self.now())
                except BaseException as e:      # noqa
                    self.completion[i] = self.classify(e, i) + (self.now(),)
            self.tasks[i] = self.loop.create_task(waiter())
        return fn

    def classify(self, e, i=None):
        from ndn import types as T
        if isinstance(e, T.InterestTimeout):
            return ('timeout', None)
        if isinstance(e, T.InterestNack):
            return ('nack', e.reason)
        if isinstance(e, (T.InterestCanceled, asyncio.CancelledError)):
            return ('cancelled', None)
        if isinstance(e, T.ValidationFailure):
            res = getattr(e, 'result', None)
            return ('invalid', (self.identify(i, e.content), res.name if hasattr(res, 'name') else repr(res)))
        return ('error', type(e).__name__)

    def ev_data(self, d, name):
        wire = data_wire(d, name, self.forms.get(d))
        from ndn.encoding import parse_data
        pname, _, _, sig = parse_data(wire)
        self.key2d[self.data_key(pname, sig)] = d
        if sig.signature_value_buf is not None:
            self.sig2d[bytes(sig.signature_value_buf)] = d
        via, self.next_via = self.next_via, None
        if via in (None, 'bare'):
            return self.recv(6, wire)
        return self.recv(100, DR.lp_wrap(wire, via))

    def recv(self, typ, wire):
        """The library's _receive never suspends on the Data / Nack / Interest paths (the awaited callees have no
        suspension point), so one send(None) is exactly the step a face's `create_task(callback(...))` would run."""
        def fn():
            coro = self.app._receive(typ, wire)
            try:
                coro.send(None)
            except StopIteration:
                return
            except BaseException as e:      # noqa
                self.errors.append(('_receive', type(e).__name__))
                return
            coro.close()
            self.errors.append(('_receive', 'harness: suspended unexpectedly'))
        return fn

    def ev_nack(self, name, dig, reason):
        from ndn.encoding import make_interest, InterestParam
        via, self.next_via = self.next_via, None
        flags = DR.nack_interest_flags(via) if via not in (None, 'bare') else {}
        iw = make_interest(self.full_name(name, dig), InterestParam(nonce=7, lifetime=4000, **flags))
        return self.recv(100, nack_wire(iw, reason, via))

    def ev_vdone(self, i, v):
        def fn():
            fut = self.vfut.pop(i, None)
            if fut is not None and not fut.done():
                fut.set_result(v)
        return fn

    def ev_cancel(self, i):
        def fn():
            t = self.tasks.get(i)
            if t is not None:
                t.cancel()
        return fn

    def ev_shutdown(self):
        def fn():
            self.app.shutdown()
            if self.fe == 'v1' and not self.shut_seen:
                # handler ids are positions in the route table; the legacy clean-up empties that table
                self.n_attach = 0
            self.shut_seen = True
        return fn

    # -- incoming Interests (C05 second half) -------------------------------------------------
    def ev_attach(self, h, prefix, has_validator):
        pfx = [comp(k) for k in prefix]

        def fn():
            world = self

            if self.fe == 'v2':
                def handler(name, app_param, reply, context):
                    kk = world.k_now()
                    world.handler_calls.append((h, kk))
                    world.validated_before[kk] = kk in world.ivcalls

                async def validator(name, sig, context):
                    return await world.int_verdict(('route', h))
                self.app.attach_handler(pfx, handler, validator if has_validator else None)
            else:
                def handler(name, param, app_param):
                    kk = world.k_now()
                    world.handler_calls.append((h, kk))
                    world.validated_before[kk] = kk in world.ivcalls

                async def validator(name, sig):
                    return await world.int_verdict(('route', h))
                self.app.set_interest_filter(pfx, handler, validator if has_validator else None)
        return fn

    def k_now(self):
        cur = _CUR.get()
        return cur[0] if cur is not None else self.cur_k

    async def int_verdict(self, who):
        """Body of every harness validator for incoming Interests: log, then answer at once or - for an 'arrive' event -
        when the history says so ('ivdone')."""
        cur = _CUR.get()
        kk, v, deferred = cur if cur is not None else (self.cur_k, self.cur_verdict, False)
        self.ivcalls.append(kk)
        self.ivwho.append((kk, who))
        if deferred:
            fut = asyncio.get_running_loop().create_future()
            self.ivfut[kk] = fut
            v = await fut
        return self.verdict_value(v)

    def ev_detach(self, prefix):
        pfx = [comp(k) for k in prefix]

        def fn():
            if self.fe == 'v2':
                self.app.detach_handler(pfx)
            else:
                self.app.unset_interest_filter(pfx)
        return fn

    def ev_ivdone(self, k, v):
        def fn():
            fut = self.ivfut.pop(k, None)
            if fut is not None and not fut.done():
                fut.set_result(v)
        return fn

    def ev_setdefault(self, own):
        """Legacy front-end: replace the application-wide Interest validator (documented attribute app.int_validator)
        by a fresh harness validator (own) or put the library's default back.  appv2 has no such attribute: nothing."""
        def fn():
            if self.fe != 'v1':
                return
            world = self
            if own:
                g = self.n_default
                self.n_default += 1

                async def validator(name, sig):
                    return await world.int_verdict(('default', g))
                self.app.int_validator = validator
            else:
                self.app.int_validator = self.lib_int_validator
        return fn

    def interest_of(self, k0):
        for ev in self.history:
            if ev[0] in ('interest', 'arrive') and ev[1] == k0:
                return ev
        raise ValueError(f'no Interest {k0} in the history')

    def interest_wire(self, name, has_params, sig, digest_ok, k=None):
        from ndn.encoding import make_interest, InterestParam, parse_interest
        from ndn.security import DigestSha256Signer
        if isinstance(digest_ok, str) and digest_ok.startswith('copy:'):
            ev0 = self.interest_of(int(digest_ok[5:]))
            return self.interest_wire(ev0[2], ev0[3], ev0[4], ev0[5], ev0[1])
        n = [comp(c) for c in name]
        signer = DigestSha256Signer() if sig else None
        # has_params: False | True (non-empty) | 2 (ApplicationParameters present with zero length: still parameters)
        fresh = b'param' if k is None else b'param-%d-%d' % (self.salt, k)
        app_param = (b'' if has_params == 2 else fresh) if has_params else (b'' if sig else None)
        w = bytearray(make_interest(n, InterestParam(nonce=9, lifetime=4000), app_param, signer=signer))
        if sig == 2:
            w[-1] ^= 0x55            # last byte of the signature value
        if isinstance(digest_ok, str) and digest_ok.startswith('reuse:') and (has_params or sig):
            # the ParametersSha256DigestComponent (last name component) of Interest k0 - a digest that IS right for k0's
            # packet - on a packet with other parameters / name / signature elements
            ev0 = self.interest_of(int(digest_ok[6:]))
            nm0, _, _, _ = parse_interest(self.interest_wire(ev0[2], ev0[3], ev0[4], True, ev0[1]))
            nm, _, _, _ = parse_interest(bytes(w))
            last, last0 = bytes(nm[-1]), bytes(nm0[-1])
            if len(last) != len(last0) or last == last0:
                raise ValueError('harness: digest re-use needs two different packets with a digest component each')
            pos = bytes(w).find(last)
            w[pos:pos + len(last)] = last0
        elif (has_params or sig) and not digest_ok:
            # corrupt the ParametersSha256DigestComponent (last name component, 32 bytes): flip its last byte
            from ndn.encoding import parse_interest
            nm, _, _, _ = parse_interest(bytes(w))
            last = bytes(nm[-1])
            pos = bytes(w).find(last)
            w[pos + len(last) - 1] ^= 0x01
        elif sig == 2 and digest_ok:
            # the digest covers the signature value: recompute it so that only the signature is wrong
            from ndn.encoding import parse_interest
            nm, _, _, sp = parse_interest(bytes(w))
            h = hashlib.sha256()
            for blk in sp.digest_covered_part:
                h.update(blk)
            last = bytes(nm[-1])
            pos = bytes(w).find(last)
            w[pos + 2:pos + 34] = h.digest()
        return bytes(w)

    def ev_interest(self, k, name, has_params, sig, digest_ok, verdict, deferred=False):
        wire = self.interest_wire(name, has_params, sig, digest_ok, k)
        inner = self.recv(5, wire)

        def fn():
            self.cur_k = k
            self.cur_verdict = verdict
            _CUR.set((k, verdict, deferred))
            inner()
        return fn

    # -- run ----------------------------------------------------------------------------------
    def step(self, ev):
        tag = ev[0]
        if tag == 'advance':
            self.loop.advance_to(self.sec(ev[1]))
            return
        if tag == 'attach':
            _, prefix, has_val, t = ev[:4]
            self.position(t, 0)
            self.apply(self.ev_attach(self.n_attach, prefix, has_val), 0)
            self.n_attach += 1
            return
        if tag == 'interest':
            _, k, name, has_params, sig, digest_ok, verdict, t = ev
            self.position(t, 0)
            self.apply(self.ev_interest(k, name, has_params, sig, digest_ok, verdict), 0)
            return
        if tag == 'setdefault':
            self.position(ev[2], 0)
            self.apply(self.ev_setdefault(ev[1]), 0)
            return
        if tag == 'arrive':
            _, k, name, has_params, sig, digest_ok, t = ev
            self.position(t, 0)
            self.apply(self.ev_interest(k, name, has_params, sig, digest_ok, None, deferred=True), 0)
            return
        if tag == 'repr':
            self.reprs[ev[1]] = ev[2]
            return
        if tag == 'pkt':
            return                 # collected before the run (run_impl): one id = one packet in the whole history
        if tag == 'via':
            self.next_via = ev[1]
            return
        if tag == 'iopt':
            self.iopts[ev[1]] = tuple(ev[2])
            return
        if tag == 'scrib':
            self.position(ev[2], 0)
            self.apply(lambda: self.nb.scribble(ev[1]), 0)
            self.nb.note_changes(self.k)
            return
        if tag in ('ivdone', 'detach'):
            self.position(ev[-1], 0)
            try:
                self.apply(self.ev_ivdone(ev[1], ev[2]) if tag == 'ivdone' else self.ev_detach(ev[1]), 0)
            except Exception as e:      # noqa
                self.errors.append((tag, type(e).__name__))
            return
        t, tie = ev[-2], ev[-1]
        if tag == 'express':
            fn = self.ev_express(*ev[1:7])
        elif tag == 'await':
            fn = self.ev_await(ev[1])
        elif tag == 'data':
            fn = self.ev_data(ev[1], ev[2])
        elif tag == 'nack':
            fn = self.ev_nack(ev[1], ev[2], ev[3])
        elif tag == 'vdone':
            fn = self.ev_vdone(ev[1], ev[2])
        elif tag == 'cancel':
            fn = self.ev_cancel(ev[1])
        elif tag == 'shutdown':
            fn = self.ev_shutdown()
        else:
            raise ValueError(tag)
        self.position(t, tie)
        try:
            self.apply(fn, tie)
        except Exception as e:      # noqa
            self.errors.append((tag, type(e).__name__))
        if tag == 'express' and self.nb.tracks:
            self.nb.note_changes(self.k)      # an express through the shared receive buffer rewrote earlier names

    def pit_sizes(self):
        tree = self.app._pit if self.fe == 'v2' else self.app._int_tree
        nodes = list(tree.itervalues())
        return len(nodes), sum(len(n.pending_list) for n in nodes)

    def run(self, history):
        self.n_attach = 0
        self.history = list(history)
        for k, ev in enumerate(history):
            self.k = k
            self.step(ev)
        nodes, entries = self.pit_sizes()
        gc.collect()
        self.loop.settle()
        gc.collect()
        self.loop.settle()
        loop_errs = []
        escaped = []
        from ndn import types as T
        for c in self.loop.errors:
            exc = c.get('exception')
            msg = c.get('message', '')
            if exc is not None and any(exc is x for x in self.raised):
                # the very exception object a harness validator terminated with left the task the library had created
                # for it (submit_interest / PendingIntEntry.satisfy): the application's own fault coming back, reported
                # apart (what matters to the properties is what reached the handler / the caller)
                escaped.append(type(exc).__name__)
                continue
            if 'Future exception was never retrieved' in msg and isinstance(exc, (T.InterestNack, T.ValidationFailure)):
                # a Nack / validation failure that lost a same-turn race against the timer: asyncio logs the
                # superseded future at garbage collection; the Interest itself completed (with Timeout)
                continue
            loop_errs.append((msg.split('\n')[0][:60], type(exc).__name__ if exc is not None else None))
        obs = {
            'completion': {i: c for i, c in sorted(self.completion.items())},
            'sent': len(self.face.sent),
            'errors': list(self.errors),
            'loop_errors': loop_errs,
            'pit_nodes': nodes,
            'pit_entries': entries,
            'vcalls': list(self.vcalls),
            'handler_calls': list(self.handler_calls),
            'ivcalls': list(self.ivcalls),
            'ivwho': list(self.ivwho),
            'validated_before': dict(self.validated_before),
            'alias_changes': self.nb.report(),
            'escaped': escaped,
        }
        return obs

    def close(self):
        import ndn.utils
        try:
            for t in list(self.tasks.values()):
                if not t.done():
                    t.cancel()
            for c in self.coros.values():
                c.close()
            if not self.main.done():
                self.app.shutdown()
            self.loop.settle()
            for t in asyncio.all_tasks(self.loop):
                t.cancel()
            self.loop.settle()
        finally:
            ndn.utils.timestamp = self._orig_ts
            self.loop.close()
            asyncio.set_event_loop(None)


_GC_CASES = [0]


def _gc_housekeeping():
    """Every case ends with two gc.collect() (asyncio reports a never-retrieved exception when the future is
    collected).  A full collection scans every tracked object, most of which are long-lived (modules, evidence
    counters); every 64 cases those are moved to the permanent generation (after a full collection, so no garbage is
    frozen) and the per-case collections only look at what the cases allocated since."""
    if _GC_CASES[0] % 64 == 0:
        gc.collect()
        gc.freeze()
    _GC_CASES[0] += 1


def run_impl(frontend, history):
    _gc_housekeeping()
    dig_of = {}
    for ev in history:
        if ev[0] == 'data':
            dig_of[ev[1]] = ev[2]
    # an implicit digest may refer to a data id that never arrives: give it the Interest's own name
    for ev in history:
        if ev[0] in ('express',) and isinstance(ev[4], int) and ev[4] not in dig_of:
            dig_of[ev[4]] = ev[2]
        if ev[0] == 'nack' and isinstance(ev[2], int) and ev[2] not in dig_of:
            dig_of[ev[2]] = ev[1]
    w = World(frontend, dig_of, DR.forms_of(history))
    try:
        return w.run(history)
    finally:
        w.close()


# =================================================================================================
# model side: encoding of histories, decoding of observations
# =================================================================================================
DIG_X = 999999
VR_NAMES = {'FAIL': 0, 'TIMEOUT': 1, 'SILENCE': 2, 'PASS': 3, 'ALLOW_BYPASS': 4}


def m_verdict(fe, v):
    """A validator that terminates with an exception gave no accepting verdict: a non-passing model verdict
    (V2: 5, the model's 'raised'; V1: 0 - what is modelled is whether the validator accepted)."""
    if is_raise(v):
        return 5 if fe == 'v2' else 0
    return v if fe == 'v2' else (1 if v1_truth(v) else 0)


def m_dig(dig):
    return None if dig is None else [DIG_X if dig == 'x' else dig]


def m_event(fe, ev):
    tag = ev[0]
    if tag == 'express':
        _, i, name, cbp, dig, life, vmode, t, tie = ev
        vm = [0, m_verdict(fe, vmode[1])] if vmode[0] == 'imm' and not dies_v2(fe, vmode[1]) else [1]
        return [tie, [0, i, list(name), cbp, m_dig(dig), life, vm, t]]
    if tag == 'await':
        return [ev[3], [1, ev[1], ev[2]]]
    if tag == 'data':
        return [ev[4], [2, ev[1], list(ev[2]), ev[1], ev[3]]]
    if tag == 'nack':
        return [ev[5], [3, list(ev[1]), m_dig(ev[2]), nack_reason_value(ev[3]), ev[4]]]
    if tag == 'vdone':
        if dies_v2(fe, ev[2]):
            return [ev[4], [7, ev[3]]]        # the validation task dies: no verdict ever (see m_history)
        return [ev[4], [4, ev[1], m_verdict(fe, ev[2]), ev[3]]]
    if tag == 'cancel':
        return [ev[3], [5, ev[1], ev[2]]]
    if tag == 'shutdown':
        return [ev[2], [6, ev[1]]]
    if tag == 'advance':
        return [0, [7, ev[1]]]
    if tag == 'attach':
        return [0, [8, list(ev[1]), ev[2], ev[3]]]
    if tag == 'interest':
        _, k, name, hp, sig, dok, verdict, t = ev
        return [0, [9, k, list(name), hp, sig, dok_true(dok), m_verdict(fe, verdict), t]]
    if tag == 'setdefault':
        return [0, [10, ev[1], ev[2]]]
    if tag == 'scrib':
        return [0, [7, ev[2]]]        # names are values in the model: a rewrite of the caller's buffers only lets time pass
    if tag == 'repr' or tag in DR.HARNESS_TAGS:
        return None
    raise ValueError(tag)


def m_history(fe, h, ctx=None):
    """The history in the model's vocabulary.  An appv2 Data validator that dies (dies_v2) is a validator that never answers:
    its 'vdone' becomes a plain passage of time, and so do the later 'vdone' events of that Interest IF the validator was
    running when it died (the future it waited on is gone; a 'vdone' that comes before the validator was called finds
    nothing to resume, in the driver as in the model, and a later one still counts).  Whether it was running is read off the
    model itself (the validator invocations after the translated prefix) when [ctx] is given; without it: assumed."""
    out = []
    dead = set()          # appv2 Interests whose Data validator died
    for e in h:
        if e[0] == 'vdone' and dies_v2(fe, e[2]):
            if e[1] not in dead:
                if ctx is None or any(x[0] == e[1] for x in ctx.call([1, fe_num(fe), out])[5]):
                    dead.add(e[1])
            out.append([e[4], [7, e[3]]])
        elif e[0] == 'vdone' and e[1] in dead:
            out.append([e[4], [7, e[3]]])
        else:
            if e[0] == 'express' and e[6][0] == 'imm' and dies_v2(fe, e[6][1]):
                dead.add(e[1])
            m = m_event(fe, e)
            if m is not None:          # representation events are harness-level only
                out.append(m)
    return out


def fe_num(fe):
    return 2 if fe == 'v2' else 1


def run_model(ctx, fe, h):
    a = ctx.call([1, fe_num(fe), m_history(fe, h, ctx)])
    log, face_out, errs, pit_nodes, pit_entries, vcalls, refused, hcalls, ivcalls = a
    return {
        'completion': {x[0]: (tuple(x[1]), x[2]) for x in log},
        'log_ids': [x[0] for x in log],
        'sent': len(face_out),
        'errors': list(errs),
        'refused': list(refused),
        'pit_nodes': pit_nodes,
        'pit_entries': len(pit_entries),
        'vcalls': sorted(tuple(x) for x in vcalls),
        'handler_calls': [tuple(x) for x in hcalls],
        'ivcalls': list(ivcalls),
    }


def spec_states(ctx, fe, h, ids):
    """Specification automaton (Spec/ExpressSpec.v, extracted) on the history: id -> state tuple."""
    a = ctx.call([2, fe_num(fe), m_history(fe, h, ctx), list(ids)])
    out = {}
    for i, x in zip(ids, a):
        out[i] = (x[0],) if x[0] in (0, 1) else ((2, x[1]) if x[0] == 2 else (3, tuple(x[1])))
    return out


def canon_impl(fe, obs):
    """Implementation observations in the model's vocabulary."""
    comp = {}
    for i, (kind, payload, t) in obs['completion'].items():
        if kind == 'data':
            o = (0, int(payload.split(b'-')[1]))
        elif kind == 'invalid':
            content, res = payload
            o = (1, int(content.split(b'-')[1]) if content else -1, VR_NAMES.get(res, -1))
        elif kind == 'nack':
            o = (2, payload)
        elif kind == 'timeout':
            o = (3,)
        elif kind == 'cancelled':
            o = (4,)
        else:
            o = (5, payload)
        comp[i] = (o, t)
    return {
        'completion': comp,
        'sent': obs['sent'],
        'errors': [e for e in obs['errors'] if e != ('express', 'NetworkError')],
        'refused': sum(1 for e in obs['errors'] if e == ('express', 'NetworkError')),
        'loop_errors': obs['loop_errors'],
        'pit_nodes': obs['pit_nodes'],
        'pit_entries': obs['pit_entries'],
        'vcalls': sorted((i, -1 if d is None else d) for i, d in obs['vcalls']),
        'handler_calls': [tuple(x) for x in obs['handler_calls']],
        'ivcalls': list(obs['ivcalls']),
        'ivwho': list(obs.get('ivwho', [])),
        'validated_before': obs.get('validated_before', {}),
        'alias_changes': obs.get('alias_changes', []),
        'escaped': list(obs.get('escaped', [])),
    }


def compare(ctx, site, fe, h, m, r):
    """Correspondence: extracted model vs implementation on one history."""
    ok = True

    def bad(what, a, b):
        nonlocal ok
        ok = False
        ctx.disagree(f'{site}[{fe}]', what, {'frontend': fe, 'history': h}, a, b)
    mc = {i: (o if o[0] != 5 else (5,), t) for i, (o, t) in m['completion'].items()}
    rc = {i: (o if o[0] != 5 else (5,), t) for i, (o, t) in r['completion'].items()}
    if mc != rc:
        bad('completions (outcome, virtual time) differ', sorted(mc.items()), sorted(rc.items()))
    elif m['sent'] != r['sent']:
        bad('number of Interests put on the face', m['sent'], r['sent'])
    elif len(m['errors']) != len(r['errors']):
        bad('exceptions escaping _receive', m['errors'], r['errors'])
    elif len(m['refused']) != r['refused']:
        bad('express() refusals', m['refused'], r['refused'])
    elif (m['pit_nodes'], m['pit_entries']) != (r['pit_nodes'], r['pit_entries']):
        bad('PIT size (nodes, entries)', (m['pit_nodes'], m['pit_entries']), (r['pit_nodes'], r['pit_entries']))
    elif m['vcalls'] != r['vcalls']:
        bad('validator invocations', m['vcalls'], r['vcalls'])
    elif m['handler_calls'] != r['handler_calls']:
        bad('handler invocations', m['handler_calls'], r['handler_calls'])
    elif m['ivcalls'] != r['ivcalls']:
        bad('invocations of application-supplied Interest validators', m['ivcalls'], r['ivcalls'])
    return ok


# =================================================================================================
# well-formedness (the quantifier of the theorems) and the direct oracle
# =================================================================================================
# front-ends whose deferred-well-formed histories (is_wf_deferred) are judged by the specification oracle
# (the legacy front-end used to count the lifetime from the first await - docs/C03.md 'Deferred first await', known
# finding C03-v1-lifetime-from-first-await, fixed by 949ef3c; a front-end not listed here is only compared with its model
# and its cases are counted as '<fe>.deferred-await.not-judged' in the evidence)
DEFERRED_ORACLE = ('v2', 'v1')


def is_wf(h):
    """Histories the theorems quantify over: fresh ids, every Express immediately awaited (same time, no tie),
    positive lifetimes, non-decreasing times, nothing expressed after shutdown."""
    seen = set()
    t_last = 0
    shut = False
    k = 0
    while k < len(h):
        ev = h[k]
        tag = ev[0]
        t = (ev[1] if tag == 'advance' else ev[3] if tag == 'attach' else ev[7] if tag == 'interest'
             else ev[2] if tag == 'setdefault' else ev[-2])
        if t < t_last:
            return False
        t_last = t
        if tag == 'express':
            i, life, tie = ev[1], ev[5], ev[8]
            if i in seen or life <= 0 or tie != 0 or shut:
                return False
            seen.add(i)
            if k + 1 >= len(h) or h[k + 1][0] != 'await' or h[k + 1][1] != i or h[k + 1][2] != t or h[k + 1][3] != 0:
                return False
            k += 2
            continue
        if tag == 'await':
            return False
        if tag == 'shutdown':
            shut = True
        k += 1
    return True


def ev_time(ev):
    tag = ev[0]
    return (ev[1] if tag == 'advance' else ev[3] if tag == 'attach' else ev[7] if tag == 'interest'
            else ev[2] if tag == 'setdefault' else ev[-2])


def is_wf_deferred(h, fe='v2'):
    """The deadline clause of the property does not depend on WHEN the caller first awaits what express() returned:
    'with Data iff it matches and arrived before the lifetime ran out, otherwise ... a timeout AT ITS DEADLINE', the
    deadline being express time + lifetime.  A history is *deferred-well-formed* when it is well-formed except that
    the first (only) Await of an Interest may come later than its Express: at a time ta with t <= ta < t + lifetime
    (the awaitable is running strictly before the deadline), any events in between - except that the caller cannot
    cancel an awaitable it has not started (no Cancel i before Await i), and that in the legacy front-end the validator
    of an Interest is called by the awaitable itself, so it cannot answer before the awaitable runs (v1: no VDone i
    before Await i; appv2 validates in a task of its own as soon as the Data is there).  The specification automaton
    ignores Await, so it says what must happen.  (An Await at or after the deadline is the documented 100 ms grace path of appv2 and
    stays outside the oracle.)"""
    seen = {}
    awaited = set()
    t_last = 0
    shut = False
    for ev in h:
        tag = ev[0]
        t = ev_time(ev)
        if t < t_last:
            return False
        t_last = t
        if tag == 'express':
            i, life, tie = ev[1], ev[5], ev[8]
            if i in seen or life <= 0 or tie != 0 or shut:
                return False
            seen[i] = t + life
        elif tag == 'await':
            i = ev[1]
            if i not in seen or i in awaited or ev[3] != 0 or not t < seen[i]:
                return False
            awaited.add(i)
        elif tag == 'cancel' or (tag == 'vdone' and fe == 'v1'):
            if ev[1] in seen and ev[1] not in awaited:
                return False
        elif tag == 'shutdown':
            shut = True
    return awaited == set(seen)


def defer_awaits(h, plan):
    """Metamorphic transformation of a well-formed history: for every Interest i of [plan] the Await that follows its
    Express is moved to time t_express + plan[i] (0 < plan[i] < lifetime), behind every event up to that time (or in
    front of those AT that time when plan[i] is negative: -d means 'd later, before the other events of that
    millisecond').  Interests whose move would put the Await behind a Cancel of that Interest stay as they are.  The
    specification (and the property) give every Interest the same outcome as in the original history."""
    h = list(h)
    for i, d in plan.items():
        k = next((k for k, ev in enumerate(h) if ev[0] == 'express' and ev[1] == i), None)
        if k is None or k + 1 >= len(h) or h[k + 1][0] != 'await' or h[k + 1][1] != i:
            continue
        t, life = h[k][7], h[k][5]
        before = d < 0
        d = abs(d)
        if not 0 < d < life:
            continue
        ta = t + d
        j = k + 2
        while j < len(h) and (ev_time(h[j]) < ta if before else ev_time(h[j]) <= ta):
            j += 1
        if any(ev[0] == 'cancel' and ev[1] == i for ev in h[k + 2:j]):
            continue
        h = h[:k + 1] + h[k + 2:j] + [('await', i, ta, 0)] + h[j:]
    return h


def expressed_ids(h):
    return [ev[1] for ev in h if ev[0] == 'express']


def oracle(ctx, fe, h, r, prop):
    """Direct oracle: the specification automaton evaluated on the history versus what the implementation did."""
    case = {'frontend': fe, 'history': h}
    site = 'appv2.NDNApp' if fe == 'v2' else 'app.NDNApp'
    if r['errors']:
        ctx.violation(site + '._receive', 'internal-error:' + r['errors'][0][1],
                      f'exception escaped _receive: {r["errors"]}', case)
    if r['loop_errors']:
        ctx.violation(site, 'loop-exception-handler', f'loop exception handler called: {r["loop_errors"][:2]}', case)
    if h and r['handler_calls'] and not any(e[0] == 'interest' for e in h):
        # the only packets of this history are Data and Nacks (a Nack carries the application's OWN Interest)
        ctx.violation(site + '._receive', 'nack-or-data-dispatched-as-incoming-interest',
                      f'an Interest handler was called {r["handler_calls"]} although no Interest arrived '
                      f'(the Fragment of a Nack is not an incoming Interest)', case)
    ids = expressed_ids(h)
    if not ids:
        return
    spec = spec_states(ctx, fe, h, ids)
    pending_names = set()
    n_pending = 0
    info = {ev[1]: ev for ev in h if ev[0] == 'express'}
    for i in ids:
        st = spec[i]
        got = r['completion'].get(i)
        if st[0] == 3:
            want = st[1]
            if got is None:
                ctx.violation(site + '.express', f'never-completes:want={want[0]}',
                              f'Interest {i} must complete with {want} but is still pending', case)
            elif got[0][0] == 5:
                ctx.violation(site + '.express', f'internal-error:{got[0][1]}',
                              f'Interest {i} completed with internal error {got[0][1]} instead of {want}', case)
            elif got[0] != want:
                ctx.violation(site + '.express', f'wrong-outcome:want={want[0]}:got={got[0][0]}',
                              f'Interest {i} completed with {got[0]} at {got[1]}, specification says {want}', case)
            elif want == (3,) and got[1] != info[i][7] + info[i][5]:
                # "... a timeout at its deadline": deadline = express time + lifetime, whenever the caller started to
                # await (in the histories judged here the awaitable is running before the deadline)
                ctx.violation(site + '.express', 'timeout-not-at-deadline',
                              f'Interest {i} (expressed at {info[i][7]}, lifetime {info[i][5]}) ended with a timeout at '
                              f'{got[1]}, its deadline is {info[i][7] + info[i][5]}', case)
        else:
            if got is not None:
                ctx.violation(site + '.express', f'spurious-completion:state={st[0]}:got={got[0][0]}',
                              f'Interest {i} completed with {got[0]} while the specification has it {st}', case)
            if st[0] == 1:
                n_pending += 1
                pending_names.add(tuple(info[i][2]))
    if r['pit_entries'] != n_pending or r['pit_nodes'] != len(pending_names):
        ctx.violation(site + '._pit', 'pit-leftover',
                      f'PIT holds {r["pit_nodes"]} nodes / {r["pit_entries"]} entries, '
                      f'specification: {len(pending_names)} / {n_pending} still pending', case)


# =================================================================================================
# generators
# =================================================================================================
A, AB, ABC, X = (0,), (0, 1), (0, 1, 2), (23,)
NAMES = [A, AB, ABC, X]
# every non-empty subset of the lattice, in lattice order (15)
LATTICE_SUBSETS = [[n for b, n in enumerate(NAMES) if m >> b & 1] for m in range(1, 1 << len(NAMES))]
PASS = {'v2': 3, 'v1': 1}
FAILV = {'v2': 0, 'v1': 0}


def verdicts(fe):
    return list(range(6)) if fe == 'v2' else list(range(len(V1_VALUES)))


def ex(i, name, t, life=100, cbp=False, dig=None, vm=None, fe='v2'):
    """Express immediately awaited (the shape the theorems quantify over)."""
    vm = vm if vm is not None else ('imm', PASS[fe])
    return [('express', i, name, cbp, dig, life, vm, t, 0), ('await', i, t, 0)]


def targeted(fe):
    """The patterns of DESIGN §3 C03 'Gen', each in every tie mode where a tie is possible."""
    P, F = PASS[fe], FAILV[fe]
    out = []

    def add(tag, h):
        out.append((tag, h))
    for tie in (0, 1, 2):
        # cancel, then a late Nack / late Data for the same name; a second Interest on the name must still be served
        add('cancel-late-nack', ex(0, A, 0, fe=fe) + ex(1, A, 0, life=300, fe=fe) + [('cancel', 0, 20, 0), ('nack', A, None, 150, 40, tie)])
        add('cancel-late-data', ex(0, A, 0, fe=fe) + ex(1, A, 0, life=300, fe=fe) + [('cancel', 0, 20, 0), ('data', 0, A, 40, tie)])
        add('cancel-alone-late-nack', ex(0, A, 0, fe=fe) + [('cancel', 0, 20, tie), ('nack', A, None, 150, 40, 0)])
        add('cancel-alone-late-data', ex(0, A, 0, fe=fe) + [('cancel', 0, 20, tie), ('data', 0, A, 40, 0)])
        # validator outliving the lifetime, second Interest re-using the name
        add('slow-validator-reuse', ex(0, A, 0, vm=('def',), fe=fe) + [('data', 0, A, 50, 0)] + ex(1, A, 60, life=400, fe=fe)
            + [('advance', 150), ('data', 1, A, 200, tie), ('vdone', 0, P, 250, 0), ('advance', 600)])
        add('slow-validator-alone', ex(0, A, 0, vm=('def',), fe=fe) + [('data', 0, A, 50, 0), ('advance', 150), ('vdone', 0, P, 160, tie)])
        add('validator-at-deadline', ex(0, A, 0, vm=('def',), fe=fe) + [('data', 0, A, 50, 0), ('vdone', 0, P, 100, tie)])
        add('validator-before-deadline', ex(0, A, 0, vm=('def',), fe=fe) + [('data', 0, A, 50, 0), ('vdone', 0, P, 99, tie)])
        add('validator-never', ex(0, A, 0, vm=('def',), fe=fe) + [('data', 0, A, 50, tie), ('advance', 1000)])
        # Data for a prefix with mixed CanBePrefix
        add('prefix-mixed-cbp', ex(0, A, 0, cbp=True, fe=fe) + ex(1, A, 0, cbp=False, fe=fe) + ex(2, AB, 0, cbp=False, fe=fe)
            + ex(3, AB, 0, cbp=True, fe=fe) + ex(4, ABC, 0, cbp=True, fe=fe) + ex(5, X, 0, cbp=True, fe=fe)
            + [('data', 0, AB, 30, tie), ('data', 1, A, 40, 0), ('advance', 500)])
        # timer / packet ties at exactly the deadline
        add('tie-data', ex(0, A, 0, fe=fe) + ex(1, A, 0, life=200, fe=fe) + [('data', 0, A, 100, tie)])
        add('tie-nack', ex(0, A, 0, fe=fe) + ex(1, A, 0, life=200, fe=fe) + [('nack', A, None, 50, 100, tie)])
        add('tie-cancel', ex(0, A, 0, fe=fe) + ex(1, A, 0, life=200, fe=fe) + [('cancel', 0, 100, tie)])
        add('tie-shutdown', ex(0, A, 0, fe=fe) + ex(1, A, 0, life=200, fe=fe) + [('shutdown', 100, tie)])
        add('tie-data-then-reuse', ex(0, A, 0, fe=fe) + [('data', 0, A, 100, tie)] + ex(1, A, 100, fe=fe) + [('data', 1, A, 150, 0)])
        add('tie-fail-verdict', ex(0, A, 0, vm=('def',), fe=fe) + [('data', 0, A, 10, 0), ('vdone', 0, F, 100, tie)])
        # shutdown with validations in flight
        add('shutdown-validating', ex(0, A, 0, vm=('def',), fe=fe) + ex(1, AB, 0, fe=fe) + [('data', 0, A, 30, 0), ('shutdown', 40, tie),
                                                                                         ('vdone', 0, P, 50, 0), ('advance', 300)])
        add('shutdown-validating-never', ex(0, A, 0, vm=('def',), fe=fe) + [('data', 0, A, 30, 0), ('shutdown', 40, tie), ('advance', 300)])
        # implicit digests: Data, Nack
        add('digest-data', ex(0, A, 0, dig=0, fe=fe) + ex(1, A, 0, dig='x', fe=fe) + ex(2, A, 0, fe=fe) + ex(3, A, 0, dig=1, fe=fe)
            + [('data', 0, A, 30, tie), ('data', 1, A, 40, 0), ('advance', 300)])
        add('digest-nack', ex(0, A, 0, dig=0, fe=fe) + ex(1, A, 0, fe=fe) + ex(2, A, 0, dig=1, fe=fe)
            + [('nack', A, None, 50, 20, tie), ('nack', A, 0, 100, 30, 0), ('nack', A, 'x', 150, 40, 0), ('advance', 300)])
        add('digest-prefix', ex(0, A, 0, dig=0, cbp=True, fe=fe) + ex(1, A, 0, dig=0, cbp=False, fe=fe) + [('data', 0, AB, 30, tie), ('advance', 300)])
        # Nack with nothing pending / for a name that is only a prefix or an extension of a pending one
        add('nack-nothing', [('nack', A, None, 50, 10, tie)])
        add('nack-other-names', ex(0, AB, 0, cbp=True, fe=fe) + [('nack', A, None, 50, 10, tie), ('nack', ABC, None, 50, 20, 0), ('nack', AB, None, 50, 30, 0)])
        # two Interests on one name, several Data, duplicates
        add('two-on-one-name', ex(0, A, 0, fe=fe) + ex(1, A, 10, fe=fe) + [('data', 0, A, 20, tie), ('data', 0, A, 30, 0), ('data', 1, A, 40, 0)])
        add('nack-then-data', ex(0, A, 0, fe=fe) + [('nack', A, None, 50, 20, tie), ('data', 0, A, 30, 0)])
        add('data-during-validation', ex(0, A, 0, vm=('def',), fe=fe) + [('data', 0, A, 20, 0), ('data', 1, A, 30, tie), ('nack', A, None, 50, 40, 0),
                                                                          ('vdone', 0, P, 50, 0)])
        add('cancel-during-validation', ex(0, A, 0, vm=('def',), fe=fe) + [('data', 0, A, 20, 0), ('cancel', 0, 30, tie), ('vdone', 0, P, 50, 0)])
    # every Nack reason value / encoding (incl. the falsy ones: NackReason 0 and a Nack header without NackReason):
    # the nacked Interest ends with exactly that reason, at once; its neighbours (same name with a digest, a longer
    # name) stay pending; an application that also serves the prefix never sees its own nacked Interest as incoming
    for k, form in enumerate(NACK_FORMS):
        tie = k % 3
        add('nack-reason', ex(0, A, 0, fe=fe) + ex(1, AB, 0, life=300, fe=fe) + [('nack', A, None, form, 40, 0), ('advance', 500)])
        add('nack-reason-tie', ex(0, A, 0, fe=fe) + ex(1, A, 0, life=200, fe=fe) + [('nack', A, None, form, 100, tie), ('advance', 500)])
        add('nack-reason-digest', ex(0, A, 0, dig=0, fe=fe) + ex(1, A, 0, fe=fe) + [('nack', A, 0, form, 20, tie), ('data', 1, A, 30, 0), ('advance', 500)])
        add('nack-reason-served-prefix', [('attach', A, False, 0), ('attach', AB, True, 0)] + ex(0, AB, 5, fe=fe) + ex(1, ABC, 5, cbp=True, fe=fe)
            + [('nack', AB, None, form, 40, tie), ('nack', ABC, None, form, 50, 0), ('nack', X, None, form, 60, 0), ('advance', 500)])
        add('nack-reason-twice', ex(0, A, 0, fe=fe) + [('nack', A, None, form, 20, 0), ('nack', A, None, 150, 30, 0)] + ex(1, A, 40, fe=fe)
            + [('nack', A, None, NACK_FORMS[(k + 1) % len(NACK_FORMS)], 60, tie)])
        add('nack-reason-validating', ex(0, A, 0, vm=('def',), fe=fe) + [('data', 0, A, 20, 0)] + ex(1, A, 25, life=300, fe=fe)
            + [('nack', A, None, form, 30, tie), ('vdone', 0, P, 50, 0), ('advance', 500)])
    # shutdown family: the face shuts down while Interests are pending on every non-empty subset of the name lattice
    # /a, /a/b, /a/b/c, /x (same, nested and unrelated names; nodes above / between / below already gone): every
    # pending Interest is cancelled AT the shutdown, whatever else is (or was) in the table; Interests that completed
    # before keep their outcome, validations in flight finish with their verdict, later packets change nothing
    for k, S in enumerate(LATTICE_SUBSETS):
        tie = k % 3
        rest = [n for n in NAMES if n not in S]
        # one Interest per name, mixed CanBePrefix, different lifetimes
        h = []
        for j, n in enumerate(S):
            h += ex(j, n, 0, life=200 + 100 * j, cbp=(j + k) % 2 == 1, fe=fe)
        add('shutdown-lattice', h + [('shutdown', 40, 0), ('advance', 1000)])
        # the shutdown falls on the deadline of the Interest on the first / the last name of the subset (all tie modes)
        for pos in (0, len(S) - 1):
            h = []
            for j, n in enumerate(S):
                h += ex(j, n, 0, life=100 if j == pos else 300 + 100 * j, fe=fe)
            for tmode in (0, 1, 2):
                add('shutdown-lattice-tie', h + [('shutdown', 100, tmode), ('advance', 1000)])
        # several Interests per name (plain, CanBePrefix, implicit digest), expressed at different times
        h = []
        i = 0
        for j, n in enumerate(S):
            for (cbp, dig) in ((False, None), (True, None), (False, 'x')):
                h += ex(i, n, 5 * i, life=300, cbp=cbp, dig=dig, fe=fe)
                i += 1
        add('shutdown-lattice-multi', h + [('shutdown', 100, tie), ('advance', 1000)])
        # the other names of the lattice were pending too but are gone (Data / Nack / cancel / timeout, rotating) when the
        # face shuts down: the table has holes above, between and below the pending names
        h = []
        for j, n in enumerate(NAMES):
            h += ex(j, n, 0, life=(20 if n in rest and (NAMES.index(n) + k) % 4 == 3 else 300), fe=fe)
        for n in rest:
            j = NAMES.index(n)
            how = (j + k) % 4
            if how == 0:
                h += [('data', j, n, 10 + j, 0)]
            elif how == 1:
                h += [('nack', n, None, NACK_FORMS[(j + k) % len(NACK_FORMS)], 10 + j, 0)]
            elif how == 2:
                h += [('cancel', j, 10 + j, 0)]
        add('shutdown-lattice-holes', h + [('shutdown', 40, tie), ('advance', 1000)])
        # the other names are validating (their Data arrived, the validator has not answered) at the shutdown; the
        # verdicts come afterwards; packets for the cancelled names arrive after the shutdown
        h = []
        for j, n in enumerate(NAMES):
            h += ex(j, n, 0, life=300, vm=(('def',) if n in rest else None), fe=fe)
        for n in rest:
            h += [('data', NAMES.index(n), n, 10 + NAMES.index(n), 0)]
        h += [('shutdown', 40, tie)]
        for n in rest:
            h += [('vdone', NAMES.index(n), P if (NAMES.index(n) + k) % 2 == 0 else F, 50, 0)]
        for j, n in enumerate(S):
            h += [('data', 10 + j, n, 60 + j, 0), ('nack', n, None, 150, 70 + j, 0)]
        add('shutdown-lattice-validating', h + [('advance', 1000)])
    # every verdict
    for v in verdicts(fe):
        add('verdict-imm', ex(0, A, 0, vm=('imm', v), fe=fe) + [('data', 0, A, 20, 0)])
        add('verdict-def', ex(0, A, 0, vm=('def',), fe=fe) + [('data', 0, A, 20, 0), ('vdone', 0, v, 40, 0)])
    # operational only (outside the theorems' quantifier): late await, await twice, cancel before await
    add('late-await-data', [('express', 0, A, False, None, 100, ('imm', P), 0, 0), ('data', 0, A, 20, 0), ('await', 0, 50, 0)])
    add('late-await-grace', [('express', 0, A, False, None, 100, ('imm', P), 0, 0), ('advance', 150), ('await', 0, 150, 0),
                             ('data', 0, A, 200, 0), ('advance', 400)])
    add('late-await-timeout', [('express', 0, A, False, None, 100, ('imm', P), 0, 0), ('await', 0, 60, 0), ('advance', 400)])
    add('express-after-shutdown', [('shutdown', 10, 0)] + ex(0, A, 20, fe=fe) + [('advance', 300)])
    return out


def deferred_family(fe, full=False):
    """Deferred first await (is_wf_deferred): the coroutine returned by express() starts to run d after the Interest was
    expressed, 0 < d < lifetime.  Outcome and completion time are fixed by express time + lifetime, not by d.
    (1) window table: one Interest (lifetime L, first awaited d later) and a packet (Data / Nack / verdict of a slow
        validator / nothing) at each of D-1, D, D+1, D+d-1, D+d, D+d+1 (D = t + L), the packets AT D and D+d in all
        three tie modes; a second Interest on the same name, awaited at once with a longer lifetime, must be served by
        that packet in every case; variants: CanBePrefix + longer Data name, implicit digest, packet BEFORE the first
        await, several deferred Interests awaited one after the other (the 'express all, then collect' idiom);
    (2) every well-formed targeted pattern of [targeted] with the awaits of its Interests deferred (each one alone by
        1 / half / lifetime-1; all of them together), see defer_awaits."""
    P = PASS[fe]
    out = []

    def add(tag, h):
        if is_wf_deferred(h, fe) and not is_wf(h):
            out.append((tag, h))

    def dex(i, name, t, life, d, cbp=False, dig=None, vm=None):
        vm = vm if vm is not None else ('imm', P)
        return [('express', i, name, cbp, dig, life, vm, t, 0)], [('await', i, t + d, 0)]
    L = 100
    for d in (1, 40, 99):
        D = L
        for off, ties in ((-1, (0,)), (0, (0, 1, 2)), (1, (0,)), (d - 1, (0,)), (d, (0, 1, 2)), (d + 1, (0,))):
            tau = D + off
            for tie in ties:
                for kind in ('data', 'nack', 'verdict', 'data-prefix', 'data-digest'):
                    e, a = dex(0, A, 0, L, d, cbp=(kind == 'data-prefix'), dig=(0 if kind == 'data-digest' else None),
                               vm=(('def',) if kind == 'verdict' else None))
                    other = ex(1, A, 0, life=400, cbp=(kind == 'data-prefix'), fe=fe)
                    h = e + other
                    if kind == 'verdict':
                        # the Data is there in time, the validator answers at tau: V2 puts the deadline on the verdict too
                        mid = [('data', 0, A, 20, 0)] if d > 20 else []
                        h = h + mid + a + ([] if mid else [('data', 0, A, 20, 0)]) + [('vdone', 0, P, tau, tie)]
                    else:
                        pk = {'data': ('data', 0, A, tau, tie), 'data-digest': ('data', 0, A, tau, tie),
                              'data-prefix': ('data', 0, AB, tau, tie), 'nack': ('nack', A, None, 150, tau, tie)}[kind]
                        h = h + a + [pk]
                    add('deferred-window', h + [('advance', 700)])
        # nothing arrives: the timeout is raised at D, not at D + d; a second deferred Interest with another lifetime
        e0, a0 = dex(0, A, 0, L, d)
        e1, a1 = dex(1, AB, 0, 300, d)
        add('deferred-silence', e0 + e1 + a0 + a1 + [('advance', 700)])
        # the packet is there BEFORE the first await (the future is done when the awaitable starts)
        for pk in (('data', 0, A, max(0, d - 1), 0), ('nack', A, None, 0, max(0, d - 1), 0), ('shutdown', max(0, d - 1), 0)):
            e0, a0 = dex(0, A, 0, L, d)
            add('deferred-early-packet', e0 + [pk] + a0 + [('advance', 700)])
    # express all, then collect the results one after the other: the k-th Interest is first awaited when the (k-1)-th
    # finished (at c0); lifetimes just above / well above the waiting time; the Data of the later ones just before / just
    # after their deadline D and just before / after D + (waiting time)
    for c0 in (60, 100):
        for life1 in (c0 + 1, c0 + 50, 400):
            D1 = life1
            for arr in (None, D1 - 1, D1 + 1, D1 + c0 - 1, D1 + c0 + 1):
                for third in (False, True):
                    h = [('express', 0, A, False, None, 300, ('imm', P), 0, 0), ('express', 1, AB, False, None, life1, ('imm', P), 0, 0)]
                    if third:
                        h += [('express', 2, X, True, None, 500, ('imm', P), 0, 0)]
                    h += [('await', 0, 0, 0), ('data', 0, A, c0, 0), ('await', 1, c0, 0)]
                    done1 = arr if arr is not None and arr < D1 else D1
                    tail = [(arr, ('data', 1, AB, arr, 0))] if arr is not None else []
                    if third:
                        # the third result is collected when the second is there; its Data comes just before / after ITS deadline
                        tail += [(done1, ('await', 2, done1, 0)), (499 if arr is None else 501, ('data', 2, X + (5,), 499 if arr is None else 501, 0))]
                    tail.sort(key=lambda x: x[0])
                    add('deferred-collect', h + [e for _, e in tail] + [('advance', 1200)])
    # every well-formed targeted pattern under deferral of its awaits
    n_big = 0
    for tag, h in targeted(fe):
        if not is_wf(h):
            continue
        lifes = {ev[1]: ev[5] for ev in h if ev[0] == 'express'}
        plans = [{i: d} for i, life in lifes.items() for d in (1, life // 2, -(life // 2), life - 1)]
        plans.append({i: life // 2 for i, life in lifes.items()})
        plans.append({i: (1 if k % 2 else life - 1) for k, (i, life) in enumerate(lifes.items())})
        if not full and (tag.startswith('nack-reason') or tag.startswith('shutdown-lattice')):
            # large tables (18 reason forms, 15 lattice subsets): two rotating plans per history in the quick tier
            n_big += 1
            plans = [plans[n_big % len(plans)], plans[-1 - n_big % 2]]
        seen = set()
        for plan in plans:
            g = defer_awaits(h, plan)
            key = repr(g)
            if key in seen:
                continue
            seen.add(key)
            add('deferred.' + tag, g)
    return out


def rand_history_deferred(rng, fe):
    """A random well-formed history with the awaits of a random non-empty subset of its Interests deferred to a time
    inside the lifetime (gravitating to 1, lifetime-1 and the times of the other events)."""
    for _ in range(20):
        h = fix_digest_names(rand_history(rng, fe, wf=True))
        lifes = {ev[1]: (ev[7], ev[5]) for ev in h if ev[0] == 'express'}
        if not lifes:
            continue
        times = sorted({ev_time(ev) for ev in h})
        plan = {}
        for i, (t, life) in lifes.items():
            if rng.random() < 0.6:
                cand = [1, life - 1, life // 2, rng.randint(1, life - 1)] + [x - t for x in times if 0 < x - t < life]
                d = rng.choice(cand)
                plan[i] = -d if rng.random() < 0.3 else d
        g = defer_awaits(h, plan)
        if is_wf_deferred(g, fe) and not is_wf(g):
            return g
    return g


def rand_history(rng, fe, n_int=None, n_ev=None, wf=True):
    """Random history over the name lattice; event times gravitate to deadlines (equal, +-1), ties are frequent."""
    n_int = n_int or rng.randint(1, 6)
    n_ev = n_ev or rng.randint(2, 12)
    h = []
    t = 0
    nxt_i = 0
    nxt_d = 0
    deadlines = []
    deferred = []
    live = []
    datas = []
    shut = False
    dig_pool = [None, None, None, None, 0, 1, 2, 'x']
    int_names = []
    for _ in range(n_ev):
        # time
        k = rng.random()
        cand = [d for d in deadlines if d >= t]
        tie = 0
        if cand and k < 0.27:
            t = rng.choice(cand)
            tie = rng.choice((0, 1, 2))
        elif cand and k < 0.4:
            t = max(t, rng.choice(cand) + rng.choice((-1, 1)))
            tie = rng.choice((0, 0, 1, 2))
        else:
            t += rng.choice((0, 0, 5, 10, 30, 60, 120))
            tie = rng.choice((0, 0, 0, 1, 2))
        # action
        acts = ['data'] * 4 + ['nack'] * 2 + ['advance']
        if nxt_i < n_int and not shut:
            acts += ['express'] * 5
        if deferred:
            acts += ['vdone'] * 3
        if live:
            acts += ['cancel'] * 2
        if not shut:
            acts += ['shutdown'] if rng.random() < 0.3 else []
        a = rng.choice(acts)
        if a == 'express':
            name = rng.choice(NAMES)
            life = rng.choice((50, 100, 100, 200))
            vm = ('def',) if rng.random() < 0.45 else ('imm', rng.choice(verdicts(fe)) if rng.random() < 0.4 else PASS[fe])
            dig = rng.choice(dig_pool)
            if isinstance(dig, int):
                known = dict(datas)
                if dig in known:
                    # the digest of a packet fixes its name; ask for it (or for a prefix of it)
                    name = known[dig] if rng.random() < 0.7 else known[dig][:max(1, len(known[dig]) - 1)]
                elif rng.random() < 0.7:
                    datas.append((dig, name))
            int_names.append(name)
            i = nxt_i
            nxt_i += 1
            if wf or rng.random() < 0.6:
                h += [('express', i, name, rng.random() < 0.5, dig, life, vm, t, 0), ('await', i, t, 0)]
            else:
                h += [('express', i, name, rng.random() < 0.5, dig, life, vm, t, 0)]
                deadlines.append(t + life)
                if rng.random() < 0.8:
                    t2 = t + rng.choice((0, 10, life, life + 50))
                    if fe == 'v1' and t2 == t + life:
                        # the legacy front-end measures on the loop clock (float seconds): a first await at EXACTLY the
                        # deadline is a real-number equality that float rounding decides either way; one millisecond later
                        t2 += 1
                    h += [('await', i, t2, 0)]
                    t = t2
            deadlines.append(t + life)
            live.append(i)
            if vm[0] == 'def':
                deferred.append(i)
        elif a == 'data':
            if datas and rng.random() < 0.2:
                d, name = rng.choice(datas)
            else:
                d = nxt_d if nxt_d < 3 or rng.random() < 0.7 else rng.randint(0, 2)
                if int_names and rng.random() < 0.6:
                    name = rng.choice(int_names)
                    if rng.random() < 0.35:
                        name = name + (rng.choice((1, 2, 5)),)
                else:
                    name = rng.choice(NAMES + [ABC + (5,), AB + (7,)])
                known = dict(datas)
                if d in known:
                    name = known[d]
                else:
                    datas.append((d, name))
                nxt_d = max(nxt_d, d + 1)
            h.append(('data', d, name, t, tie))
        elif a == 'nack':
            h.append(('nack', rng.choice(int_names) if int_names and rng.random() < 0.6 else rng.choice(NAMES),
                      rng.choice(dig_pool), rng.choice(NACK_POOL), t, tie))
        elif a == 'vdone':
            h.append(('vdone', rng.choice(deferred), rng.choice(verdicts(fe)) if rng.random() < 0.5 else PASS[fe], t, tie))
        elif a == 'cancel':
            h.append(('cancel', rng.choice(live), t, tie))
        elif a == 'shutdown':
            h.append(('shutdown', t, tie))
            shut = True
        else:
            h.append(('advance', t))
    if not shut and rng.random() < 0.2:
        # the face shuts down with whatever is pending (often several nested names) still in the table
        if deadlines and rng.random() < 0.3:
            t = max(t, rng.choice(deadlines))
        h.append(('shutdown', t, rng.choice((0, 0, 1, 2))))
    if rng.random() < 0.5:
        h.append(('advance', t + 500))
    # implicit digests refer to data ids: make sure every referenced id has a name
    return h


def fix_digest_names(h):
    """An implicit digest d must be the hash of Data d under ITS name, whether or not that Data ever arrives; a Data
    event re-using an id must carry the same name (one id = one packet)."""
    names = {}
    for ev in h:
        if ev[0] == 'data':
            names.setdefault(ev[1], ev[2])
    out = []
    for ev in h:
        if ev[0] == 'data' and names[ev[1]] != ev[2]:
            ev = ('data', ev[1], names[ev[1]]) + ev[3:]
        out.append(ev)
    return out


class _Diverted:
    """Stands in for ctx while a history of a not-yet-decided defect shape is looked at: oracle failures are collected,
    not reported."""
    def __init__(self, ctx):
        self.ctx = ctx
        self.found = []

    def call(self, req):
        return self.ctx.call(req)

    def violation(self, site, cls, what, case):
        self.found.append((site, cls))


def open_alias_shape(ctx, fe, h, changes):
    """Caller-owned name buffers (harness/props/_namebufs.py).  `changes`: (i, k, name changed, digest changed) - after event
    k the caller's buffers no longer hold the components Interest i was expressed with.  Returns the name of the shape when
    the history is one that shows one of the two aliasing defects of the UNCHANGED library this family found (docs/C03.md,
    'Caller-owned name buffers'; awaiting the integrator's decision), else None:
      digest-in-caller-buffer   Interest i carries an implicit digest, is still PENDING (specification state) after the
                                rewrite and its digest component was rewritten: express_raw_interest keeps
                                Component.get_value(final_name[-1]) - a view of the caller's memory - as the digest to compare
      node-name-in-caller-buffer  Interest i is still PENDING after a rewrite of its name components and ends by its OWN
                                timeout or cancellation (not by Data, Nack or shutdown): the coroutine _wait_for_data looks
                                its table node up again under node_name, which is the caller's list of components
    Everything else - in particular every Interest that is answered by a Data or a Nack, or ends at a shutdown, after the
    rewrite - is judged as usual."""
    if not changes:
        return None
    ids = expressed_ids(h)
    final = spec_states(ctx, fe, h, ids)
    ks = next((k for k, ev in enumerate(h) if ev[0] == 'shutdown'), None)
    before_shut = spec_states(ctx, fe, h[:ks], ids) if ks is not None else None
    for i, k, nc, dc in changes:
        if spec_states(ctx, fe, h[:k + 1], [i])[i][0] != 1:
            continue                      # not in the table any more when its buffer was rewritten
        if dc:
            return 'digest-in-caller-buffer'
        f = final[i]
        if nc and f[0] == 3 and (f[1] == (3,) or (f[1] == (4,) and (before_shut is None or before_shut[i][0] == 3))):
            return 'node-name-in-caller-buffer'
    return None


def check_history(ctx, fe, h, tag, prop, with_oracle=True):
    h = DR.fix_forms(fix_digest_names(h))
    m = run_model(ctx, fe, h)
    r = canon_impl(fe, run_impl(fe, h))
    wf = is_wf(h)
    dwf = not wf and is_wf_deferred(h, fe)
    shape = open_alias_shape(ctx, fe, h, r['alias_changes']) if (wf or dwf) else None
    if shape is not None and not NB.JUDGE_OPEN_SHAPES:
        # a shape that shows an aliasing defect of the unchanged library which is reported but not decided yet: looked at,
        # counted (evidence: '<fe>.buffers.open-shape...'), not judged and not compared with the model
        d = _Diverted(ctx)
        oracle(d, fe, h, r, prop)
        ctx.stat(f'{fe}.buffers.open-shape.{shape}')
        if d.found:
            ctx.stat(f'{fe}.buffers.open-shape.{shape}.oracle-fails')
        return True, m, r
    same = compare(ctx, 'pipeline', fe, h, m, r)
    if len(set(m['log_ids'])) != len(m['log_ids']):
        ctx.disagree('model', 'model completed an Interest twice', {'frontend': fe, 'history': h}, m['log_ids'], None)
    if (wf or (dwf and fe in DEFERRED_ORACLE)) and with_oracle:
        oracle(ctx, fe, h, r, prop)
    elif r['errors'] or r['loop_errors']:
        # no_internal_error holds for every history, well-formed or not
        oracle(ctx, fe, [], r, prop)
        site = 'appv2.NDNApp' if fe == 'v2' else 'app.NDNApp'
        ctx.violation(site + '._receive', 'internal-error:' + str((r['errors'] or r['loop_errors'])[0][1]),
                      f'internal error on a history outside the theorems\' quantifier: {r["errors"]} {r["loop_errors"]}',
                      {'frontend': fe, 'history': h})
    n_int = len(expressed_ids(h))
    ties = sum(1 for e in h if e[0] not in ('advance', 'attach', 'interest', 'setdefault') and e[-1] != 0)
    ctx.case((fe, tuple(map(repr, h))), n_int > 0 and len(h) > 2,
             {'frontend': fe, 'tag': tag, 'history': h, 'model': m['completion'], 'impl': r['completion']},
             f'{fe}.{tag}')
    ctx.stat(f'{fe}.wf' if wf else (f'{fe}.deferred-await' if dwf else f'{fe}.non-wf'))
    if dwf and fe not in DEFERRED_ORACLE:
        ctx.stat(f'{fe}.deferred-await.not-judged')
    ctx.stat(f'{fe}.ties', ties)
    if r['alias_changes']:
        ctx.stat(f'{fe}.buffers.rewritten-while-expressed')
    for i, (o, _) in r['completion'].items():
        ctx.stat(f'{fe}.outcome.{o[0]}')
    return same, m, r


def unjson_case(case):
    """Replay files store tuples as lists and bytes as 'hex:..'."""
    def tup(x):
        if isinstance(x, list):
            return tuple(tup(y) for y in x)
        return x
    return {'frontend': case['frontend'], 'history': [tup(e) for e in case['history']]}
