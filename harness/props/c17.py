"""C17 — prefix registration speaks the forwarder management protocol correctly.

Part A (codec): make_command_v2 / make_command / parse_response of ndn.app_support.nfd_mgmt against
Model/NfdMgmt.v on random keyword sets and random / damaged ControlResponses, plus the direct statements
(the parameters component decodes to exactly the given prefix; the four trailing components of the v1
format; decode(encode(response)) returns the fields).

Part B (protocol): a real NDNApp of either front-end (appv2 + NfdRegister, v1 app) on the virtual-time
loop with a recording face and a scripted clock.  The harness plays the forwarder: it parses every
command Interest that appears on the face and answers per script (status of every class, body present or
absent, damaged content, missing content, bad signature, Nack, silence), with 1..8 concurrent
register/unregister calls, routes declared before/after connecting and reconnections.  The observable log
(calls entered, commands sent, replies and results) is compared with the registration machine of
Model/Registerer.v run with the protocol records the T2 translator extracted from the source, and the
extracted specification automata of Spec/Registration.v are evaluated on the log of the implementation.
"""
import asyncio
import contextvars
import hashlib
import inspect
import struct
import types as pytypes

from harness.lib import gen as G
from harness.lib import tlvdesc as D
from harness.lib import tlvgen as TG
from harness.lib import vtloop
from harness.lib.model import is_err, exc_code
from harness.props import _pipeline as P      # Nack reason forms (value + encoding) shared with C03 / C19

RULE = ('codec: random keyword sets over all 16 ControlParameters fields (values from the C08 generators), module/'
        'command pairs, local/non-local faces, timestamps/nonces incl. 0 and 2^64-1; responses: random legal '
        'ControlResponses (body present/absent/partly filled), single-edit mutants, wrong outer type, truncations, '
        'None. protocol: histories of 10..80 events over {call register/unregister, reply to the i-th outstanding '
        'command (Data with status from every class 0/1xx/200/201..599/2^32, text, body or none; damaged, empty and '
        'missing Content; bad signature; Nack with a reason drawn from every value / encoding a forwarder may send; silence), '
        '1 ms tick, junk packet, route, connect, disconnect}, 1..8 '
        'concurrent calls, 0..3 routes declared before connecting, 1..3 connections, scripted clocks (frozen, +1 per '
        'reading, random 0/1 steps, jumps, repeated readings). Nack-reason family: the reason of a Nack reply is a value AND an '
        'encoding - NackReason 0, a Nack header without NackReason (= reason None), 1, the named 50/100/150 and their '
        'neighbours 49/51/99/101/149/151, width boundaries 255/256/65535/65536/2^32-1/2^32/2^64-1, non-shortest 2/4/8-byte '
        'encodings; half of the random Nack replies carry a reason other than the three named ones; plus a table reason form '
        'x front-end x {register, unregister after a successful register, first of two routes declared before connecting '
        '(the starting task must go on and after_start must run), first and last of three concurrent calls}: the call '
        'returns False without raising and the following commands go out. non-trivial = at least two commands or a non-200 '
        'reply; distinct by hash of (front-end, clock, events). management-model family: for EVERY TlvModel class of '
        'nfd_mgmt found on this run (control parameters, control response, every status dataset: FaceStatus, FaceQueryFilter, '
        'RibStatus/RibEntry/Route, FibStatus, StrategyChoice, CsInfo, GeneralStatus, FaceEventNotification ...; must be the 20 of '
        'Model/NfdMgmt.v nfd_models) values of every field - ordinary fields from the C08 generators (0/255/256/../2^64-1, texts, '
        'names, 1-3 repeated sub-models, absent fields), enumerated fields (T1: val_base_type read off the class on this run; table '
        'compared with Generated/NfdEnums.v) from their protocol domain as the extracted Spec/NfdEnums.domain gives it: every member, '
        'for the bit fields Flags(0x6c)/Mask(0x70) every union of declared bits incl. none (bit field = fact of the wire protocol, '
        'NOT the Python kind of the type), plus unknown neighbours (top+1, top+2, 255, 256, 65535, 65536, 2^32-1, 2^32, 2^64-1); '
        'enumerated: (enumerated field reachable from the class) x (number) x (given as a number / written with the enum type: '
        'member, or members joined with |), plus random values per class. Each value is built by attribute assignment (lists '
        'assigned or appended to), encoded (wire compared with the model), decoded with Cls.parse (stored fields compared with the '
        'model) and EVERY attribute is read by plain attribute access, recursively; numbers compared as int(x.value)/int(x); a bit '
        'field answers MEMBER in obj.flags by its bits; typed_read of the model compared with the implementation on every number. '
        'Oracle: reading never raises and returns the encoded value for every number of the protocol domain (unknown numbers: '
        'refusal with ValueError is counted, stored number compared). command family: every member / every union (both orders) of '
        'RouteFlags -> rib/register, rib/unregister flags; FaceFlags -> faces/create, faces/update flags and mask; FacePersistency -> '
        'faces/create, faces/update, written with the enum types themselves, both command formats: the expression must be buildable '
        'and the parameters component decodes to the prefix and the number')
ASSUMPTIONS = ['asyncio (Semaphore FIFO hand-over, sleep, wait_for, task scheduling) is represented by the event alphabet '
               'of Model/Registerer.v and exercised unmodified on the virtual-time loop',
               'make_interest / Interest signing is not modelled here (C01/C02): the harness checks on the real bytes '
               'that every v2 command parses as a signed Interest with valid parameters digest and signature',
               'SHA-256 is a parameter of the v1 command model; the harness supplies hashlib digests',
               'the clock is an arbitrary stream of readings (theorems: any stream, not even monotone)']

CUR = contextvars.ContextVar('c17_call', default=None)


def num(v):
    return int.from_bytes(v, 'big') if isinstance(v, (bytes, bytearray)) else v


def impl(fn, *a, **kw):
    try:
        return ('ok', fn(*a, **kw))
    except Exception as e:   # noqa
        return ('err', exc_code(e), type(e).__name__)


def norm_val(v):
    """model value sexp -> comparable python (numbers normalised)."""
    v = D.val_of_sexp(v) if isinstance(v, list) else v
    return canon(v)


def canon(v):
    if v is None:
        return None
    k = v[0]
    if k == 'u':
        return ('u', num(v[1]))
    if k in ('b',):
        return ('b', bytes(v[1]))
    if k == 'n':
        return ('n', [bytes(c) for c in v[1]])
    if k == 'm':
        return ('m', [canon(x) for x in v[1]])
    if k == 'l':
        return ('l', [canon(x) for x in v[1]])
    if k == 'd':
        return ('d', [(canon(a), canon(b)) for a, b in v[1]])
    return tuple(v)


# =================================================================================================
# Part A — codec
# =================================================================================================
class FakeFace:
    def __init__(self, local):
        self.local = local

    def isLocalFace(self):
        return self.local


MODCMD = [('rib', 'register'), ('rib', 'unregister'), ('faces', 'create'), ('faces', 'update'), ('faces', 'destroy'),
          ('strategy-choice', 'set'), ('strategy-choice', 'unset'), ('cs', 'config'), ('fib', 'add-nexthop')]


def kwargs_of(cpv_desc, fields, vals):
    from enum import Enum
    kw = {}
    for f, (t, fd), v in zip(fields, cpv_desc[2], vals):
        if v is None:
            continue
        if f.name == 'strategy':
            inner = v[1][0]
            kw['strategy'] = None if inner is None else [bytes(c) for c in inner[1]]
        else:
            kw[f.name] = D.to_py(fd, v)
    return kw


def run_codec(ctx):
    import ndn.utils
    from ndn.app_support import nfd_mgmt
    from ndn.encoding import Name, Component
    rng = ctx.rng
    M = ctx.call
    cls = nfd_mgmt.ControlParametersValue
    cpv = D.reflect_class(cls)
    fields = D.wire_fields(cls)
    has_ts_param = 'command_timestamp' in inspect.signature(nfd_mgmt.make_command).parameters
    o_ts, o_nonce = nfd_mgmt.timestamp, nfd_mgmt.gen_nonce_64
    try:
        for it in range(ctx.n(600, 8000)):
            if rng.random() < 0.4:
                # what register/unregister pass: only the prefix
                vals = [None] * len(fields)
                vals[0] = ('n', G.name_of_tv(G.rand_name_tv(rng, 6)))
                module, command = rng.choice(MODCMD[:2])
            else:
                vals = TG.rand_value(rng, cpv)[1]
                if rng.random() < 0.5:
                    vals = [v if rng.random() < 0.4 else None for v in vals]
                module, command = rng.choice(MODCMD)
            kw = kwargs_of(cpv, fields, vals)
            # a Strategy given with name None encodes as an empty element; the model value is VModel [VNone]
            face = rng.choice([None, FakeFace(True), FakeFace(False)])
            local = True if face is None else face.local
            case = {'module': module, 'command': command, 'local': local, 'vals': vals}
            r = impl(nfd_mgmt.make_command_v2, module, command, face, **kw)
            m = M([1, local, module.encode(), command.encode(), [D.val_sexp(v) for v in vals]])
            ok = cmp_name(ctx, 'make_command_v2', case, m, r)
            nontriv = sum(v is not None for v in vals) >= 1
            ctx.case(('cmd2', module, command, local, repr(vals)), nontriv, case if it < 3 else None, 'make_command_v2')
            if r[0] == 'ok':
                oracle_command_name(ctx, 'make_command_v2', r[1], module, command, local, vals, cpv, case)
            # ---- v1 format ----
            ts = rng.choice([0, 1, 1 << 32, (1 << 64) - 1, rng.getrandbits(41), rng.getrandbits(64)])
            nonce = rng.choice([1, (1 << 64) - 1, rng.getrandbits(64)])
            nfd_mgmt.timestamp = lambda ts=ts: ts
            nfd_mgmt.gen_nonce_64 = lambda nonce=nonce: nonce
            if has_ts_param and rng.random() < 0.5:
                nfd_mgmt.timestamp = lambda: (_ for _ in ()).throw(AssertionError('clock read despite command_timestamp'))
                r1 = impl(nfd_mgmt.make_command, module, command, face, ts, **kw)
            else:
                r1 = impl(nfd_mgmt.make_command, module, command, face, **kw)
            case1 = dict(case, ts=ts, nonce=nonce)
            if r1[0] == 'ok':
                comps = [bytes(c) for c in r1[1]]
                dig = hashlib.sha256(b''.join(comps[:-1])).digest()
                oracle_v1_tail(ctx, comps, ts, nonce, case1)
            else:
                dig = bytes(32)
            m1 = M([2, local, module.encode(), command.encode(), [D.val_sexp(v) for v in vals], ts, nonce, dig])
            cmp_name(ctx, 'make_command', case1, m1, r1)
            ctx.case(('cmd1', module, command, local, repr(vals), ts, nonce), True, None, 'make_command')
    finally:
        nfd_mgmt.timestamp, nfd_mgmt.gen_nonce_64 = o_ts, o_nonce
    run_responses(ctx)
    run_datasets(ctx)
    run_enum_commands(ctx)


def cmp_name(ctx, site, case, m, r):
    if is_err(m):
        if m[1] in (98, 99):
            ctx.disagree(site, 'model bad request / out of fuel', case, m, r[1:])
            return False
        if r[0] == 'ok':
            ctx.disagree(site, 'model raises, implementation returns', case, m, [bytes(c) for c in r[1]])
            return False
        return True
    if r[0] == 'err':
        ctx.disagree(site, 'implementation raises, model returns', case, m, r[1:])
        return False
    a = [bytes(c) for c in m[1]]
    b = [bytes(c) for c in r[1]]
    if a != b:
        ctx.disagree(site, 'different command names', case, a, b)
        return False
    return True


def oracle_command_name(ctx, site, nm, module, command, local, vals, cpv, case):
    """C17_command_names_prefix on the implementation: five components, the fixed prefix, and the last one
    decodes (with the real decoder) to parameters naming exactly the values given."""
    from ndn.app_support import nfd_mgmt
    from ndn.encoding import Name, Component
    comps = [bytes(c) for c in nm]
    want = Name.from_str(f"/{'localhost' if local else 'localhop'}/nfd/{module}/{command}")
    if len(comps) != 5 or comps[:4] != [bytes(c) for c in want]:
        ctx.violation(site, 'command-prefix', 'the command name is not /<scope>/nfd/<module>/<command>/<parameters>', case)
        return
    try:
        cp = nfd_mgmt.ControlParameters.parse(Component.get_value(comps[4]))
        got = D.from_py(cpv, cp.cp)
    except Exception as e:   # noqa
        ctx.violation(site, 'parameters-undecodable', f'the parameters component does not decode: {type(e).__name__}', case)
        return
    exp = ('m', [canon(v) for v in vals])
    if canon(got) != canon_strategy(exp):
        ctx.violation(site, 'parameters-differ', 'the parameters component does not decode to the values given '
                      '(for register/unregister: the prefix)', dict(case, decoded=got))


def canon_strategy(v):
    return canon(v)


def oracle_v1_tail(ctx, comps, ts, nonce, case):
    """C17_command_signed (v1): timestamp, nonce, SignatureInfo, SignatureValue = sha256 of what precedes."""
    from ndn.encoding import Component
    site = 'make_command'
    if len(comps) != 9:
        ctx.violation(site, 'v1-tail-count', f'{len(comps)} components, expected 9', case)
        return
    val = [bytes(Component.get_value(c)) for c in comps]
    typ = [Component.get_type(c) for c in comps]
    if typ[5:] != [8, 8, 8, 8]:
        ctx.violation(site, 'v1-tail-types', 'trailing components are not generic', case)
    if val[5] != struct.pack('!Q', ts):
        ctx.violation(site, 'v1-timestamp', 'the timestamp component is not the 8-byte timestamp', case)
    if val[6] != struct.pack('!Q', nonce):
        ctx.violation(site, 'v1-nonce', 'the nonce component is not the 8-byte nonce', case)
    if val[7] != bytes([0x16, 3, 0x1b, 1, 0]):
        ctx.violation(site, 'v1-siginfo', 'the SignatureInfo component is not DigestSha256', case)
    if val[8] != bytes([0x17, 32]) + hashlib.sha256(b''.join(comps[:8])).digest():
        ctx.violation(site, 'v1-sigvalue', 'the SignatureValue is not the SHA-256 of the preceding components', case)


# ---- responses -----------------------------------------------------------------------------------
def response_dict_values(cpv, fields, ret):
    from enum import Enum
    out = []
    for f, (t, fd) in zip(fields, cpv[2]):
        o = ret[f.name]
        if isinstance(o, Enum):
            o = o.value
        out.append(canon(D.from_py(fd, o)))
    return out


def run_responses(ctx):
    from ndn.app_support import nfd_mgmt
    rng = ctx.rng
    M = ctx.call
    cr = D.reflect_class(nfd_mgmt.ControlResponse)
    cpv = D.reflect_class(nfd_mgmt.ControlParametersValue)
    fields = D.wire_fields(nfd_mgmt.ControlParametersValue)

    def check(buf, case, stratum, expect=None):
        r = impl(nfd_mgmt.parse_response, buf)
        m = M([3, [] if buf is None else [buf]])
        if is_err(m):
            if m[1] in (98, 99):
                ctx.disagree('parse_response', 'model bad request / out of fuel', case, m, r[1:])
            elif r[0] == 'ok':
                ctx.disagree('parse_response', 'model raises, implementation returns', case, m, repr(r[1])[:200])
            return r
        if r[0] == 'err':
            ctx.disagree('parse_response', 'implementation raises, model returns', case, m[1], r[1:])
            return r
        ret = r[1]
        try:
            got = [canon(D.from_py(('uint', None), ret['status_code'])),
                   canon(D.from_py(('bytes', True), ret['status_text'])),
                   response_dict_values(cpv, fields, ret)]
        except Exception as e:   # noqa
            ctx.disagree('parse_response', f'cannot read the returned dict: {type(e).__name__}', case, m[1], repr(ret)[:200])
            return r
        mod = [norm_val(m[1][0]), norm_val(m[1][1]), [norm_val(x) for x in m[1][2]]]
        if got != mod:
            ctx.disagree('parse_response', 'different fields', case, mod, got)
        if expect is not None and got != expect:
            ctx.violation('parse_response', 'response-roundtrip',
                          'decoding an encoded response does not return the fields that were encoded', case)
        return r

    check(None, {'buf': None}, 'none')
    for it in range(ctx.n(500, 10000)):
        v = TG.rand_value(rng, cr)
        vals = v[1]
        if rng.random() < 0.5:
            vals[0] = ('u', rng.choice([200, 200, 400, 403, 404, 409, 500, 0, 255, 256, 65536, 1 << 32]))
        if rng.random() < 0.3:
            vals[2] = None
        if vals[2] is not None and rng.random() < 0.3:
            vals[2] = ('m', [x if rng.random() < 0.3 else None for x in vals[2][1]])
        legal = all(x is None or x[0] != 'u' or x[1] < 1 << 64 for x in flat_uints(vals))
        obj = impl(lambda: bytes(D.to_py(cr, ('m', vals)).encode()))
        mw = M([5] + [D.val_sexp(x) for x in vals])
        case = {'vals': vals}
        if obj[0] == 'ok':
            wire = G.tlv(0x65, obj[1])
            if is_err(mw) or bytes(mw[1]) != wire:
                ctx.disagree('ControlResponse.encode', 'different wire', case, mw, wire)
            exp = [canon(vals[0]), canon(vals[1]),
                   [None] * len(fields) if vals[2] is None else [canon(x) for x in vals[2][1]]]
            check(wire, case, 'valid', exp)
            ctx.case(('resp', repr(vals)), vals[2] is not None, case if it < 2 else None, 'response-valid')
            # damaged responses
            for _ in range(2):
                bad = G.mutate_bytes(rng, wire)
                check(bad, {'wire': bad}, 'mutant')
                ctx.case(('respm', bad), True, None, 'response-mutant')
            if rng.random() < 0.2:
                bad = G.tlv(rng.choice([0x66, 0x64, 0x05, 0x06]), obj[1])
                check(bad, {'wire': bad}, 'wrongtype')
                check(obj[1], {'wire': obj[1]}, 'no-outer')
        elif not is_err(mw) and legal:
            ctx.disagree('ControlResponse.encode', 'implementation raises, model returns', case, mw, obj[1:])


def flat_uints(vals):
    out = []
    for x in vals:
        if x is None:
            continue
        if x[0] == 'u':
            out.append(x)
        elif x[0] == 'm':
            out += flat_uints(x[1])
    return out


# =================================================================================================
# Part A' — every management model / status dataset, used the way an application uses it
# =================================================================================================
# order of [nfd_models] in Model/NfdMgmt.v (= order of Generated/Schemas.v: sorted class names); ops 10/11 take the index
NFD_MODELS = ['ControlParameters', 'ControlParametersValue', 'ControlResponse', 'CsInfo', 'FaceEventNotification',
              'FaceEventNotificationValue', 'FaceQueryFilter', 'FaceQueryFilterValue', 'FaceStatus', 'FaceStatusMsg',
              'FibEntry', 'FibStatus', 'GeneralStatus', 'NextHopRecord', 'RibEntry', 'RibStatus', 'Route', 'Strategy',
              'StrategyChoice', 'StrategyChoiceMsg']
# NFD management protocol: Flags (TLV type 0x6c) and Mask (0x70) are bit fields - every union of the declared bits is a
# value a forwarder sends; every other enumerated field takes exactly one of the declared numbers.  This is a fact of the
# wire protocol and deliberately NOT read off the Python enum type (Flag / Enum) of the run: which of the two the library
# uses for a field is the thing under test.
BITFIELD_TYPES = (0x6c, 0x70)
# names under which a bit field / enumeration of the status datasets is also a control parameter of a command, and the
# commands that carry it (faces/update selects the Flags bits it changes with Mask: same bits)
PARAM_COMMANDS = {'RouteFlags': [('rib', 'register', 'flags'), ('rib', 'unregister', 'flags')],
                  'FaceFlags': [('faces', 'create', 'flags'), ('faces', 'update', 'flags'), ('faces', 'update', 'mask')],
                  'FacePersistency': [('faces', 'create', 'face_persistency'), ('faces', 'update', 'face_persistency')]}


def enum_base(f):
    """T1: the enumeration type of a UintField as declared in the source of this run (None for plain int fields)."""
    from enum import Enum
    b = getattr(f, 'val_base_type', int)
    return b if isinstance(b, type) and issubclass(b, Enum) else None


def member_values(base):
    return sorted({int(m.value) for m in base.__members__.values()})


SPEC = {'call': None, 'domain': {}}     # the extracted specification (Spec/NfdEnums.v [domain]) once the model runs


def ekind_of(base):
    """kind of the Python type as Model/NfdEnums.v names it: 0 Enum, 1 Flag (strict), 2 Flag (KEEP)."""
    import enum
    if issubclass(base, enum.Flag):
        return 2 if getattr(base, '_boundary_', None) is enum.FlagBoundary.KEEP else 1
    return 0


def enum_domain(base, type_num):
    """-> (legal, unknown): the numbers the management protocol defines for the field (members; for a bit field every
    union of the declared bits, 0 included: Spec/NfdEnums.v [domain], evaluated by the extracted specification) and
    neighbouring numbers it does not define."""
    mem = member_values(base)
    key = (type_num, tuple(mem))
    if key not in SPEC['domain']:
        if type_num in BITFIELD_TYPES:
            legal = {0}
            for b in mem:
                legal |= {x | b for x in legal}
        else:
            legal = set(mem)
        if SPEC['call'] is not None:
            r = SPEC['call']([15, type_num, mem])
            spec = {num(x) for x in r[1]} if isinstance(r, list) and len(r) == 2 and not is_err(r) else None
            if spec != legal:
                SPEC['mismatch'] = (key, r)
            if spec:
                legal = spec
        SPEC['domain'][key] = legal
    legal = SPEC['domain'][key]
    top = max(legal)
    cand = [0, top + 1, top + 2, 2 * (top + 1), 255, 256, 65535, 65536, (1 << 32) - 1, 1 << 32, (1 << 64) - 1]
    unknown = []
    for c in cand:
        if c not in legal and c not in unknown:
            unknown.append(c)
    return sorted(legal), unknown


def enum_expr(base, v):
    """the number v written with the enumeration type itself: the member of that value, else the members of its bits
    joined with | (raises what the library raises; LookupError when v has no such spelling)."""
    import functools
    import operator
    by_val = {}
    for m in base.__members__.values():
        by_val.setdefault(int(m.value), m)
    if v in by_val:
        return by_val[v]
    bits = [by_val[b] for b in sorted(by_val) if b and b & (b - 1) == 0 and v & b]
    if not bits or functools.reduce(operator.or_, [int(m.value) for m in bits]) != v:
        raise LookupError(v)
    return functools.reduce(operator.or_, bits)


def plain_int(o):
    from enum import Enum
    return int(o.value) if isinstance(o, Enum) else int(o)


class DatasetGen:
    """values of a management model: ordinary fields from the C08 generators (legal range), enumerated fields from their
    protocol domain; [pin] forces one (class, field) to one number."""
    def __init__(self, rng, pin=None, p_unknown=0.12, presence=0.75):
        self.rng, self.pin, self.p_unknown, self.presence = rng, pin, p_unknown, presence
        self.pinned = False
        self.enum_fields = []      # (class name, field name, base, number) in generation order

    def model(self, cls):
        return ('m', [self.field(cls, f, D.reflect_field(f)[1], self.presence) for f in D.wire_fields(cls)])

    def field(self, cls, f, fd, presence):
        rng = self.rng
        pinned_here = self.pin is not None and self.pin[:2] == (cls.__name__, f.name)
        if rng.random() > presence and not pinned_here:
            return None
        k = fd[0]
        if k == 'uint':
            base = enum_base(f)
            if base is not None:
                if pinned_here:
                    n = self.pin[2]
                    self.pinned = True
                else:
                    legal, unknown = enum_domain(base, f.type_num)
                    n = rng.choice(unknown) if rng.random() < self.p_unknown else rng.choice(legal)
                if fd[1] is not None:
                    n %= 256 ** fd[1]
                self.enum_fields.append((cls.__name__, f.name, base, n))
                return ('u', n)
            n = TG.rand_value(rng, fd)[1]
            return ('u', n if n < 1 << 64 else (1 << 64) - 1)
        if k == 'model':
            return self.model(f.model_type)
        if k == 'rep':
            et = f.element_type
            return ('l', [self.field(cls, et, fd[1], 1.0) if fd[1][0] != 'model' else self.model(et.model_type)
                          for _ in range(rng.choice([1, 1, 2, 3]))])
        if k == 'map':
            v = TG.rand_value(rng, fd)
            return v
        return TG.rand_value(rng, fd)


def build_api(cls, v, as_enum, rng):
    """the object an application builds: plain attribute assignment (lists assigned or appended to), enumerated fields
    given as numbers or, where [as_enum], written with the enumeration type."""
    obj = cls()
    for f, fv in zip(D.wire_fields(cls), v[1]):
        if fv is None:
            continue
        fd = D.reflect_field(f)[1]
        k = fd[0]
        if k == 'rep':
            items = [api_value(f.element_type, fd[1], x, as_enum, rng) for x in fv[1]]
            if rng.random() < 0.5:
                setattr(obj, f.name, items)
            else:
                for x in items:
                    getattr(obj, f.name).append(x)
        else:
            setattr(obj, f.name, api_value(f, fd, fv, as_enum, rng))
    return obj


def api_value(f, fd, fv, as_enum, rng):
    k = fd[0]
    if k == 'uint':
        base = enum_base(f)
        if base is not None and as_enum and fv[1] in enum_domain(base, f.type_num)[0]:
            # a number the protocol defines has a spelling: a member, or for a bit field members joined with |
            # (an exception of the library while spelling it is the caller's 'dataset-unbuildable')
            try:
                return enum_expr(base, fv[1])
            except LookupError:
                return fv[1]
        return fv[1]
    if k == 'model':
        return build_api(f.model_type, fv, as_enum, rng)
    return D.to_py(fd, fv)


class Unreadable:
    def __init__(self, exc, stored):
        self.exc, self.stored = exc, stored


def read_api(cls, obj, path, out):
    """what an application reads off a decoded object by plain attribute access, as a model value; every read that
    raises is put into [out] as (owner class, field, path, exception, stored number)."""
    vals = []
    for f in D.wire_fields(cls):
        fd = D.reflect_field(f)[1]
        here = f'{path}.{f.name}'
        try:
            o = getattr(obj, f.name)
        except Exception as e:   # noqa
            stored = obj.__dict__.get(f.name)
            out.append((cls.__name__, f.name, here, e, stored))
            vals.append(('unreadable', type(e).__name__))
            continue
        vals.append(read_value(f, fd, o, here, out))
    return ('m', vals)


def read_value(f, fd, o, path, out):
    k = fd[0]
    if o is None:
        return None
    if k == 'uint':
        return ('u', plain_int(o))
    if k == 'model':
        return read_api(f.model_type, o, path, out)
    if k == 'rep':
        if not len(o):
            return None
        return ('l', [read_value(f.element_type, fd[1], x, f'{path}[{i}]', out) for i, x in enumerate(o)])
    return D.from_py(fd, o)


def value_diff(cls, given, got, path):
    """first field (owner class, field, path, given, got) on which two model values differ."""
    for f, a, b in zip(D.wire_fields(cls), given[1], got[1]):
        fd = D.reflect_field(f)[1]
        here = f'{path}.{f.name}'
        if fd[0] == 'model' and a is not None and b is not None and b[0] == 'm':
            d = value_diff(f.model_type, a, b, here)
            if d:
                return d
        elif fd[0] == 'rep' and fd[1][0] == 'model' and a is not None and b is not None and b[0] == 'l' \
                and len(a[1]) == len(b[1]):
            for i, (x, y) in enumerate(zip(a[1], b[1])):
                d = value_diff(f.element_type.model_type, x, y, f'{here}[{i}]') if y is not None and y[0] == 'm' else \
                    (cls.__name__, f.name, here, x, y)
                if d:
                    return d
        elif canon(a) != canon(b):
            return (cls.__name__, f.name, here, a, b)
    return None


def check_dataset(ctx, k, cls, v, as_enum, gen, stratum):
    """encode -> decode -> read every attribute: C17_dataset_parse_wire on the implementation, at the level of what the
    application gives and reads (numbers of enumerated fields compared as plain integers)."""
    rng = ctx.rng
    M = ctx.call
    name = cls.__name__
    case = {'model': name, 'fields': v[1], 'enumerated_given_as': 'members of the enum type' if as_enum else 'numbers'}
    legal_case = all(n in enum_domain(b, field_type(c, fn))[0] for c, fn, b, n in gen.enum_fields)
    ctx.case(('dataset', name, repr(v), as_enum), True, None, f'dataset:{name}')
    ctx.stat('dataset:' + stratum)
    # -- encode
    try:
        wire = bytes(build_api(cls, v, as_enum, rng).encode())
    except Exception as e:   # noqa
        ctx.violation(f'nfd_mgmt.{name}', 'dataset-unbuildable',
                      f'building / encoding the dataset from the given fields raised {type(e).__name__}: {e}'[:300], case)
        return
    mw = M([10, k, [D.val_sexp(x) for x in v[1]]])
    if is_err(mw) or bytes(mw[1]) != wire:
        ctx.disagree(f'{name}.encode', 'different wire', case, mw, wire)
    case['wire'] = wire
    # -- decode
    try:
        obj = cls.parse(wire)
    except Exception as e:   # noqa
        ctx.violation(f'nfd_mgmt.{name}', 'dataset-undecodable',
                      f'{name}.parse of the encoded dataset raised {type(e).__name__}: {e}'[:300], case)
        return
    mp = M([11, k, wire])
    stored = D.from_py(D.reflect_class(cls), obj)
    if is_err(mp) or ('m', [norm_val(x) for x in mp[1]]) != canon(stored):
        ctx.disagree(f'{name}.parse', 'different stored fields', case, mp, stored)
    # -- read every attribute
    unread = []
    try:
        got = read_api(cls, obj, name, unread)
    except Exception as e:   # noqa
        ctx.violation(f'nfd_mgmt.{name}', 'dataset-unreadable', f'walking the decoded object raised {type(e).__name__}: {e}'[:300], case)
        return
    for owner, fname, path, e, st in unread:
        f = next(x for x in D.wire_fields(getattr(__import__('ndn.app_support.nfd_mgmt', fromlist=['x']), owner)) if x.name == fname)
        base = enum_base(f)
        known = base is None or st in enum_domain(base, f.type_num)[0]
        if known or not isinstance(e, ValueError):
            ctx.violation(f'{owner}.{fname}', 'attribute-unreadable',
                          f'reading {path} of the decoded {name} raised {type(e).__name__}: {e}'.replace('\n', ' ')[:300] +
                          f' (encoded number {st}, a value the management protocol defines for this field)', case)
        else:
            # a number the protocol does not define (yet): the typed attribute refuses it with ValueError on the library as
            # found; recorded, the stored number is compared instead (see docs/C17.md, "unknown numbers")
            ctx.stat(f'unknown-number-refused:{base.__name__}')
    # model of the typed read (Model/NfdEnums.v typed_read on the type found on this run) vs the implementation
    for owner, fname, base, n in sorted(set(gen.enum_fields), key=repr):
        raised = any(u[0] == owner and u[1] == fname and u[4] == n for u in unread)
        mr = M([14, ekind_of(base), member_values(base), n])
        if is_err(mr) != raised or (not is_err(mr) and num(mr[1]) != n):
            ctx.disagree(f'{owner}.{fname}', 'typed read of an enumerated field: model and implementation differ',
                         {'model': name, 'type': base.__name__, 'number': n}, mr, 'raises' if raised else 'returns')
    if unread:
        got = patch_unreadable(cls, got, obj)
    d = value_diff(cls, ('m', v[1]), got, name)
    if d is not None:
        owner, fname, path, a, b = d
        ctx.violation(f'{owner}.{fname}', 'attribute-differs',
                      f'{path} of the decoded {name} reads {b!r}, encoded {a!r}'[:300], case)
    if as_enum:
        check_flag_tests(ctx, cls, obj, case)
    return legal_case


def field_type(cname, fname):
    from ndn.app_support import nfd_mgmt
    return next(x.type_num for x in D.wire_fields(getattr(nfd_mgmt, cname)) if x.name == fname)


def patch_unreadable(cls, got, obj):
    """replace the attributes that could not be read by the stored numbers (for the comparison of the other fields)."""
    vals = []
    for f, g in zip(D.wire_fields(cls), got[1]):
        fd = D.reflect_field(f)[1]
        o = obj.__dict__.get(f.name)
        if g is not None and g[0] == 'unreadable':
            vals.append(D.from_py(fd, o))
        elif g is not None and fd[0] == 'model' and o is not None:
            vals.append(patch_unreadable(f.model_type, g, o))
        elif g is not None and fd[0] == 'rep' and fd[1][0] == 'model' and o:
            vals.append(('l', [patch_unreadable(f.element_type.model_type, x, y) for x, y in zip(g[1], o)]))
        else:
            vals.append(g)
    return ('m', vals)


def check_flag_tests(ctx, cls, obj, case):
    """a bit field read off the decoded object answers the membership test an application writes (MEMBER in obj.flags)
    according to the encoded bits."""
    for f in D.wire_fields(cls):
        fd = D.reflect_field(f)[1]
        o = obj.__dict__.get(f.name)
        if fd[0] == 'model' and o is not None:
            check_flag_tests(ctx, f.model_type, o, case)
        elif fd[0] == 'rep' and fd[1][0] == 'model' and o:
            for x in o:
                check_flag_tests(ctx, f.element_type.model_type, x, case)
        elif fd[0] == 'uint' and enum_base(f) is not None and f.type_num in BITFIELD_TYPES and o is not None:
            base = enum_base(f)
            if o not in enum_domain(base, f.type_num)[0]:
                continue
            for m in base.__members__.values():
                b = int(m.value)
                if not b or b & (b - 1):
                    continue
                try:
                    r = m in getattr(obj, f.name)
                except Exception:   # noqa  (unreadable: reported by the caller) / not a container: reported here
                    try:
                        getattr(obj, f.name)
                    except Exception:   # noqa
                        break
                    ctx.violation(f'{cls.__name__}.{f.name}', 'flag-test-raises',
                                  f'{base.__name__}.{m.name} in <decoded {cls.__name__}>.{f.name} raises (encoded {o})', case)
                    break
                if bool(r) != bool(o & b):
                    ctx.violation(f'{cls.__name__}.{f.name}', 'flag-test-wrong',
                                  f'{base.__name__}.{m.name} in <decoded {cls.__name__}>.{f.name} is {r}, encoded number {o}', case)


def enum_field_sites(cls, seen=None):
    """(owner class, field) of every enumerated field reachable from cls."""
    out = []
    for f in D.wire_fields(cls):
        fd = D.reflect_field(f)[1]
        if fd[0] == 'uint' and enum_base(f) is not None:
            out.append((cls, f))
        elif fd[0] == 'model':
            out += enum_field_sites(f.model_type)
        elif fd[0] == 'rep' and fd[1][0] == 'model':
            out += enum_field_sites(f.element_type.model_type)
    return out


def run_datasets(ctx):
    import inspect as I
    from ndn.app_support import nfd_mgmt
    from ndn.encoding.tlv_model import TlvModel
    rng = ctx.rng
    found = sorted(n for n, c in vars(nfd_mgmt).items()
                   if I.isclass(c) and issubclass(c, TlvModel) and c is not TlvModel and c.__module__ == nfd_mgmt.__name__)
    nm = ctx.call([12])
    if found != NFD_MODELS or num(nm) != len(NFD_MODELS):
        ctx.disagree('nfd_models', 'the management models of nfd_mgmt.py are not the ones listed in Model/NfdMgmt.v',
                     {}, [NFD_MODELS, nm], found)
    SPEC['call'], SPEC['domain'] = ctx.call, {}
    SPEC.pop('mismatch', None)
    # the table of enumerated fields the theorems are about (Generated/NfdEnums.v) is the one reflected on this run
    mine = []
    for k, name in enumerate(NFD_MODELS):
        c = getattr(nfd_mgmt, name, None)
        for f in (D.wire_fields(c) if c is not None else []):
            if D.reflect_field(f)[1][0] == 'uint' and enum_base(f) is not None:
                mine.append((k, f.type_num, ekind_of(enum_base(f)), tuple(member_values(enum_base(f)))))
    tab = ctx.call([13])
    theirs = [(num(r[0]), num(r[1]), num(r[2]), tuple(num(x) for x in r[3])) for r in tab] if isinstance(tab, list) else tab
    if theirs != mine:
        ctx.disagree('nfd_enum_fields', 'the table of enumerated fields of Generated/NfdEnums.v is not the one reflected on this run',
                     {}, theirs, mine)
    for k, name in enumerate(NFD_MODELS):
        cls = getattr(nfd_mgmt, name, None)
        if cls is None:
            continue
        # (1) every enumerated field reachable from the class x every number of its protocol domain (and the
        #     neighbouring unknown numbers) x given as a number / written with the enum type
        for owner, f in enum_field_sites(cls):
            legal, unknown = enum_domain(enum_base(f), f.type_num)
            for n in legal + unknown:
                for as_enum in (False, True):
                    if as_enum and n not in legal:
                        continue
                    for _ in range(20):
                        g = DatasetGen(rng, pin=(owner.__name__, f.name, n), p_unknown=0.0, presence=0.85)
                        v = g.model(cls)
                        if g.pinned:
                            break
                    else:
                        continue
                    check_dataset(ctx, k, cls, v, as_enum, g, 'enumerated-' + ('legal' if n in legal else 'unknown'))
        # (2) random and boundary values of every field
        for it in range(ctx.n(25, 500)):
            g = DatasetGen(rng, presence=rng.choice([0.3, 0.75, 1.0]))
            v = g.model(cls)
            check_dataset(ctx, k, cls, v, rng.random() < 0.5, g, 'random')
    if 'mismatch' in SPEC:
        ctx.disagree('Spec.NfdEnums.domain', 'the extracted protocol domain differs from the harness computation', {},
                     SPEC['mismatch'][1], SPEC['mismatch'][0])


def run_enum_commands(ctx):
    """commands whose parameters are written with the enumeration types of the status datasets: every member and, for
    the bit fields, every union of members built with |; both command formats."""
    import functools
    import operator
    from ndn.app_support import nfd_mgmt
    from ndn.encoding import Name
    rng = ctx.rng
    M = ctx.call
    cls = nfd_mgmt.ControlParametersValue
    cpv = D.reflect_class(cls)
    fields = D.wire_fields(cls)
    idx = {f.name: i for i, f in enumerate(fields)}
    bases = {}
    for name in NFD_MODELS:
        c = getattr(nfd_mgmt, name, None)
        for owner, f in (enum_field_sites(c) if c is not None else []):
            bases.setdefault(enum_base(f).__name__, (enum_base(f), f.type_num))
    o_ts, o_nonce = nfd_mgmt.timestamp, nfd_mgmt.gen_nonce_64
    nfd_mgmt.timestamp, nfd_mgmt.gen_nonce_64 = (lambda: 7), (lambda: 9)
    try:
        for bname, (base, tnum) in sorted(bases.items()):
            cmds = PARAM_COMMANDS.get(bname)
            if not cmds:
                continue
            single = {}
            for m in base.__members__.values():
                single.setdefault(int(m.value), m)
            bits = [b for b in sorted(single) if b and b & (b - 1) == 0]
            exprs = [((m.name,), int(m.value), (lambda m=m: m)) for m in single.values()]
            if tnum in BITFIELD_TYPES:
                for mask in range(1, 1 << len(bits)):
                    sel = [bits[i] for i in range(len(bits)) if mask >> i & 1]
                    if len(sel) < 2:
                        continue
                    for order in (sel, sel[::-1]):
                        exprs.append((tuple(single[b].name for b in order), functools.reduce(operator.or_, order),
                                      (lambda order=order: functools.reduce(operator.or_, [single[b] for b in order]))))
            for names, number, build in exprs:
                text = ' | '.join(f'{bname}.{n}' for n in names)
                for module, command, kwname in cmds:
                    prefix = G.name_of_tv(G.rand_name_tv(rng, 4))
                    face = rng.choice([None, FakeFace(True), FakeFace(False)])
                    local = True if face is None else face.local
                    vals = [None] * len(fields)
                    vals[idx['name']] = ('n', prefix)
                    vals[idx[kwname]] = ('u', number)
                    case = {'module': module, 'command': command, 'local': local, 'vals': vals, 'written_as': f'{kwname}={text}'}
                    ctx.case(('enumcmd', module, command, kwname, text), True, None, 'command-enum-parameter')
                    if len(names) == 2:
                        a, b = [int(base.__members__[n].value) for n in names]
                        mj = M([16, ekind_of(base), a, b])
                        rj = impl(build)
                        if is_err(mj) != (rj[0] == 'err') or (not is_err(mj) and num(mj[1]) != plain_int(rj[1])):
                            ctx.disagree(f'nfd_mgmt.{bname}', 'A | B: model and implementation differ', {'written_as': text}, mj, rj[:1])
                    try:
                        arg = build()
                    except Exception as e:   # noqa
                        ctx.violation(f'nfd_mgmt.{bname}', 'flag-combination',
                                      f'{text} raises {type(e).__name__}: {e}'[:300] + f' (a {module}/{command} command with '
                                      f'{kwname}={number} cannot be written with the enumeration type)', case)
                        continue
                    kw = {'name': [bytes(c) for c in prefix], kwname: arg}
                    m = M([1, local, module.encode(), command.encode(), [D.val_sexp(v) for v in vals]])
                    r = impl(nfd_mgmt.make_command_v2, module, command, face, **kw)
                    cmp_name(ctx, 'make_command_v2', case, m, r)
                    if r[0] == 'ok':
                        oracle_command_name(ctx, 'make_command_v2', r[1], module, command, local, vals, cpv, case)
                    else:
                        ctx.violation('make_command_v2', 'enum-parameter-refused',
                                      f'make_command_v2 raised {r[2]} for {kwname}={text}', case)
                    r1 = impl(nfd_mgmt.make_command, module, command, face, **kw)
                    if r1[0] == 'ok':
                        comps = [bytes(c) for c in r1[1]]
                        oracle_v1_tail(ctx, comps, 7, 9, dict(case, ts=7, nonce=9))
                        oracle_command_name(ctx, 'make_command', comps[:5], module, command, local, vals, cpv, case)
                    else:
                        ctx.violation('make_command', 'enum-parameter-refused',
                                      f'make_command raised {r1[2]} for {kwname}={text}', case)
    finally:
        nfd_mgmt.timestamp, nfd_mgmt.gen_nonce_64 = o_ts, o_nonce


# =================================================================================================
# Part B — protocol
# =================================================================================================
def nack_reply(form):
    """reply event for a Nack with the given reason form of harness/props/_pipeline.py (int | ('absent',) | ('wide', r, w))."""
    if isinstance(form, (tuple, list)):
        return [1, 0, 1] if form[0] == 'absent' else [1, form[1], form[2]]
    return [1, form, 0]


def nack_form(r):
    if len(r) < 3:
        return r[1] if len(r) == 2 else 150
    return r[1] if r[2] == 0 else (('absent',) if r[2] == 1 else ('wide', r[1], r[2]))


def model_reply(r):
    """what the model / specification sees of a reply: for a Nack the reason VALUE (the encoding is below the decoded
    level: RNack reason in Model/Registerer.v)."""
    return [1, P.nack_reason_value(nack_form(r))] if r[0] == 1 else r


def model_events(evs):
    return [[1, e[1], model_reply(e[2])] if e[0] == 1 else e for e in evs]


def nack_class(form):
    v = P.nack_reason_value(form)
    return 'nack' if v in (50, 100, 150) else ('nack-reason-none' if v == 0 else 'nack-reason-unassigned')


# the named reasons' neighbours (unassigned codes next to assigned ones) on top of the shared forms
C17_NACK_FORMS = P.NACK_FORMS + [49, 51, 99, 101, 149, 151]
C17_NACK_POOL = P.NACK_POOL + [151, 49, 101]


class Clock:
    def __init__(self, readings, step):
        self.r = list(readings)
        self.step = step
        self.i = 0

    def __call__(self):
        i = self.i
        self.i += 1
        if i < len(self.r):
            return self.r[i]
        return self.r[-1] + self.step * (i - len(self.r) + 1)


class UtilsProxy:
    """ndn.utils as seen by nfd_registerer: timestamp() is the scripted clock, everything else is real."""
    def __init__(self, real, clock):
        self._real = real
        self.timestamp = clock

    def __getattr__(self, k):
        return getattr(self._real, k)


def make_face(loop, local):
    from ndn.transport.face import Face

    class RecFace(Face):
        def __init__(self):
            super().__init__()
            self.closed = None
            self.on_send = None

        async def open(self):
            self.running = True
            self.closed = loop.create_future()

        def shutdown(self):
            self.running = False
            if self.closed is not None and not self.closed.done():
                self.closed.set_result(None)

        def send(self, data):
            self.on_send(bytes(data))

        async def run(self):
            await self.closed

        def isLocalFace(self):
            return local
    return RecFace()


class World:
    def __init__(self, ctx, fe, readings, step, local=True):
        import ndn.utils
        from ndn import appv2, app as appv1
        from ndn.transport import nfd_registerer
        from ndn.app_support import nfd_mgmt
        import ndn.security.signer.sha256_digest_signer as sds
        self.ctx = ctx
        self.fe = fe
        self.local = local
        self.loop = vtloop.new_loop()
        self.clock = Clock(readings, step)
        self.saved = [(ndn.utils, 'timestamp', ndn.utils.timestamp), (nfd_registerer, 'utils', nfd_registerer.utils),
                      (nfd_mgmt, 'timestamp', nfd_mgmt.timestamp), (sds, 'timestamp', sds.timestamp)]
        ndn.utils.timestamp = self.loop.now_ms
        nfd_registerer.utils = UtilsProxy(nfd_registerer.utils if not isinstance(nfd_registerer.utils, UtilsProxy)
                                          else nfd_registerer.utils._real, self.clock)
        nfd_mgmt.timestamp = self.clock
        sds.timestamp = self.clock
        if hasattr(appv1, 'timestamp'):
            self.saved.append((appv1, 'timestamp', appv1.timestamp))
            appv1.timestamp = self.clock
        self.face = make_face(self.loop, local)
        self.face.on_send = self.on_send
        if fe == 2:
            self.app = appv2.NDNApp(face=self.face, registerer=nfd_registerer.NfdRegister())
            reg = self.app.registerer
            o_r, o_u = reg.register, reg.unregister
            reg.register = lambda name: self.wrapped(0, name, lambda: o_r(name))
            reg.unregister = lambda name: self.wrapped(1, name, lambda: o_u(name))
        else:
            self.app = appv1.NDNApp(face=self.face, keychain=object())
            o_r, o_u = self.app.register, self.app.unregister
            self.app.register = lambda name, func=None, *a, **kw: self.wrapped(0, name, lambda: o_r(name, func, *a, **kw))
            self.app.unregister = lambda name: self.wrapped(1, name, lambda: o_u(name))
        self.log = []
        self.next_id = 0
        self.done = {}
        self.reply_of = {}
        self.nack_of = {}          # call -> reason form of the Nack that answered its command
        self.outstanding = []      # dicts: call, wire, name, sent_at
        self.answered = []
        self.connected = False
        self.started = False
        self.ml = None
        self.tasks = []
        self.notes = []
        self.raised_in_receive = 0
        self.errors = []
        self.after_coro = None

    # -- observation ------------------------------------------------------------------------------
    async def wrapped(self, k, name, thunk):
        from ndn.encoding import Name
        cid = self.next_id
        self.next_id += 1
        nm = [bytes(c) for c in Name.normalize(name)]
        t = asyncio.current_task()
        auto = 'starting_task' in getattr(t.get_coro(), '__qualname__', '')
        self.log.append([0, cid, k, nm, auto])
        tok = CUR.set(cid)
        try:
            r = await thunk()
        except asyncio.CancelledError:
            raise
        except Exception as e:   # noqa
            out = [0, exc_code(e)]
            self.notes.append(f'call {cid} raised {type(e).__name__}')
            self.log.append([2, cid, self.reply_of.get(cid, [2]), out])
            self.done[cid] = out
            raise
        finally:
            CUR.reset(tok)
        out = [1, bool(r)] if isinstance(r, bool) else [0, 5]
        self.log.append([2, cid, self.reply_of.get(cid, [2]), out])
        self.done[cid] = out
        return r

    def on_send(self, wire):
        from ndn.encoding import parse_interest, Component, Name
        from ndn.app_support import nfd_mgmt
        cid = CUR.get()
        info = {'call': cid, 'wire': wire, 'sent_at': self.loop.time()}
        try:
            name, param, app_param, sig = parse_interest(wire)
            comps = [bytes(c) for c in name]
            info['name'] = comps
            info['lifetime'] = param.lifetime if param.lifetime is not None else 4000
            base = 5
            verb = bytes(Component.get_value(comps[3])).decode()
            cp = nfd_mgmt.ControlParameters.parse(Component.get_value(comps[4]))
            prefix = [bytes(c) for c in cp.cp.name]
            if self.fe == 2:
                ts = sig.signature_info.signature_time if sig.signature_info is not None else None
                self.check_signed_v2(wire, name, param, app_param, sig, comps)
            else:
                ts = struct.unpack('!Q', bytes(Component.get_value(comps[5])))[0]
                self.check_signed_v1(comps)
            kind = {'register': 0, 'unregister': 1}.get(verb)
            scope = bytes(Component.get_value(comps[0])).decode()
            if kind is None or comps[1] != b'\x08\x03nfd' or comps[2] != b'\x08\x03rib' or \
                    scope != ('localhost' if self.local else 'localhop') or ts is None:
                self.violation('command-shape', f'not a rib/register|unregister command: {Name.to_str(name)}')
                kind = kind or 0
            self.log.append([1, cid if cid is not None else 9999, kind, prefix, ts if ts is not None else 0])
        except Exception as e:   # noqa
            self.violation('command-unparseable', f'the packet on the face is not a parseable command: {type(e).__name__}: {e}')
            info['name'] = None
        self.outstanding.append(info)

    def site(self, kind=None):
        base = 'NfdRegister' if self.fe == 2 else 'NDNApp(v1)'
        return base + ('' if kind is None else ('.register' if kind == 0 else '.unregister'))

    def violation(self, cls, what):
        self.viol.append((self.site(), cls, what))

    viol = None

    def check_signed_v2(self, wire, name, param, app_param, sig, comps):
        """the command is a signed Interest with a valid parameters digest and a DigestSha256 signature."""
        from ndn.security import params_sha256_checker, sha256_digest_checker
        from ndn.encoding import Component, SignatureType
        if app_param is None or sig.signature_info is None:
            self.violation('v2-not-signed', 'the command Interest has no ApplicationParameters / SignatureInfo')
            return
        if len(comps) != 6 or Component.get_type(comps[5]) != Component.TYPE_PARAMETERS_SHA256:
            self.violation('v2-no-digest', 'the command name does not end with a ParametersSha256DigestComponent')
        if sig.signature_info.signature_type != SignatureType.DIGEST_SHA256 or sig.signature_info.signature_nonce is None \
                or sig.signature_info.signature_time is None:
            self.violation('v2-siginfo', 'SignatureInfo is not DigestSha256 with time and nonce')
        # the checkers never suspend: evaluate them synchronously (we are inside the running loop)
        ok1 = drive(params_sha256_checker(name, sig))
        ok2 = drive(sha256_digest_checker(name, sig))
        if not ok1:
            self.violation('v2-params-digest', 'the parameters digest of the command is not valid')
        if not ok2:
            self.violation('v2-signature', 'the DigestSha256 signature of the command is not valid')

    def check_signed_v1(self, comps):
        from ndn.encoding import Component
        if len(comps) != 9:
            self.violation('v1-tail-count', f'{len(comps)} components in a v1 command, expected 9')
            return
        val = [bytes(Component.get_value(c)) for c in comps]
        if val[7] != bytes([0x16, 3, 0x1b, 1, 0]):
            self.violation('v1-siginfo', 'the SignatureInfo component is not DigestSha256')
        if val[8] != bytes([0x17, 32]) + hashlib.sha256(b''.join(comps[:8])).digest():
            self.violation('v1-sigvalue', 'the SignatureValue is not the SHA-256 of the preceding components')

    # -- events -----------------------------------------------------------------------------------
    def settle(self):
        self.loop.settle()

    def spawn(self, coro):
        t = self.loop.create_task(coro)
        self.tasks.append(t)
        self.settle()

    def ev_connect(self):
        if self.connected:
            return
        self.connected = True
        self.started = False
        self.log.append([4])

        async def after():
            self.started = True
            self.log.append([5, True])
        self.after_coro = after()
        self.ml = self.loop.create_task(self.app.main_loop(self.after_coro))
        self.settle()

    def idle(self):
        return len(self.done) == self.next_id and self.started

    def ev_disconnect(self):
        if not (self.connected and self.idle()):
            return
        self.close_connection()
        self.log.append([6])

    def close_connection(self):
        self.face.shutdown()
        try:
            self.loop.run_until_complete(asyncio.wait_for(asyncio.shield(self.ml), 5))
        except Exception as e:   # noqa
            self.notes.append(f'main_loop raised {type(e).__name__}')
            if not self.started:
                self.log.append([5, False])
        self.settle()
        self.connected = False

    def ev_call(self, k, name):
        if not self.connected:
            return
        if self.fe == 2:
            co = self.app.register(name) if k == 0 else self.app.unregister(name)
        else:
            co = self.app.register(name, None) if k == 0 else self.app.unregister(name)
        self.spawn(self.guard(co))

    async def guard(self, co):
        try:
            return await co
        except Exception:   # noqa  (recorded by the wrapper)
            return None

    def ev_route(self, name):
        if self.connected and not self.started:
            return      # not modelled (see Model/Registerer.v, ERoute)
        self.log.append([3, [bytes(c) for c in name]])
        if self.fe == 2:
            def handler(name, app_param, reply, context):
                pass
        else:
            def handler(name, param, app_param):
                pass
        async def go():      # route() calls create_task: needs the running loop
            self.app.route(name)(handler)
        self.loop.run_until_complete(go())
        self.settle()

    def ev_tick(self):
        """one sleep of the timestamp loop ends: advance to the next timer if one is due within 10 ms
        (so the event means the same whatever the sleep length is), else 1 ms."""
        now = self.loop.time()
        whens = [h._when for h in self.loop._scheduled if not h._cancelled and h._when > now]
        nxt = min(whens) if whens else None
        target = nxt + 1e-9 if nxt is not None and nxt <= now + 0.01 else now + 0.001
        self.loop.advance_to(target)

    def feed(self, typ, wire):
        async def go():
            try:
                await self.face.callback(typ, wire)
            except Exception as e:   # noqa
                self.raised_in_receive += 1
                self.notes.append(f'_receive raised {type(e).__name__}')
        self.loop.run_until_complete(go())
        self.settle()

    def ev_reply(self, i, r):
        """r: [0, [content]|[], sig_ok] | [1, reason, enc] | [2]     (a bare [1] = [1, 150, 0], older replay files)
        enc: 0 = NackReason in the shortest form (the library's own encoder), 1 = Nack header without a NackReason
        element (reason must be 0), 2/4/8 = NackReason with a value of that many bytes"""
        from ndn.encoding import make_data, MetaInfo, Name, make_network_nack
        from ndn.security import DigestSha256Signer
        if i >= len(self.outstanding):
            return
        info = self.outstanding.pop(i)
        self.answered.append(info)
        if info['call'] is not None:
            self.reply_of[info['call']] = model_reply(r)
            if r[0] == 1:
                self.nack_of[info['call']] = nack_form(r)
        if r[0] == 2:
            # exactly the lifetime of the command (no extra millisecond: sleepers of the timestamp loop
            # are woken by ticks only)
            self.loop.advance_to(max(self.loop.time(), info['sent_at'] + info.get('lifetime', 1000) / 1000.0 + 1e-6))
            return
        if info['name'] is None:
            return
        if r[0] == 1:
            self.feed(0x64, P.nack_wire(info['wire'], nack_form(r)))
            return
        content = r[1][0] if r[1] else None
        d = bytearray(make_data(info['name'], MetaInfo(), content, signer=DigestSha256Signer()))
        if not r[2]:
            d[-1] ^= 0x55
        self.feed(6, bytes(d))

    def ev_junk(self, kind):
        from ndn.encoding import make_data, MetaInfo, make_interest, InterestParam
        from ndn.security import DigestSha256Signer
        rng = self.ctx.rng
        if kind == 0:
            wire = G.tlv(rng.choice([0x20, 0x50, 0x07, 0xfd01]), G.rand_bytes(rng, rng.randint(0, 12)))
        elif kind == 1:
            wire = bytes(make_data('/not/asked/for', MetaInfo(), b'\x65\x03\x66\x01\xc8', signer=DigestSha256Signer()))
        elif kind == 2 and self.answered:
            info = rng.choice(self.answered)
            if info['name'] is None:
                return
            wire = bytes(make_data(info['name'], MetaInfo(), b'\x65\x03\x66\x01\xc8', signer=DigestSha256Signer()))
        elif kind == 3:
            wire = bytes(make_data('/x', MetaInfo(), b'abc', signer=DigestSha256Signer()))
            wire = wire[:2] + G.rand_bytes(rng, len(wire) - 2)
        else:
            wire = G.tlv(0x64, G.rand_bytes(rng, rng.randint(0, 10)))
        typ = wire[0] if wire[0] < 0xfd else 0xfd01
        self.feed(typ, wire)

    def finish(self):
        """tear down (not part of the history)."""
        nlog, ti = len(self.log), self.clock.i
        self.end_last_ts = self.last_ts()
        try:
            if self.connected:
                self.face.shutdown()
                self.loop.advance_to(self.loop.time() + 3)
                try:
                    self.loop.run_until_complete(asyncio.wait_for(asyncio.shield(self.ml), 5))
                except Exception:   # noqa
                    pass
            for t in self.tasks:
                if not t.done():
                    t.cancel()
            self.loop.advance_to(self.loop.time() + 0.01)
            if getattr(self, 'after_coro', None) is not None and not self.started:
                self.after_coro.close()
            self.errors = [str(c.get('exception') or c.get('message'))[:80] for c in self.loop.collect_errors()]
        finally:
            del self.log[nlog:]          # what the teardown cancels is not part of the history
            self.clock.i = ti
            for mod, attr, val in self.saved:
                setattr(mod, attr, val)
            self.loop.close()

    end_last_ts = 'live'

    def last_ts(self):
        if self.end_last_ts != 'live':
            return self.end_last_ts
        o = self.app.registerer if self.fe == 2 else self.app
        return getattr(o, '_last_command_timestamp', None)


def drive(co):
    """run a coroutine that never suspends."""
    try:
        co.send(None)
    except StopIteration as e:
        return e.value
    co.close()
    raise RuntimeError('checker suspended')


# ---- generators --------------------------------------------------------------------------------------
def rand_prefix(rng, uniq=None):
    from ndn.encoding import Component
    n = rng.choice([1, 1, 2, 2, 3, 4])
    comps = []
    for _ in range(n):
        k = rng.random()
        if k < 0.6:
            comps.append(bytes(Component.from_str(rng.choice(['a', 'b', 'app', 'ndn', 'edu', 'x-y', '8', 'route']))))
        elif k < 0.8:
            comps.append(bytes(Component.from_bytes(G.rand_bytes(rng, rng.choice([0, 1, 3, 32])))))
        else:
            comps.append(bytes(Component.from_number(rng.getrandbits(rng.choice([8, 16, 40])), rng.choice([50, 54, 56]))))
    if uniq is not None:
        comps.append(bytes(Component.from_str(f'u{uniq}')))
    return comps


def rand_clock(rng):
    base = rng.choice([1, 5000, 1700000000000, (1 << 41) + 7])
    k = rng.random()
    if k < 0.3:
        return 'frozen', [base], 0                      # every reading the same
    if k < 0.5:
        return 'plus1', [base], 1
    if k < 0.75:
        r, t = [], base
        for _ in range(rng.randint(2, 60)):
            t += rng.choice([0, 0, 0, 1, 1, 2])
            r.append(t)
        return 'slow', r, rng.choice([0, 1])
    if k < 0.9:
        r, t = [], base
        for _ in range(rng.randint(2, 40)):
            t += rng.choice([0, 0, 1, 1000, 5000])
            r.append(t)
        return 'jumps', r, rng.choice([0, 1, 1000])
    # pairs of equal readings: what trips "recorded, then signed with a later reading"
    r, t = [], base
    for _ in range(rng.randint(2, 30)):
        t += 1
        r += [t, t + 1] if rng.random() < 0.5 else [t, t]
    return 'pairs', r, 1


STATUS = [200] * 12 + [0, 100, 199, 201, 204, 299, 300, 399, 400, 403, 404, 409, 410, 500, 503, 504, 599, 65536,
          (1 << 32) + 200, 456]


def rand_reply(ctx, prefix):
    """-> (reply sexp, class name, status or None)"""
    from ndn.app_support import nfd_mgmt
    rng = ctx.rng
    k = rng.random()
    if k < 0.08:
        form = rng.choice(C17_NACK_POOL)
        return nack_reply(form), nack_class(form), None
    if k < 0.16:
        return [2], 'timeout', None
    if k < 0.20:
        return [0, [], True], 'no-content', None
    code = rng.choice(STATUS)
    cr = nfd_mgmt.ControlResponse()
    cr.status_code = code
    cr.status_text = rng.choice(['OK', '', 'Route not found', 'Unauthorized', 'été'])
    body = rng.random() < 0.6
    if body:
        cr.body = nfd_mgmt.ControlParametersValue()
        if rng.random() < 0.9:
            cr.body.name = prefix
        if rng.random() < 0.7:
            cr.body.face_id = rng.choice([1, 256, 70000])
            cr.body.origin = rng.choice([0, 65, 255])
            cr.body.cost = 0
            cr.body.flags = rng.choice([0, 1, 3])
        if rng.random() < 0.15:
            cr.body.expiration_period = rng.getrandbits(40)
        if rng.random() < 0.05:
            cr.body.face_persistency = rng.choice([0, 1, 2, 3, 9])
    wire = G.tlv(0x65, bytes(cr.encode()))
    cls = f'data-{"200" if code == 200 else "other"}-{"body" if body else "nobody"}'
    k = rng.random()
    sig_ok = rng.random() > 0.08
    if k < 0.13:
        wire = G.mutate_bytes(rng, wire)
        return [0, [wire], sig_ok], 'data-mutant', None
    if k < 0.16:
        wire = rng.choice([b'', b'\x65', b'\x65\x00', G.tlv(0x66, wire[2:]), wire[2:], G.rand_bytes(rng, rng.randint(1, 9)),
                           G.tlv(0x65, G.tlv(0x66, b'') + wire[2:]), G.tlv(0x65, G.tlv(0x66, b'\x00\xc8\x00'))])
        return [0, [wire], sig_ok], 'data-garbage', None
    if k < 0.19:
        # status absent
        wire = G.tlv(0x65, G.tlv(0x67, b'OK'))
        return [0, [wire], sig_ok], 'data-nostatus', None
    return [0, [wire], sig_ok], cls + ('' if sig_ok else '-badsig'), code


def gen_history(ctx, w):
    """drives the world [w] while generating the history; returns the event list (model form)."""
    rng = ctx.rng
    evs = []
    uniq = [0]
    ncalls_budget = rng.choice([1, 2, 2, 3, 4, 5, 6, 8])
    max_events = rng.randint(10, 80)
    classes = []

    def route():
        uniq[0] += 1
        nm = rand_prefix(rng, uniq[0])
        evs.append([4, nm])
        w.ev_route(nm)

    def call():
        k = 0 if rng.random() < 0.65 else 1
        declared = [e[1] for e in evs if e[0] == 4]
        if declared and rng.random() < 0.3:
            nm = rng.choice(declared)        # (un)register a prefix that has a route/handler
        else:
            nm = rand_prefix(rng)
        evs.append([0, k, nm])
        w.ev_call(k, nm)

    def reply():
        i = 0 if len(w.outstanding) == 1 or rng.random() < 0.8 else rng.randrange(len(w.outstanding))
        info = w.outstanding[i]
        prefix = None
        for e in reversed(w.log):
            if e[0] == 1 and e[1] == info['call']:
                prefix = e[3]
                break
        r, cls, code = rand_reply(ctx, prefix or [])
        classes.append(cls)
        evs.append([1, i, r])
        w.ev_reply(i, r)
        # self-check of the generator against the extracted specification: a structured reply is "200" iff code == 200
        if code is not None:
            s = ctx.call([9, r[1][0]])
            if bool(s) != (code == 200):
                ctx.disagree('Spec.status_200', 'the specification disagrees with the generator about a well-formed response',
                             {'content': r[1][0], 'code': code}, s, code == 200)

    def tick():
        evs.append([2])
        w.ev_tick()

    def junk():
        evs.append([3])
        w.ev_junk(rng.randrange(5))

    for _ in range(rng.choice([0, 0, 1, 2, 3])):
        route()
    evs.append([5])
    w.ev_connect()
    nconn = 1
    burst = rng.random() < 0.7
    if burst:
        for _ in range(ncalls_budget):
            call()
        ncalls_budget = rng.choice([0, 0, 1, 2])
    steps = 0
    while steps < max_events:
        steps += 1
        pending = w.next_id - len(w.done)
        opts = []
        if w.outstanding:
            opts += ['reply'] * 6
        if pending and not w.outstanding:
            opts += ['tick'] * 6
        if ncalls_budget > 0 and w.connected:
            opts += ['call'] * 2
        opts += ['tick', 'junk']
        if rng.random() < 0.1 and w.connected and w.started:
            opts.append('route')
        if w.connected and w.idle() and nconn < 3 and rng.random() < 0.5:
            opts += ['disconnect'] * 3
        if not w.connected:
            opts = ['connect'] * 3 + ['route']
        o = rng.choice(opts)
        if o == 'reply':
            reply()
        elif o == 'tick':
            tick()
        elif o == 'call':
            ncalls_budget -= 1
            call()
        elif o == 'junk':
            junk()
        elif o == 'route':
            route()
        elif o == 'disconnect':
            evs.append([6])
            w.ev_disconnect()
        elif o == 'connect':
            evs.append([5])
            w.ev_connect()
            nconn += 1
            if rng.random() < 0.5:
                for _ in range(rng.randint(1, 4)):
                    call()
    # drain
    for _ in range(400):
        if not w.connected:
            break
        pending = w.next_id - len(w.done)
        if w.outstanding:
            reply()
        elif pending or not w.started:
            tick()
        else:
            break
    return evs, classes


def reply_class(r):
    if r[0] == 1:
        return nack_class(r[1] if len(r) > 1 else 150)
    if r[0] == 2:
        return 'timeout'
    if not r[1]:
        return 'no-content'
    return 'data' + ('' if r[2] else '-badsig')


def load_protocols(ctx):
    """the protocol records of the source under test, through the same translator that writes Generated/RegProto.v"""
    try:
        import importlib.util
        import os
        spec = importlib.util.spec_from_file_location(
            'gen_regproto', os.path.join(os.path.dirname(__file__), '..', '..', 'tools', 'gen_regproto.py'))
        gp = importlib.util.module_from_spec(spec)
        spec.loader.exec_module(gp)
        recs = gp.analyse_all()
        ctx.extra['protocols'] = recs
        if gp.response_type() != 0x65:
            ctx.disagree('parse_response', 'response TLV type in the source is not 0x65', {}, gp.response_type(), 0x65)
        return {2: (gp.sexp_proto(recs['v2_register']), gp.sexp_proto(recs['v2_unregister'])),
                1: (gp.sexp_proto(recs['v1_register']), gp.sexp_proto(recs['v1_unregister']))}
    except SystemExit as e:
        # fail-closed translation: no model to compare with; the specification is still evaluated on the implementation
        ctx.disagree('gen_regproto', f'translation of the registration functions aborted: {e}', {}, None, None)
        return None


def ok_reply(prefix, code=200):
    """a well-formed ControlResponse with the given status and a body naming the prefix, properly signed."""
    from ndn.app_support import nfd_mgmt
    cr = nfd_mgmt.ControlResponse()
    cr.status_code = code
    cr.status_text = 'OK'
    cr.body = nfd_mgmt.ControlParametersValue()
    cr.body.name = prefix
    cr.body.face_id = 256
    return [0, [G.tlv(0x65, bytes(cr.encode()))], True]


def scripted(ctx, p, fe, evs, stratum):
    """one fixed history (clock: +1 per reading, so the timestamp loops never sleep) on the implementation, then the
    same evaluation as a generated one."""
    case = {'frontend': fe, 'clock': [[5000], 1], 'local': True, 'events': evs}
    try:
        w = replay_history(ctx, case)
    except Exception as e:   # noqa
        import traceback
        ctx.disagree('harness', f'the driver failed: {type(e).__name__}: {e}', case, None, traceback.format_exc()[-600:])
        return
    ctx.case(('scripted', fe, repr(evs)), True, None, f'v{fe}:{stratum}')
    ctx.stat('commands', sum(1 for e in w.log if e[0] == 1))
    evaluate_history(ctx, w, case, p)


def nack_table(ctx, p):
    """Nack-reason family: every reason value / encoding x front-end x where the nacked command comes from.  The call
    whose command is nacked returns False (never raises), and what follows is unaffected: the next call's command goes
    out, the starting task registers the remaining routes and after_start runs."""
    from ndn.encoding import Component
    c = lambda t: bytes(Component.from_str(t))      # noqa
    A, B, C3, R1, R2 = [c('a'), c('u1')], [c('b')], [c('app'), c('c'), c('d')], [c('r'), c('one')], [c('r'), c('two')]
    forms = C17_NACK_FORMS
    for k, form in enumerate(forms):
        nk = nack_reply(form)
        nxt = nack_reply(forms[(k + 7) % len(forms)])
        for fe in (1, 2):
            # a direct register
            scripted(ctx, p, fe, [[5], [0, 0, A], [1, 0, nk], [2]], 'nack-table.register')
            # register (200), then unregister of the same prefix nacked, then a register that succeeds
            scripted(ctx, p, fe, [[5], [0, 0, B], [1, 0, ok_reply(B)], [0, 1, B], [1, 0, nk], [0, 0, A], [1, 0, ok_reply(A)]],
                     'nack-table.unregister')
            # two routes declared before connecting: the registration of the first is nacked, the second answered 200,
            # a call made afterwards is answered 200
            scripted(ctx, p, fe, [[4, R1], [4, R2], [5], [1, 0, nk], [1, 0, ok_reply(R2)], [2], [0, 0, A], [1, 0, ok_reply(A)]],
                     'nack-table.route')
            # three concurrent calls: first and last nacked (two different reasons), the middle one 200
            scripted(ctx, p, fe, [[5], [0, 0, A], [0, 1, B], [0, 0, C3], [1, 0, nk], [1, 0, ok_reply(B)], [1, 0, nxt], [2]],
                     'nack-table.concurrent')


def run_protocol(ctx):
    rng = ctx.rng
    M = ctx.call
    p = load_protocols(ctx)
    nack_table(ctx, p)
    for it in range(ctx.n(600, 8000)):
        fe = 2 if rng.random() < 0.55 else 1
        cname, readings, step = rand_clock(rng)
        local = rng.random() < 0.8
        w = World(ctx, fe, readings, step, local)
        w.viol = []
        try:
            try:
                evs, classes = gen_history(ctx, w)
            finally:
                w.finish()
        except Exception as e:   # noqa
            import traceback
            ctx.disagree('harness', f'the driver failed: {type(e).__name__}: {e}', {'fe': fe, 'clock': [readings, step]},
                         None, traceback.format_exc()[-600:])
            continue
        case = {'frontend': fe, 'clock': [readings, step], 'local': local, 'events': evs}
        ncmd = sum(1 for e in w.log if e[0] == 1)
        ctx.case(('hist', fe, tuple(readings), step, repr(evs)), ncmd >= 2 or any(c not in ('data-200-body', 'data-200-nobody') for c in classes),
                 case if it < 2 else None, f'v{fe}:{cname}')
        for c in classes:
            ctx.stat('reply:' + c)
        ctx.stat('commands', ncmd)
        ctx.stat('receive_raised', w.raised_in_receive)
        evaluate_history(ctx, w, case, p)


def evaluate_history(ctx, w, case, p):
    """correspondence with the machine + the extracted specification on the implementation's log."""
    M = ctx.call
    fe, (readings, step), evs = case['frontend'], case['clock'], case['events']
    for site, cls, what in w.viol:
        ctx.violation(site, cls, what, case)
    m = M([6, p[fe][0], p[fe][1], [readings, step], model_events(evs)]) if p is not None else None
    if m is not None and is_err(m):
        ctx.disagree('Registerer.run', 'model bad request', case, m, None)
        return
    mlog = [canon_obs(o) for o in m[0]] if m is not None else None
    ilog = [canon_obs(o) for o in w.log]
    if m is None:
        pass
    elif mlog != ilog:
        k = next((j for j in range(min(len(mlog), len(ilog))) if mlog[j] != ilog[j]), min(len(mlog), len(ilog)))
        ctx.disagree(w.site(), f'observable logs differ at entry {k}', case,
                     {'at': k, 'entry': mlog[k] if k < len(mlog) else None, 'len': len(mlog)},
                     {'at': k, 'entry': ilog[k] if k < len(ilog) else None, 'len': len(ilog), 'notes': w.notes[:4]})
    else:
        lt = w.last_ts()
        if lt is not None and lt != num(m[2]):
            ctx.disagree(w.site(), 'last command timestamp differs', case, num(m[2]), lt)
        if w.clock.i != num(m[3]):
            ctx.disagree(w.site(), 'number of clock readings differs', case, num(m[3]), w.clock.i)
    validates = (fe == 1)
    res = M([7, validates, w.log])
    if is_err(res) or len(res) != 6:
        ctx.disagree('Spec.Registration', 'bad request', case, res, None)
        return
    names = ['success-iff-200', 'raises', 'one-at-a-time', 'timestamps', 'one-command-per-call', 'autoreg']
    for ok, nm in zip(res, names):
        if ok:
            continue
        site, cls, what = diagnose(ctx, w, nm, validates)
        ctx.violation(site, cls, what, case)
    if w.errors:
        ctx.stat('loop_errors', len(w.errors))


def replay_history(ctx, case):
    """run one recorded history (a 'case' of a protocol violation / disagreement) on the implementation."""
    w = World(ctx, case['frontend'], case['clock'][0], case['clock'][1], case.get('local', True))
    w.viol = []
    try:
        for e in case['events']:
            t = e[0]
            if t == 0:
                w.ev_call(e[1], e[2])
            elif t == 1:
                w.ev_reply(e[1], e[2])
            elif t == 2:
                w.ev_tick()
            elif t == 3:
                w.ev_junk(0)
            elif t == 4:
                w.ev_route(e[1])
            elif t == 5:
                w.ev_connect()
            elif t == 6:
                w.ev_disconnect()
    finally:
        w.finish()
    return w


def replay(ctx, data):
    """./check C17 --replay <file>: protocol cases are re-run alone; codec cases repeat the full run."""
    import logging
    from harness.lib.core import unjson
    case = unjson(data.get('case')) if isinstance(data, dict) else None
    if not (isinstance(case, dict) and 'events' in case and 'frontend' in case):
        return run(ctx)
    logging.disable(logging.CRITICAL)
    try:
        w = replay_history(ctx, case)
        ctx.case(('replay', repr(case)), True, case, 'replay')
        evaluate_history(ctx, w, case, load_protocols(ctx))
        ctx.notes.append('log of the implementation: ' + repr(w.log)[:3000])
    finally:
        logging.disable(logging.NOTSET)


def canon_obs(o):
    t = o[0]
    if t == 0:
        return (0, num(o[1]), num(o[2]), tuple(bytes(c) for c in o[3]), bool(num(o[4])))
    if t == 1:
        return (1, num(o[1]), num(o[2]), tuple(bytes(c) for c in o[3]), num(o[4]))
    if t == 2:
        r = o[2]
        if r[0] == 0:
            rr = (0, bytes(r[1][0]) if r[1] else None, bool(num(r[2])))
        elif num(r[0]) == 1:
            rr = (1, num(r[1]) if len(r) > 1 else 150)
        else:
            rr = (num(r[0]),)
        out = o[3]
        oo = (1, bool(num(out[1]))) if num(out[0]) == 1 else (0,)
        return (2, num(o[1]), rr, oo)
    if t == 3:
        return (3, tuple(bytes(c) for c in o[1]))
    if t == 5:
        return (5, bool(num(o[1])))
    return (t,)


def diagnose(ctx, w, nm, validates):
    """find the first log entry that breaks clause [nm]; returns (site, class, text)."""
    log = w.log
    kind_of = {e[1]: e[2] for e in log if e[0] == 0}
    if nm in ('success-iff-200', 'raises'):
        for e in log:
            if e[0] != 2:
                continue
            r, out = e[2], e[3]
            rc = reply_class(r)
            if r[0] == 0 and r[1]:
                s = bool(ctx.call([9, r[1][0]]))
                rc += '-200' if s else '-not200'
            else:
                s = False
            want = s and (r[0] == 0 and (r[2] or not validates))
            site = w.site(kind_of.get(e[1]))
            if out[0] == 0:
                form = w.nack_of.get(e[1])
                return site, f'raises:{rc}', f'the call raised (error class {out[1]}) on reply {rc}' + \
                    (f' (Nack reason {form!r})' if r[0] == 1 else '')
            if nm == 'success-iff-200' and bool(out[1]) != want:
                return site, f'success-iff-200:{rc}', f'returned {bool(out[1])} on reply {rc}'
        return w.site(), nm, 'clause fails'
    if nm == 'one-at-a-time':
        busy = None
        for e in log:
            if e[0] == 1:
                if busy is not None:
                    return w.site(kind_of.get(e[1])), 'one-at-a-time', \
                        f'command of call {e[1]} sent while the command of call {busy} awaits its reply'
                busy = e[1]
            elif e[0] == 2:
                if busy != e[1]:
                    return w.site(kind_of.get(e[1])), 'done-without-command', f'call {e[1]} finished without an outstanding command'
                busy = None
        return w.site(), nm, 'clause fails'
    if nm == 'timestamps':
        last = None
        for e in log:
            if e[0] == 1:
                if last is not None and not last < e[4]:
                    return w.site(e[2]), 'timestamps-not-increasing', f'command timestamp {e[4]} after {last}'
                last = e[4]
        return w.site(), nm, 'clause fails'
    if nm == 'one-command-per-call':
        sent = {}
        for e in log:
            if e[0] == 1:
                c = next((x for x in log if x[0] == 0 and x[1] == e[1]), None)
                if c is None or c[2] != e[2] or [bytes(a) for a in c[3]] != [bytes(a) for a in e[3]]:
                    return w.site(e[2]), 'command-names-other-prefix', f'command of call {e[1]} does not name the verb/prefix of the call'
                sent[e[1]] = sent.get(e[1], 0) + 1
                if sent[e[1]] > 1:
                    return w.site(e[2]), 'second-command', f'call {e[1]} sent a second command'
            elif e[0] == 2 and sent.get(e[1], 0) != 1:
                return w.site(kind_of.get(e[1])), 'no-command', f'call {e[1]} finished without having sent a command'
        return w.site(), nm, 'clause fails'
    return ('NDNApp.main_loop' if w.fe == 2 else 'NDNApp(v1).main_loop'), 'autoreg', \
        'the starting task did not register each declared route exactly once'


def run(ctx):
    import logging
    ctx.rule = RULE
    logging.disable(logging.CRITICAL)
    try:
        run_codec(ctx)
        run_protocol(ctx)
    finally:
        logging.disable(logging.NOTSET)
