"""C09 — name representations (URI, component list, wire) are mutually consistent.

Two things are run on every case:
 * correspondence: the extracted Coq model (Model/Name.v, Model/TlvVar.v) against ndn.encoding.name /
   ndn.encoding.tlv_var on the same input (ok/err and the value; the error class is only recorded);
 * direct oracle: the statements of Properties/C09.v evaluated on the implementation itself
   (round trips, prefix test, canonical order from Spec/NdnOrder.v via the extracted spec).
"""
import struct

from harness.lib import gen as G
from harness.lib.model import is_err, exc_code

RULE = ('names: 0..8 components, types over every var-number size <= 65535, values empty/ASCII/binary/digest/'
        'reserved URI characters/252..300 bytes, typed numbers at every width boundary; URI strings: structured '
        'valid + a malformed corner list; wire: valid names + single-edit mutants; pairs of names for prefix/order; '
        'the prefix test through every representation of both arguments (list, URI, canonical URI, wire, string list) incl. names with empty components; '
        'call sequences convert / edit the result in place / convert again (a conversion is a function of its argument). '
        'every conversion taking a name (canonical URI, URI, wire, normal form) given the name as list / URI / canonical URI / wire bytes, '
        'bytearray and memoryview / list of URI strings, incl. names ending in empty components: same result as for the component list. '
        'Components BUILT from a value and a type (from_bytes / from_hex / from_number): types -1, 0, 1..8, 32, 50, 58, 251..257 (the '
        '1-octet/3-octet Type boundary), 300, 65534..65536, 70000 x value lengths 0,1,2,8,251..254,300 and numbers on every width boundary, '
        'against the model and an independent Type-Length-Value reference. '
        'non-trivial = at least one component or a non-empty string; distinct by input hash')
ASSUMPTIONS = ['CPython semantics of int(), str.split, bytes.hex/fromhex, struct are modelled (Base/Text.v, Base/PyPrim.v)']


def impl(fn, *a):
    try:
        return ('ok', fn(*a))
    except Exception as e:   # noqa
        return ('err', exc_code(e), type(e).__name__)


def cmp_res(ctx, site, case, m, r, conv=lambda x: x, mconv=lambda x: x):
    """m: model answer [1,payload]|[0,code]; r: impl result."""
    if is_err(m):
        if r[0] == 'ok':
            ctx.disagree(site, 'model raises, implementation returns', case, m, conv(r[1]))
            return False
        if m[1] in (98, 99):
            ctx.disagree(site, 'model bad request / out of fuel', case, m, r[1:])
            return False
        if m[1] != r[1] and not (m[1] == 6 and r[1] == 3) and not (m[1] == 3 and r[1] == 6):
            ctx.stat(f'errclass_diff:{site}:{m[1]}!={r[2]}')
        return True
    if r[0] == 'err':
        ctx.disagree(site, 'implementation raises, model returns', case, m, r[1:])
        return False
    a, b = mconv(m[1]), conv(r[1])
    if a != b:
        ctx.disagree(site, 'different results', case, a, b)
        return False
    return True


def s_of_str(s):
    cps = [ord(c) for c in s]
    return bytes(cps) if all(c < 256 for c in cps) else cps


def m_str(x):
    if isinstance(x, bytes):
        return ''.join(chr(c) for c in x)
    return ''.join(chr(c) for c in x)


def name_b(n):
    return [bytes(c) for c in n]


def sign(x):
    return 0 if x < 0 else (1 if x == 0 else 2)


def run(ctx):
    from ndn.encoding.name import Name, Component
    from ndn.encoding import tlv_var as TV
    rng = ctx.rng
    M = ctx.call

    # ---- 1. tlv_var kernel ---------------------------------------------------------------
    vals = list(G.TL_BOUNDS) + [rng.getrandbits(rng.randint(1, 66)) for _ in range(ctx.n(300, 5000))] + [1 << 64, (1 << 64) + 1, 1 << 70]
    for v in vals:
        def w(v=v):
            n = TV.get_tl_num_size(v)
            buf = bytearray(n)
            r = TV.write_tl_num(v, buf, 0)
            assert r == n
            return bytes(buf)
        r = impl(w)
        cmp_res(ctx, 'write_tl_num', v, M([20, v]), r)
        if v < 1 << 64:
            m = M([23, v])
            if m != TV.get_tl_num_size(v):
                ctx.disagree('get_tl_num_size', 'size', v, m, TV.get_tl_num_size(v))
            # oracle: decode(encode v) = v, shortest form
            if r[0] == 'ok':
                dv, dn = TV.parse_tl_num(r[1] + b'\x00\x01', 0)
                if dv != v or dn != len(r[1]):
                    ctx.violation('tlv_var.parse_tl_num', 'varnum-roundtrip', f'decode(encode({v})) = {dv},{dn}', v)
        cmp_res(ctx, 'pack_uint_bytes', v, M([22, v]), impl(TV.pack_uint_bytes, v), bytes)
        ctx.case(('tl', v), v > 252, {'op': 'tl_num', 'v': v}, 'tlv_var')
    for _ in range(ctx.n(600, 20000)):
        w = rng.choice([G.tl(rng.choice(vals) % (1 << 64)) + G.rand_bytes(rng, rng.randint(0, 3)),
                        G.rand_bytes(rng, rng.randint(0, 10)),
                        G.mutate_bytes(rng, G.tl(rng.choice(vals) % (1 << 64)))])
        cmp_res(ctx, 'parse_tl_num', w, M([21, w]), impl(TV.parse_tl_num, w, 0), lambda x: [x[0], x[1]])
        ctx.case(('tld', w), len(w) > 1, None, 'tlv_var.dec')
    for _ in range(ctx.n(400, 10000)):
        t = rng.choice([5, 6, 7, 100, 253, 70000])
        body = G.rand_bytes(rng, rng.choice([0, 1, 5, 251, 252, 253, 254, 255, 256, 300]))
        w = G.tlv(t, body)
        if rng.random() < 0.5:
            w = G.mutate_bytes(rng, w)
        exp = rng.choice([t, t, t, 6])
        cmp_res(ctx, 'parse_and_check_tl', (w, exp), M([24, w, exp]), impl(TV.parse_and_check_tl, w, exp), bytes)
        # shrink_length on a well-formed element whose length allows it
        val = rng.choice([1, 1, 2, 3, 7, 40])
        w2 = G.tlv(t, body)
        if len(body) >= val:
            r = impl(lambda: bytes(TV.shrink_length(bytearray(w2), val)))
            cmp_res(ctx, 'shrink_length', (w2, val), M([25, w2, val]), r)
            if r[0] == 'ok' and r[1] != G.tlv(t, body[:len(body) - val]):
                ctx.violation('tlv_var.shrink_length', 'shrink-not-reencoding', 'shrunk wire is not T, L-val, V[:-val]', (w2, val))
        ctx.case(('pct', w, exp, val), True, None, 'tlv_var.check')

    # shrink_length across the 5->3 byte Length boundary (65536) and the 3->1 boundary (253), all offsets near them
    for size in ([253, 254, 255, 260, 65536, 65537, 65540] if not ctx.thorough else list(range(253, 262)) + list(range(65536, 65546))):
        body = G.rand_bytes(rng, size)
        for t in (6, 5, 253):
            w2 = G.tlv(t, body)
            for val in (1, 2, 3, 8, size - 252, size - 65535 if size > 65535 else 1):
                if val <= 0 or val > size:
                    continue
                r = impl(lambda: bytes(TV.shrink_length(bytearray(w2), val)))
                cmp_res(ctx, 'shrink_length', ('tlv', t, size, val), M([25, w2, val]), r)
                if r[0] == 'ok' and r[1] != G.tlv(t, body[:size - val]):
                    ctx.violation('tlv_var.shrink_length', 'shrink-not-reencoding',
                                  'shrunk wire is not T, L-val, V[:-val]', {'type': t, 'size': size, 'val': val})
                ctx.case(('shrinkb', t, size, val), True, None, 'tlv_var.shrink.boundary')

    # ---- 2. components ---------------------------------------------------------------------
    for i in range(ctx.n(2500, 60000)):
        s = G.rand_uri_comp(rng)
        r = impl(Component.from_str, s)
        cmp_res(ctx, 'Component.from_str', s, M([1, s_of_str(s)]), r, bytes)
        ctx.case(('cfs', s), len(s) > 0, {'op': 'Component.from_str', 's': s}, 'comp.from_str.' + r[0])
    # exhaustive: every byte value x every type class, canonical URI and URI round trip (oracle + model)
    types = [8, 1, 2, 32, 50, 252, 253, 65535] if not ctx.thorough else G.COMP_TYPES
    for t in types:
        for b in range(256):
            for val in (bytes([b]), bytes([b, 0x41]), bytes([0x25, b])):
                c = G.tlv(t, val)
                check_comp(ctx, M, Component, c, t, val)
    # typed-number components whose value is NOT a NonNegativeInteger (0, 3, 5, 7, 9 .. 2100 octets, high bytes set)
    for t in (50, 52, 54, 56, 58):
        for ln in (0, 3, 5, 6, 7, 9, 16, 300, 1785, 1786, 1800, 2100):
            for fill in (b'\x00', b'\xff', b'\x01'):
                val = fill * ln
                check_comp(ctx, M, Component, G.tlv(t, val), t, val)
    for i in range(ctx.n(2500, 60000)):
        t, v = G.rand_comp_tv(rng)
        c = G.tlv(t, v)
        if rng.random() < 0.15:
            c = G.mutate_bytes(rng, c)
            cmp_res(ctx, 'Component.to_str', c, M([2, c]), impl(Component.to_str, c), s_of_str, lambda x: x if isinstance(x, bytes) else x)
            cmp_res(ctx, 'Component.to_canonical_uri', c, M([3, c]), impl(Component.to_canonical_uri, c), s_of_str)
            cmp_res(ctx, 'Component.get_type', c, M([16, c]), impl(Component.get_type, c))
            cmp_res(ctx, 'Component.get_value', c, M([17, c]), impl(Component.get_value, c), bytes)
            cmp_res(ctx, 'Component.to_number', c, M([14, c]), impl(Component.to_number, c))
            ctx.case(('cmut', c), True, None, 'comp.mutant')
        else:
            check_comp(ctx, M, Component, c, t, v)
    # building a component from a value and a type number: every type on the 1-octet / 3-octet Type boundary (252..256), the
    # ends of the legal range and just outside, x value lengths on the Length boundary -- through from_bytes, from_hex, from_number
    btypes = [-1, 0, 1, 2, 7, 8, 32, 50, 58, 251, 252, 253, 254, 255, 256, 257, 300, 65534, 65535, 65536, 70000]
    for t in btypes:
        for ln in (0, 1, 2, 8, 251, 252, 253, 254, 300):
            val = G.rand_bytes(rng, ln) if ln else b''
            zt = [0, t] if t >= 0 else [1, -t]
            m = M([19, val, zt])
            for site, r in (('Component.from_bytes', impl(Component.from_bytes, val, t)),
                            ('Component.from_hex', impl(Component.from_hex, val.hex(), t))):
                cmp_res(ctx, site, (val, t), m, r, bytes)
                if 0 < t <= 65535:
                    if r[0] != 'ok' or bytes(r[1]) != G.tlv(t, val):
                        ctx.violation(site, 'component-encoding', f'type {t}, {ln}-octet value: not Type, Length, Value in shortest form',
                                      {'type': t, 'value': val})
                    elif ln <= 8:
                        check_comp(ctx, M, Component, bytes(r[1]), t, val)
            ctx.case(('cfb', t, val), 0 < t <= 65535, {'op': 'Component.from_bytes', 'type': t, 'len': ln}, 'comp.from_bytes')
        for v in (0, 1, 255, 256, 65535, 65536, (1 << 32) - 1, 1 << 32, (1 << 64) - 1):
            if t < 0:
                continue
            r = impl(Component.from_number, v, t)
            cmp_res(ctx, 'Component.from_number', (v, t), M([13, [0, v], t]), r, bytes)
            if 0 < t <= 65535:
                if r[0] != 'ok' or bytes(r[1]) != G.tlv(t, TVpack(v)):
                    ctx.violation('Component.from_number', 'component-encoding', f'type {t}, number {v}: not Type, Length, shortest NonNegativeInteger',
                                  {'type': t, 'number': v})
                elif Component.to_number(r[1]) != v or Component.get_type(r[1]) != t:
                    ctx.violation('Component.to_number', 'number-roundtrip', 'to_number / get_type of from_number(v, t) differ from v, t', (v, t))
            ctx.case(('cfn', t, v), 0 < t <= 65535, None, 'comp.from_number.types')
    for v in vals:
        for t in (50, 58, 8):
            r = impl(Component.from_number, v, t)
            cmp_res(ctx, 'Component.from_number', (v, t), M([13, [0, v], t]), r, bytes)
            if r[0] == 'ok' and Component.to_number(r[1]) != v:
                ctx.violation('Component.to_number', 'number-roundtrip', 'to_number(from_number(v)) != v', (v, t))

    # ---- 3. names ----------------------------------------------------------------------------
    pool = []
    for i in range(ctx.n(2500, 50000)):
        tvs = G.rand_name_tv(rng)
        n = G.name_of_tv(tvs)
        pool.append((tvs, n))
        check_name(ctx, M, Name, Component, tvs, n)
    for i in range(ctx.n(2500, 50000)):
        s = G.rand_uri(rng)
        r = impl(Name.from_str, s)
        cmp_res(ctx, 'Name.from_str', s, M([4, s_of_str(s)]), r, name_b)
        r2 = impl(Name.normalize, s)
        cmp_res(ctx, 'Name.normalize(str)', s, M([9, [1, s_of_str(s)]]), r2, name_b)
        ctx.case(('nfs', s), len(s) > 1, {'op': 'Name.from_str', 's': s}, 'name.from_str.' + r[0])
    # conversions are functions of their argument: what a caller does to an earlier result (the documented return
    # type is a list of bytearray, editable in place) must not change what the same text denotes later, nor
    # another component of the same result
    for i in range(ctx.n(600, 8000)):
        cs = [G.rand_uri_comp(rng) for _ in range(rng.randint(1, 4))]
        if rng.random() < 0.6:
            cs.append(rng.choice(cs))
        s = '/' + '/'.join(cs)
        for fn, site in ((Name.from_str, 'Name.from_str'), (Name.normalize, 'Name.normalize(str)')):
            r = impl(fn, s)
            if r[0] != 'ok':
                continue
            snap = name_b(r[1])
            for j, c in enumerate(r[1]):
                if isinstance(c, bytearray) and len(c) > 0:
                    c[-1] ^= 0x55
                    rest = [bytes(x) for k, x in enumerate(r[1]) if k > j]
                    if rest != snap[j + 1:]:
                        ctx.violation(site, 'components-share-storage',
                                      f'editing component {j} of the result in place changed a later component', s)
                        break
            again = impl(fn, s)
            if again[0] != 'ok' or name_b(again[1]) != snap:
                ctx.violation(site, 'result-depends-on-earlier-calls',
                              'the same text converts to a different name after an earlier result was edited in place', s)
            ctx.case(('fresh', site, s), True, None, 'name.fresh')
        if cs:
            r = impl(Component.from_str, cs[0])
            if r[0] == 'ok' and isinstance(r[1], bytearray) and len(r[1]) > 0:
                snap = bytes(r[1])
                r[1][-1] ^= 0x55
                again = impl(Component.from_str, cs[0])
                if again[0] != 'ok' or bytes(again[1]) != snap:
                    ctx.violation('Component.from_str', 'result-depends-on-earlier-calls',
                                  'the same text converts to a different component after an earlier result was edited in place', cs[0])
    # wire mutants
    for i in range(ctx.n(1500, 40000)):
        tvs, n = rng.choice(pool)
        w = bytes(Name.encode(n)) + rng.choice([b'', b'', b'\x08\x01z', G.rand_bytes(rng, 3)])
        if rng.random() < 0.7:
            w = G.mutate_bytes(rng, w)
        r = impl(Name.decode, w)
        cmp_res(ctx, 'Name.decode', w, M([7, w]), r, lambda x: [name_b(x[0]), x[1]])
        cmp_res(ctx, 'Name.normalize(wire)', w, M([9, [0, w]]), impl(Name.normalize, w), name_b)
        ctx.case(('nd', w), len(w) > 2, {'op': 'Name.decode', 'w': w}, 'name.decode.' + r[0])
    # pairs: prefix and order
    small = pool[:ctx.n(70, 400)]
    extra = []
    for tvs, n in small[:ctx.n(30, 120)]:
        k = rng.randint(0, len(tvs))
        extra.append((tvs[:k], n[:k]))
        if tvs:
            t2 = list(tvs)
            j = rng.randrange(len(t2))
            t2[j] = G.rand_comp_tv(rng)
            extra.append((t2, G.name_of_tv(t2)))
    small = small + extra
    for (ta, a) in small:
        for (tb, b) in small:
            ip = Name.is_prefix(a, b)
            m = M([10, a, b])
            if bool(m) != ip:
                ctx.disagree('Name.is_prefix', 'different results', (a, b), m, ip)
            if ip != (len(a) <= len(b) and all(x == y for x, y in zip(a, b))):
                ctx.violation('Name.is_prefix', 'prefix-vs-componentwise', 'is_prefix disagrees with component-wise equality', (a, b))
            # order: Python comparison of the library's component lists vs the canonical order (spec)
            py = sign((a > b) - (a < b))
            m2 = M([11, a, b])
            if m2 != py:
                ctx.disagree('name comparison', 'different results', (a, b), m2, py)
            spec = M([30, [[t, v] for t, v in ta], [[t, v] for t, v in tb]])
            if spec != py:
                ctx.violation('name comparison', 'canonical-order', f'python order {py} != canonical order {spec}', (a, b))
            ctx.case(('pair', tuple(a), tuple(b)), len(a) + len(b) > 0, None, 'pairs')
    # the prefix test through every accepted representation of BOTH arguments (component list, shorthand URI,
    # canonical URI, wire, list of per-component URI strings): all must agree with component-wise equality.
    # Names with empty components (URIs ending in '//') and single trailing slashes are in the pool.
    def canonical_numbers(n):
        for c in n:
            t, v = Component.get_type(c), bytes(Component.get_value(c))
            if t in (50, 52, 54, 56, 58) and len(v) in (1, 2, 4, 8) and v != TVpack(int.from_bytes(v, 'big')):
                return False
        return True

    def reps(n):
        out = [('list', list(n)), ('wire', bytes(Name.encode(n)))]
        # the shorthand URI stands for the name only when its typed numbers are canonically encoded (the property's
        # own restriction); the canonical URI always does
        fs = [(Name.to_canonical_uri, 'curi')] + ([(Name.to_str, 'uri')] if canonical_numbers(n) else [])
        for f, tag in fs:
            try:
                out.append((tag, f(n)))
            except Exception:   # noqa
                pass
        try:
            out.append(('strlist', [Component.to_canonical_uri(c) if Component.get_type(c) == 8 and b'%' not in bytes(c)[2:]
                                    and b'=' not in bytes(c)[2:] else c for c in n]))
        except Exception:   # noqa
            pass
        return out
    empt = Component.from_bytes(b'')
    ex = [[], [empt], [empt, empt]]
    for (_, n0) in small[:ctx.n(12, 60)]:
        ex += [list(n0) + [empt], list(n0) + [empt, empt], [empt] + list(n0)]
    ex_names = [n for (_, n) in small[:ctx.n(25, 120)]] + ex
    for a in ex_names:
        ra = reps(a)
        for b in rng.sample(ex_names, min(len(ex_names), ctx.n(12, 40))) + [a, list(a) + [empt], a[:-1]]:
            want = len(a) <= len(b) and all(bytes(x) == bytes(y) for x, y in zip(a, b))
            for ta, xa in ra:
                for tb, xb in reps(b):
                    if ta == 'list' and tb == 'list':
                        continue
                    r = impl(Name.is_prefix, xa, xb)
                    if r[0] != 'ok' or bool(r[1]) != want:
                        ctx.violation('Name.is_prefix', 'prefix-vs-componentwise',
                                      f'is_prefix({ta}, {tb}) = {r[1:]}, component-wise equality says {want}', (xa, xb))
            ctx.case(('pair-reps', tuple(a), tuple(b)), True, None, 'pairs.representations')
    # every conversion that takes a name, given the name in every accepted representation (also a memoryview of the wire):
    # the result is the one for the component list -- the canonical URI, the URI, the wire and the normal form of a name do
    # not depend on how the argument was written
    convs = [('Name.to_canonical_uri', Name.to_canonical_uri, lambda x: x), ('Name.to_str', Name.to_str, lambda x: x),
             ('Name.to_bytes', Name.to_bytes, bytes), ('Name.normalize', Name.normalize, lambda x: [bytes(c) for c in x])]
    for a in ex_names:
        ra = reps(a)
        ra.append(('wire-view', memoryview(bytes(Name.encode(a)))))
        ra.append(('wire-bytearray', bytearray(Name.encode(a))))
        for site, f, conv in convs:
            base = impl(f, list(a))
            for ta, xa in ra:
                if ta == 'list':
                    continue
                r = impl(f, xa)
                if base[0] != 'ok' or r[0] != 'ok' or conv(r[1]) != conv(base[1]):
                    ctx.violation(site, 'conversion-depends-on-representation',
                                  f'{site}(<{ta}>) = {r[1:]!r:.120} but for the component list of the same name {base[1:]!r:.120}',
                                  {'name': [bytes(c) for c in a], 'representation': ta,
                                   'argument': bytes(xa) if isinstance(xa, (bytes, bytearray, memoryview)) else xa})
        ctx.case(('conv-reps', tuple(a)), len(a) > 0, None, 'names.conversions.representations')


def check_comp(ctx, M, Component, c, t, val):
    """A well-formed component: model correspondence + round-trip oracles."""
    r1 = impl(Component.to_canonical_uri, c)
    cmp_res(ctx, 'Component.to_canonical_uri', c, M([3, c]), r1, s_of_str)
    r2 = impl(Component.to_str, c)
    cmp_res(ctx, 'Component.to_str', c, M([2, c]), r2, s_of_str)
    if r1[0] == 'ok':
        back = impl(Component.from_str, r1[1])
        cmp_res(ctx, 'Component.from_str', r1[1], M([1, s_of_str(r1[1])]), back, bytes)
        if back[0] != 'ok' or bytes(back[1]) != c:
            ctx.violation('Component.from_str/to_canonical_uri', 'canonical-uri-roundtrip',
                          f'from_str(to_canonical_uri(c)) != c  ({r1[1]!r} -> {back[1:]!r})', c)
    else:
        ctx.violation('Component.to_canonical_uri', 'canonical-uri-raises', f'raises {r1[2]} on a well-formed component', c)
    if r2[0] == 'ok':
        if t not in (50, 52, 54, 56, 58) or len(val) not in (1, 2, 4, 8) or val == TVpack(int.from_bytes(val, 'big')):
            back = impl(Component.from_str, r2[1])
            if back[0] != 'ok' or bytes(back[1]) != c:
                ctx.violation('Component.from_str/to_str', 'uri-roundtrip',
                              f'from_str(to_str(c)) != c  ({r2[1]!r} -> {back[1:]!r})', c)
    else:
        ctx.violation('Component.to_str', 'to-str-raises', f'raises {r2[2]} on a well-formed component', c)
    ctx.case(('comp', c), True, {'op': 'component', 'type': t, 'value': val}, 'comp.valid')


def TVpack(n):
    return n.to_bytes(1 if n <= 0xFF else 2 if n <= 0xFFFF else 4 if n <= 0xFFFFFFFF else 8, 'big')


def check_name(ctx, M, Name, Component, tvs, n):
    # wire round trip
    w = impl(lambda: bytes(Name.encode(n)))
    mw = M([8, n])
    if w[0] != 'ok' or mw != w[1]:
        ctx.disagree('Name.encode', 'different results', n, mw, w[1:])
    if w[0] == 'ok':
        d = impl(Name.decode, w[1])
        cmp_res(ctx, 'Name.decode', w[1], M([7, w[1]]), d, lambda x: [name_b(x[0]), x[1]])
        if d[0] != 'ok' or name_b(d[1][0]) != n or d[1][1] != len(w[1]):
            ctx.violation('Name.decode/encode', 'wire-roundtrip', 'decode(encode(n)) != n', n)
    # the shorthand is used for values of 1/2/4/8 octets only; among those the round trip needs the shortest width
    all_canonical = all(t not in (50, 52, 54, 56, 58) or len(v) not in (1, 2, 4, 8) or v == TVpack(int.from_bytes(v, 'big'))
                        for t, v in tvs)
    for site, fn, op, need in (('Name.to_canonical_uri', Name.to_canonical_uri, 6, False), ('Name.to_str', Name.to_str, 5, True)):
        u = impl(fn, n)
        cmp_res(ctx, site, n, M([op, n]), u, s_of_str)
        if u[0] == 'ok':
            if need and not all_canonical:
                continue
            back = impl(Name.from_str, u[1])
            cmp_res(ctx, 'Name.from_str', u[1], M([4, s_of_str(u[1])]), back, name_b)
            if back[0] != 'ok' or name_b(back[1]) != n:
                ctx.violation(site + '/from_str', 'name-uri-roundtrip', f'from_str({site}(n)) != n  ({u[1]!r})', n)
            # every accepted form normalises to the same components
            forms = [u[1], n, [bytearray(c) for c in n], w[1] if w[0] == 'ok' else n,
                     [Component.to_canonical_uri(c) if (i % 2 == 0 and Component.get_type(c) == 8
                                                        and b'%' not in c and b'=' not in c) else c for i, c in enumerate(n)]]
            for f in forms:
                nz = impl(Name.normalize, f)
                if nz[0] != 'ok' or name_b(nz[1]) != n:
                    ctx.violation('Name.normalize', 'normalize-agree', f'normalize({type(f).__name__}) differs from the component list', (n, repr(f)))
        else:
            ctx.violation(site, 'uri-raises', f'raises {u[2]} on a well-formed name', n)
    # list-of-str normalisation through the model
    ns = [[1, s_of_str(Component.to_canonical_uri(c))] if Component.get_type(c) == 8 and b'%' not in bytes(c)[2:] and b'=' not in bytes(c)[2:]
          else [0, c] for c in n]
    pyform = [Component.to_canonical_uri(c) if x[0] == 1 else c for x, c in zip(ns, n)]
    cmp_res(ctx, 'Name.normalize(list)', n, M([9, [2, ns]]), impl(Name.normalize, pyform), name_b)
    cmp_res(ctx, 'Name.to_bytes', n, M([18, [2, ns]]), impl(Name.to_bytes, pyform), bytes)
    ctx.case(('name', tuple(n)), len(n) > 0, {'op': 'name', 'components': tvs}, f'name.len{len(n)}')
