"""C07 — packet decoders accept exactly the well-formed packets.

Per wire and decoder (parse_interest, parse_data, parse_lp_packet_v2, parse_certificate, Name.from_bytes):
 * correspondence: extracted model decoder (Model/Packet.v) vs the implementation: accept/reject + fields;
 * oracle: the extracted STRICT reader (Spec/StrictTlv.v) on the same wire:
     implementation accepts, strict rejects  -> violation (class by an independent walker of the wire)
     both accept, fields differ              -> violation
     strict accepts, implementation rejects  -> violation
     implementation raises an undocumented exception class -> violation
"""
import struct

from harness.lib import gen as G
from harness.lib import tlvdesc as D
from harness.lib import tlvgen as TG
from harness.lib.model import is_err

RULE = ('harness-encoded Data / certificate / Interest carrying EVERY optional element of the packet format in the format order (incl. ValidityPeriod then AdditionalDescription in a certificate): every element must be extracted (class format-element-not-extracted); valid Interest/Data/LpPacket/certificate wires built with the real encoders (all parameter combinations, '
        'digest/HMAC/ECDSA signers, LP header subsets) and grammar-generated ones from the reflected descriptors; '
        'every single-edit mutant class: length fields +-1/x2/253-form/65536-form/non-minimal, truncations, duplicated/'
        'swapped/deleted/unknown (critical and not) elements at every nesting level, byte flips, random bytes up to 4 kB; '
        'elements / name components whose Length uses the 9-octet form with values >= 2^63; every decode runs under a 3 s limit. '
        'non-trivial = wire of >= 4 bytes; distinct by (decoder, wire) hash')
ASSUMPTIONS = ['documented decoding errors = DecodeError, IndexError, ValueError (incl. UnicodeDecodeError), struct.error']

DOCUMENTED = None


def documented(e):
    from ndn.encoding import DecodeError
    return isinstance(e, (DecodeError, IndexError, ValueError, struct.error))


def canon(v):
    """Canonical form of a value list for comparison: empty sub-structures that the tuple API cannot
    distinguish from absence are normalised on both sides by the callers."""
    return v


class Dec:
    def __init__(self, name, op, cls, fn, conv):
        self.name, self.op, self.cls, self.fn, self.conv = name, op, cls, fn, conv
        self.desc = D.reflect_class(cls) if cls is not None else None


def sinfo_val(desc, si):
    return D.from_py(desc, si) if si is not None else None


def field_desc(d, t):
    for ft, fd in d[2]:
        if ft == t:
            return fd
    raise KeyError(t)


def build_decoders():
    from ndn.encoding import ndn_format_0_3 as F, ndnlp_v2 as LP
    from ndn.encoding.name import Name
    from ndn.app_support import security_v2 as SV
    decs = []

    idesc = D.reflect_class(F.InterestPacketValue)

    def conv_interest(r):
        name, params, app, ptrs = r
        fh = None
        if params.forwarding_hint:
            fh = ('m', [('l', [('n', [bytes(c) for c in n]) for n in params.forwarding_hint])])
        vals = {7: ('n', [bytes(c) for c in name]),
                0x21: ('t',) if params.can_be_prefix else None,
                0x12: ('t',) if params.must_be_fresh else None,
                0x1e: fh,
                0x0a: None if params.nonce is None else ('u', params.nonce),
                0x0c: None if params.lifetime is None else ('u', params.lifetime),
                0x22: None if params.hop_limit is None else ('u', params.hop_limit),
                0x24: None if app is None else ('b', bytes(app)),
                0x2c: sinfo_val(field_desc(idesc, 0x2c), ptrs.signature_info),
                0x2e: None if ptrs.signature_value_buf is None else ('b', bytes(ptrs.signature_value_buf))}
        return [vals[t] for t, _ in idesc[2]]
    d = Dec('parse_interest', 1, F.InterestPacketValue, F.parse_interest, conv_interest)
    decs.append(d)

    ddesc = D.reflect_class(F.DataPacketValue)

    def conv_data(r, desc=ddesc):
        name, meta, content, ptrs = r
        mdesc = field_desc(desc, 0x14)
        mv = D.from_py(mdesc, meta)
        vals = {7: ('n', [bytes(c) for c in name]), 0x14: mv,
                0x15: None if content is None else ('b', bytes(content)),
                0x16: sinfo_val(field_desc(desc, 0x16), ptrs.signature_info),
                0x17: None if ptrs.signature_value_buf is None else ('b', bytes(ptrs.signature_value_buf))}
        return [vals[t] for t, _ in desc[2]]
    decs.append(Dec('parse_data', 2, F.DataPacketValue, F.parse_data, conv_data))

    ldesc = D.reflect_class(LP.LpPacketValue)
    decs.append(Dec('parse_lp_packet_v2', 3, LP.LpPacketValue, LP.parse_lp_packet_v2,
                    lambda o: D.from_py(ldesc, o)[1]))
    cdesc = D.reflect_class(SV.CertificateV2Value)
    decs.append(Dec('parse_certificate', 4, SV.CertificateV2Value, SV.parse_certificate,
                    lambda o: D.from_py(cdesc, o)[1]))
    decs.append(Dec('Name.from_bytes', 5, None, Name.from_bytes, lambda n: [bytes(c) for c in n]))
    return decs


def norm_model_vals(dec, vals):
    """Model/strict answers -> the same canonical form the adapters produce."""
    if dec.op == 5:
        return vals
    vs = [D.val_of_sexp(x) for x in vals]
    if dec.op == 1:
        # tuple API: a ForwardingHint without names is indistinguishable from none
        i = [t for t, _ in dec.desc[2]].index(0x1e)
        if vs[i] is not None and vs[i][1][0] is None:
            vs[i] = None
    if dec.op == 2:
        # tuple API: absent MetaInfo is reported as MetaInfo() = (content_type 0, None, None)
        i = [t for t, _ in dec.desc[2]].index(0x14)
        if vs[i] is None:
            vs[i] = ('m', [('u', 0), None, None])
    return vs


def overrun(w, desc):
    """Independent walker: does some element (at any level the descriptor recognises) run past its parent?"""
    off, n = 0, len(w)
    while off < n:
        try:
            t, a = TG.read_num(w, off)
            l, b = TG.read_num(w, off + a)
        except Exception:
            return False
        body = w[off + a + b: off + a + b + l]
        if off + a + b + l > n:
            return True
        if desc is not None:
            for ft, fd in desc[2]:
                sub = fd if fd[0] == 'model' else (fd[1] if fd[0] == 'rep' and fd[1][0] == 'model' else None)
                if ft == t and sub is not None and overrun(body, sub):
                    return True
        off += a + b + l
    return False


ORDER = {1: [7, 0x21, 0x12, 0x1e, 0x0a, 0x0c, 0x22, 0x24, 0x2c, 0x2e], 2: [7, 0x14, 0x15, 0x16, 0x17]}


def canonical_order(op, v):
    els = TG.tlv_walk(v)
    if els is None:
        return False
    idx = [ORDER[op].index(t) for t, _ in els if t in ORDER[op]]
    return all(a < b for a, b in zip(idx, idx[1:]))


def check_pointers(ctx, M, dec, w, raw, case):
    """The signature / digest pointers that parse_interest / parse_data extract are fields too: on a strictly
    well-formed packet whose recognised elements are in declared order they must be the specified portions."""
    try:
        _, a = TG.read_num(w, 0)
        _, b = TG.read_num(w, a)
    except Exception:   # noqa
        return
    v = w[a + b:]
    if not canonical_order(dec.op, v):
        return
    ptrs = raw[3]
    if ptrs.signature_info is not None and ptrs.signature_value_buf is not None:
        spec = M([31 if dec.op == 1 else 30, v])
        spec = spec[0] if spec else None
        rep = b''.join(bytes(x) for x in ptrs.signature_covered_part)
        if spec is not None and rep != spec:
            ctx.violation(dec.name, 'covered-part-mismatch',
                          'SignaturePtrs.signature_covered_part differs from the specified signed portion of the packet', case)
    if dec.op == 1 and ptrs.digest_value_buf is not None:
        dp, dc = M([32, v]), M([33, v])
        if dp and dc:
            if b''.join(bytes(x) for x in ptrs.digest_covered_part) != dp[0] or bytes(ptrs.digest_value_buf) != dc[0]:
                ctx.violation(dec.name, 'digest-pointers-mismatch',
                              'digest_covered_part / digest_value_buf differ from the strict reading', case)


def check_ptrs_model(ctx, M, dec, w, raw, case):
    """Correspondence of the REPORTED pointers (signature_covered_part, signature_value_buf, digest_covered_part,
    digest_value_buf) with Model/PacketPtrs.v (the walk over the reflected declared order, markers included), on
    every packet the library accepts -- canonical or not."""
    try:
        _, a = TG.read_num(w, 0)
        _, b = TG.read_num(w, a)
    except Exception:   # noqa
        return
    v = bytes(w[a + b:])
    if dec.op == 4:
        from ndn.app_support import security_v2 as SV
        mk = {}
        try:
            SV.CertificateV2Value.parse(v, mk)
        except Exception:   # noqa
            return
        cov = SV.CertificateV2Value._sig_cover_part.get_arg(mk) or []
        sv = SV.CertificateV2Value._sig_value_buf.get_arg(mk)
        impl = [[bytes(x) for x in cov], [] if sv is None else [bytes(sv)], [], []]
        m = M([36, v])
    else:
        ptrs = raw[3]
        impl = [[bytes(x) for x in (ptrs.signature_covered_part or [])],
                [] if ptrs.signature_value_buf is None else [bytes(ptrs.signature_value_buf)],
                [bytes(x) for x in (ptrs.digest_covered_part or [])],
                [] if ptrs.digest_value_buf is None else [bytes(ptrs.digest_value_buf)]]
        m = M([34 if dec.op == 1 else 35, v])
    if is_err(m):
        ctx.disagree(dec.name + '.ptrs', 'pointer model rejects, implementation accepts', case, m, impl)
        return
    mm = [[bytes(x) for x in m[1][0]], [bytes(x) for x in m[1][1]], [bytes(x) for x in m[1][2]], [bytes(x) for x in m[1][3]]]
    # blocks are compared as concatenations (how the list is cut into blocks is not observable by a verifier)
    flat = lambda p: [b''.join(p[0]), p[1], b''.join(p[2]), p[3]]     # noqa
    if flat(mm) != flat(impl):
        ctx.disagree(dec.name + '.ptrs', 'reported pointers differ from Model/PacketPtrs.v', case, flat(mm), flat(impl))
    ctx.stat('ptrs.model-compared')


class Hang(Exception):
    """the decoder did not return within the time limit"""


def with_alarm(fn, secs=3.0):
    """run fn() under a wall-clock limit (decoding must terminate in time proportional to the input; the inputs here
    are at most a few kB)"""
    import signal

    def on_alarm(sig, frm):
        raise Hang()
    old = signal.signal(signal.SIGALRM, on_alarm)
    signal.setitimer(signal.ITIMER_REAL, secs)
    try:
        return fn()
    finally:
        signal.setitimer(signal.ITIMER_REAL, 0)
        signal.signal(signal.SIGALRM, old)


def huge_length_wires(w):
    """Packets with an element whose Length uses the 9-octet form with values at and above 2^63 (what a signed read
    of the 8 octets turns negative), placed as an unknown non-critical element after each top-level element of the
    packet value, and as a name component; enclosing Lengths fixed up."""
    out = []
    try:
        t0, a = TG.read_num(w, 0)
        _, b = TG.read_num(w, a)
        els = TG.tlv_walk(w[a + b:])
    except Exception:   # noqa
        return out
    if not els:
        return out
    lens = [1 << 63, (1 << 63) + 5, (1 << 64) - 1] + [(1 << 64) - k for k in (2, 9, 10, 11, 12, 18, 20)]
    for L in lens:
        for ut in (0xf0, 0x80):
            junk = bytes([ut, 0xff]) + L.to_bytes(8, 'big')
            for i in (len(els), 1):
                body = TG.ser(els[:i]) + junk + TG.ser(els[i:])
                out.append(G.tlv(t0, body))
        # as a component inside the Name (the first element of these packets)
        if els[0][0] == 7:
            comp = bytes([8, 0xff]) + L.to_bytes(8, 'big')
            out.append(G.tlv(t0, G.tlv(7, els[0][1] + comp) + TG.ser(els[1:])))
    return out


def check_wire(ctx, M, dec, w, origin):
    raw = None
    try:
        raw = with_alarm(lambda: dec.fn(w))
        r = ('ok', dec.conv(raw))
    except Hang:
        ctx.violation(dec.name, 'does-not-terminate', 'the decoder did not return within 3 s on a packet of '
                      f'{len(w)} bytes', {'decoder': dec.name, 'wire': w, 'origin': origin})
        ctx.case((dec.op, w), True, None, f'{dec.name}.{origin}.hang')
        return
    except MemoryError:
        ctx.violation(dec.name, 'undocumented-exception:MemoryError', 'MemoryError while decoding',
                      {'decoder': dec.name, 'wire': w, 'origin': origin})
        return
    except Exception as e:   # noqa
        r = ('err', type(e).__name__, documented(e))
    m = M([dec.op, w])
    s = M([10 + dec.op, w]) if dec.op != 5 else None
    case = {'decoder': dec.name, 'wire': w, 'origin': origin}
    # correspondence
    if is_err(m):
        if m[1] in (98, 99):
            ctx.disagree(dec.name, 'model bad request / out of fuel', case, m, None)
        elif r[0] == 'ok':
            ctx.disagree(dec.name, 'model rejects, implementation accepts', case, m, r[1])
    else:
        mv = norm_model_vals(dec, m[1])
        if r[0] == 'err':
            ctx.disagree(dec.name, 'implementation rejects, model accepts', case, mv, r[1])
        elif mv != r[1]:
            ctx.disagree(dec.name, 'different fields', case, mv, r[1])
    if r[0] == 'ok' and dec.op in (1, 2, 4):
        check_ptrs_model(ctx, M, dec, w, raw, case)
    # oracle
    if r[0] == 'err' and not r[2]:
        ctx.violation(dec.name, 'undocumented-exception:' + r[1], f'raises {r[1]}, not a documented decoding error', case)
    if s is not None:
        if is_err(s):
            if r[0] == 'ok':
                inner = w
                try:
                    _, a = TG.read_num(w, 0)
                    _, b = TG.read_num(w, a)
                    inner = w[a + b:]
                except Exception:
                    pass
                cls = 'element-overruns-parent' if overrun(inner, dec.desc) else 'accepts-malformed'
                ctx.violation(dec.name, cls, 'accepted by the library, refused by a strict reading of the format', case)
        else:
            sv = norm_model_vals(dec, s[1])
            if r[0] == 'err':
                ctx.violation(dec.name, 'rejects-well-formed', f'strictly well-formed packet rejected with {r[1]}', case)
            elif sv != r[1]:
                ctx.violation(dec.name, 'field-mismatch', 'extracted fields differ from the strict reading', case)
            elif dec.op in (1, 2) and raw is not None:
                check_pointers(ctx, M, dec, w, raw, case)
    ctx.case((dec.op, w), len(w) >= 4, case if r[0] == 'ok' else None, f'{dec.name}.{origin}.{r[0]}')


def length_edits(rng, w):
    """Mutants of one Type/Length number of a (mostly valid) wire."""
    out = []
    # collect positions of TL numbers by a tolerant walk over nested structure (one random path)
    pos = []

    def walk(lo, hi, depth):
        off = lo
        while off < hi and len(pos) < 200:
            try:
                t, a = TG.read_num(w, off)
                l, b = TG.read_num(w, off + a)
            except Exception:
                return
            pos.append((off, a, t, 'T'))
            pos.append((off + a, b, l, 'L'))
            if depth < 4 and l >= 2 and off + a + b + l <= hi:
                walk(off + a + b, off + a + b + l, depth + 1)
            off += a + b + l
    walk(0, len(w), 0)
    if not pos:
        return out
    for _ in range(4):
        off, sz, v, kind = rng.choice(pos)
        nv = rng.choice([v + 1, max(0, v - 1), v * 2, 0, 252, 253, 65535, 65536, v, v]) % (1 << 64)
        forms = [G.tl(nv)]
        if nv <= 0xFFFF:
            forms.append(b'\xfd' + nv.to_bytes(2, 'big'))      # non-minimal 3-byte form
        if nv <= 0xFFFFFFFF:
            forms.append(b'\xfe' + nv.to_bytes(4, 'big'))
        forms.append(b'\xff' + (nv % (1 << 64)).to_bytes(8, 'big'))
        out.append(w[:off] + rng.choice(forms) + w[off + sz:])
    return out


def valid_packets(ctx):
    """(decoder index, wire) pairs built with the real encoders."""
    from ndn.encoding import make_interest, make_data, InterestParam, MetaInfo, ContentType
    from ndn.encoding import ndnlp_v2 as LP
    from ndn.security.signer import DigestSha256Signer, HmacSha256Signer
    from ndn.app_support import security_v2 as SV
    from Cryptodome.PublicKey import ECC
    from ndn.security.signer.sha256_ecdsa_signer import Sha256WithEcdsaSigner
    rng = ctx.rng
    out = []
    signers = [None, DigestSha256Signer(), DigestSha256Signer(for_interest=True), HmacSha256Signer('/k', b'secret')]
    key = ECC.generate(curve='P-256')
    der = key.export_key(format='DER')
    pub = key.public_key().export_key(format='DER')
    ecs = Sha256WithEcdsaSigner('/issuer/KEY/%01', der)
    signers.append(ecs)
    for i in range(ctx.n(60, 1500)):
        name = G.name_of_tv(G.rand_name_tv(rng, 5))
        ip = InterestParam(can_be_prefix=rng.random() < 0.5, must_be_fresh=rng.random() < 0.5,
                           nonce=rng.choice([None, 0, rng.getrandbits(32)]),
                           lifetime=rng.choice([None, 0, 4000, 70000, 1 << 40]),
                           hop_limit=rng.choice([None, 0, 255]),
                           forwarding_hint=[G.name_of_tv(G.rand_name_tv(rng, 2)) for _ in range(rng.choice([0, 0, 1, 3]))])
        app = rng.choice([None, None, b'', G.rand_bytes(rng, rng.choice([1, 10, 250, 300]))])
        sg = rng.choice(signers)
        if sg is not None and not isinstance(sg, DigestSha256Signer):
            pass
        if rng.random() < 0.3:
            k = rng.randint(0, len(name))
            name = name[:k] + [G.tlv(2, bytes(32))] + name[k:]
            if app is None and sg is None:
                app = b'q'
        try:
            out.append((0, bytes(make_interest(name, ip, app, sg))))
        except Exception:   # noqa  (e.g. a ParametersSha256 component in a random name)
            ctx.stat('valid.make_interest.err')
        mi = MetaInfo(content_type=rng.choice([None, 0, 1, 2, 3]), freshness_period=rng.choice([None, 0, 1000]),
                      final_block_id=rng.choice([None, G.tlv(50, b'\x05')]))
        out.append((1, bytes(make_data(name, mi, rng.choice([None, b'', G.rand_bytes(rng, rng.choice([1, 252, 253, 400]))]),
                                       rng.choice(signers)))))
    # LP packets: every header subset (sampled) around a fragment
    ldesc = D.reflect_class(LP.LpPacketValue)
    for i in range(ctx.n(60, 1500)):
        v = TG.rand_value(rng, ldesc)
        idx = {t: j for j, (t, _) in enumerate(ldesc[2])}
        if rng.random() < 0.85:
            v[1][idx[0x52]] = None
            v[1][idx[0x53]] = None
        if rng.random() < 0.7 and out:
            v[1][idx[0x50]] = ('b', rng.choice(out)[1])
        try:
            inner = bytes(D.to_py(ldesc, v).encode())
        except ValueError:
            continue
        out.append((2, G.tlv(0x64, inner)))
    for i in range(ctx.n(3, 20)):
        kn = '/id%d/KEY/%d' % (i, rng.getrandbits(16))
        _, cert = SV.self_sign(kn, pub, ecs)
        out.append((3, bytes(cert)))
        from datetime import datetime
        _, cert = SV.derive_cert(kn, 'issuer', pub, rng.choice([ecs, DigestSha256Signer()]),
                                 datetime(2024, 1, 1), rng.choice([0, 86400, 10 ** 8]))
        out.append((3, bytes(cert)))
        out.append((1, bytes(cert)))
    return out


# witnesses of the recorded known finding (Properties/C07Findings.v), replayed first on every run
KNOWN_WITNESSES = [(1, bytes([6, 5, 7, 0, 21, 10, 97])), (0, bytes([5, 5, 7, 0, 36, 10, 97])),
                   (2, bytes([100, 3, 80, 10, 97])), (3, bytes([6, 5, 7, 0, 21, 10, 97]))]


def format_order_packets(ctx):
    """Packets encoded BY THE HARNESS in the order the packet format gives (NDN packet format 0.3, certificate format 2.0),
    with EVERY optional element present, and what a reader of the format extracts from them.  The decoders' declared
    field order is reflected from the source (so the model follows it); this family is the independent statement of the
    order: an accepted packet must yield every element that the format says it carries."""
    from ndn.encoding import parse_interest, parse_data, Name
    from ndn.app_support.security_v2 import parse_certificate
    rng = ctx.rng
    tlv = G.tlv
    nm = [tlv(8, b'fmt'), tlv(8, G.rand_bytes(rng, 3))]
    name = tlv(7, b''.join(nm))
    kl_name = [tlv(8, b'k'), tlv(8, b'KEY'), tlv(8, b'\x01')]
    keyloc = tlv(0x1c, tlv(7, b''.join(kl_name)))
    fbi = tlv(50, b'\x09')
    meta = tlv(0x14, tlv(0x18, b'\x02') + tlv(0x19, b'\x0f\xa0') + tlv(0x1a, fbi))
    content = tlv(0x15, b'payload')
    sigval = tlv(0x17, bytes(32))
    # Data
    dsi = tlv(0x16, tlv(0x1b, b'\x03') + keyloc)
    data = tlv(6, name + meta + content + dsi + sigval)
    # certificate: SignatureType, KeyLocator, ValidityPeriod, AdditionalDescription
    entries = [(b'org', b'example'), (b'', b''), (b'k' * 5, G.rand_bytes(rng, 7))]
    desc = tlv(0x0102, b''.join(tlv(0x0200, tlv(0x0201, k) + tlv(0x0202, v)) for k, v in entries))
    nb, na = b'20240101T000000', b'20441231T235959'
    vp = tlv(0xFD, tlv(0xFE, nb) + tlv(0xFF, na))
    csi = tlv(0x16, tlv(0x1b, b'\x03') + keyloc + vp + desc)
    cert = tlv(6, name + meta + content + csi + sigval)
    # Interest: every element of the format
    hint = tlv(0x1e, tlv(7, tlv(8, b'hint')))
    app = tlv(0x24, b'pp')
    isi = tlv(0x2c, tlv(0x1b, b'\x00') + keyloc + tlv(0x26, b'\x01\x02\x03\x04') + tlv(0x28, b'\x05') + tlv(0x2a, b'\x07'))
    isv = tlv(0x2e, bytes(32))
    import hashlib
    dig = tlv(2, hashlib.sha256(app + isi + isv).digest())
    iname = tlv(7, b''.join(nm) + dig)
    interest = tlv(5, iname + tlv(0x21, b'') + tlv(0x12, b'') + hint + tlv(0x0a, b'\x00\x00\x00\x2a') + tlv(0x0c, b'\x0f\xa0')
                   + tlv(0x22, b'\x40') + app + isi + isv)

    def chk(site, what, got, want, wire):
        if got != want:
            ctx.violation(site, 'format-element-not-extracted',
                          f'{what}: the packet carries {want!r:.80} in the place the format gives, the decoder returns {got!r:.80}',
                          {'wire': wire, 'element': what})

    def b(x):
        return None if x is None else bytes(x)
    try:
        n, mi, c, p = parse_data(data)
        chk('parse_data', 'name', [bytes(x) for x in n], nm, data)
        chk('parse_data', 'MetaInfo', (mi.content_type, mi.freshness_period, b(mi.final_block_id)), (2, 4000, fbi), data)
        chk('parse_data', 'Content', b(c), b'payload', data)
        chk('parse_data', 'SignatureInfo', (p.signature_info.signature_type, [bytes(x) for x in p.signature_info.key_locator.name]), (3, kl_name), data)
        chk('parse_data', 'SignatureValue', b(p.signature_value_buf), bytes(32), data)
    except Exception as e:   # noqa
        ctx.violation('parse_data', 'format-order-packet-refused', f'{type(e).__name__}: {e}'[:150], {'wire': data})
    try:
        cv = parse_certificate(cert)
        si = cv.signature_info
        chk('parse_certificate', 'name', [bytes(x) for x in cv.name], nm, cert)
        chk('parse_certificate', 'Content', b(cv.content), b'payload', cert)
        chk('parse_certificate', 'SignatureType/KeyLocator', (si.signature_type, [bytes(x) for x in si.key_locator.name]), (3, kl_name), cert)
        chk('parse_certificate', 'ValidityPeriod', None if si.validity_period is None else (b(si.validity_period.not_before), b(si.validity_period.not_after)), (nb, na), cert)
        ad = si.additional_description
        chk('parse_certificate', 'AdditionalDescription',
            None if ad is None else [(b(e.description_key), b(e.description_value)) for e in ad.description_entry], entries, cert)
    except Exception as e:   # noqa
        ctx.violation('parse_certificate', 'format-order-packet-refused', f'{type(e).__name__}: {e}'[:150], {'wire': cert})
    try:
        n, ip, ap, p = parse_interest(interest)
        chk('parse_interest', 'name', [bytes(x) for x in n], nm + [dig], interest)
        chk('parse_interest', 'selectors', (ip.can_be_prefix, ip.must_be_fresh, [[bytes(x) for x in h] for h in ip.forwarding_hint], ip.nonce,
                                           ip.lifetime, ip.hop_limit), (True, True, [[tlv(8, b'hint')]], 42, 4000, 64), interest)
        chk('parse_interest', 'ApplicationParameters', b(ap), b'pp', interest)
        si = p.signature_info
        chk('parse_interest', 'InterestSignatureInfo', (si.signature_type, [bytes(x) for x in si.key_locator.name], si.signature_nonce,
                                                        si.signature_time, si.signature_seq_num), (0, kl_name, 0x01020304, 5, 7), interest)
        chk('parse_interest', 'InterestSignatureValue', b(p.signature_value_buf), bytes(32), interest)
    except Exception as e:   # noqa
        ctx.violation('parse_interest', 'format-order-packet-refused', f'{type(e).__name__}: {e}'[:150], {'wire': interest})
    for k, w in (('data', data), ('cert', cert), ('interest', interest)):
        ctx.case(('fmt-order', k, w), True, None, 'format-order.' + k)
    return [(1, data), (3, cert), (0, interest)]


def run(ctx):
    rng = ctx.rng
    M = ctx.call
    decs = build_decoders()
    for _ in range(ctx.n(5, 60)):
        format_order_packets(ctx)
    for di, w in KNOWN_WITNESSES:
        check_wire(ctx, M, decs[di], w, 'corpus')
    packets = valid_packets(ctx)
    for di, w in packets:
        dec = decs[di]
        check_wire(ctx, M, dec, w, 'valid')
        # the same wire through every other decoder (wrong outer type etc.)
        check_wire(ctx, M, decs[rng.randrange(4)], w, 'cross')
        # truncations and byte-level mutants
        for _ in range(ctx.n(4, 12)):
            check_wire(ctx, M, dec, G.mutate_bytes(rng, w), 'bytemut')
        for w2 in length_edits(rng, w):
            check_wire(ctx, M, dec, w2, 'lenedit')
        if di < 4 and rng.random() < ctx.n(0.15, 0.5):
            for w2 in huge_length_wires(w):
                check_wire(ctx, M, dec, w2, 'hugelen')
        # structural edits inside the outer element, at every level
        try:
            t0, a = TG.read_num(w, 0)
            l0, b = TG.read_num(w, a)
        except Exception:
            continue
        inner = w[a + b:]
        tr = TG.tree_of(dec.desc, inner)
        if tr is None:
            continue
        import copy
        edits = []
        for path, children, ld in TG.levels(tr, dec.desc):
            for posn in range(len(children) + 1):
                edits.append(('ins', path, posn))
            for posn in range(len(children)):
                edits += [('dup', path, posn), ('del', path, posn)]
                if posn + 1 < len(children):
                    edits.append(('swap', path, posn))
                if ld is not None and any(ft == children[posn][0] and fd[0] == 'uint' for ft, fd in ld[2]):
                    edits += [('width', path, posn)] * 3
        for kind, path, posn in rng.sample(edits, min(len(edits), ctx.n(8, 40))):
            tr2 = copy.deepcopy(tr)
            lvl = tr2
            for i in path:
                lvl = lvl[i][1]
            if kind == 'ins':
                lvl.insert(posn, [rng.choice([0x80, 0x81, 0x7e, 0x7f, 0x320, 0x321, 253, 254, 65537, 9, 10]),
                                  G.rand_bytes(rng, rng.choice([0, 1, 4])), None])
            elif kind == 'dup':
                lvl.insert(posn, copy.deepcopy(lvl[posn]))
            elif kind == 'del':
                del lvl[posn]
            elif kind == 'width':
                lvl[posn][1] = G.rand_bytes(rng, rng.choice([0, 3, 5, 6, 7, 9, 16]))
            else:
                lvl[posn], lvl[posn + 1] = lvl[posn + 1], lvl[posn]
            check_wire(ctx, M, dec, G.tlv(t0, TG.ser_tree(tr2)), 'struct.' + kind)
    # names
    for _ in range(ctx.n(400, 8000)):
        n = G.name_of_tv(G.rand_name_tv(rng, 6))
        w = G.tlv(7, b''.join(n))
        check_wire(ctx, M, decs[4], w, 'valid')
        check_wire(ctx, M, decs[4], G.mutate_bytes(rng, w), 'bytemut')
        for w2 in length_edits(rng, w)[:2]:
            check_wire(ctx, M, decs[4], w2, 'lenedit')
    # uniformly random byte strings (and random bytes behind a plausible header)
    for _ in range(ctx.n(1500, 40000)):
        k = rng.random()
        n = rng.choice([0, 1, 2, 3, 5, 8, 16, 40, 200]) if k < 0.95 else rng.randint(1000, 4096)
        body = G.rand_bytes(rng, n)
        dec = decs[rng.randrange(5)]
        w = body if rng.random() < 0.3 else G.tlv({1: 5, 2: 6, 3: 0x64, 4: 6, 5: 7}[dec.op], body)
        check_wire(ctx, M, dec, w, 'random')


def replay(ctx, data):
    """Re-run one recorded case: {'case': {'decoder': name, 'wire': 'hex:..'}}."""
    from harness.lib.core import unjson
    decs = {d.name: d for d in build_decoders()}
    case = unjson(data.get('case', {}))
    if isinstance(case, dict) and case.get('decoder') in decs and isinstance(case.get('wire'), (bytes, bytearray)):
        check_wire(ctx, ctx.call, decs[case['decoder']], bytes(case['wire']), 'replay')
    else:
        ctx.notes.append('replay file carries no single (decoder, wire) case; full run repeated')
        run(ctx)
