"""C19 streams D and E: SEVERAL fetches at once.  The property quantifies over histories AND schedules: a fetch must
deliver its object whatever else the application is doing - in particular while other fetches of the same or an
overlapping object run over the same application object, started at other times, with other retry limits and lifetimes.
Each fetch is judged by the specification ON ITS OWN: by Spec.expected on the scenario as THAT fetch met it.

 D. 2-3 fetchers over ONE fake application on the virtual-time loop.  Every fetch has its own scenario (fates per key
    and attempt, discovery answer, prefix form, retry_times, lifetime, must_be_fresh, start time); answers take time (a
    round trip; a slow segment is not available before an absolute time), so the fetchers really interleave; like the
    real application, the fake one hands ALL receivers of one Data - same name, same arrival time - the SAME
    (name, meta, content) objects.
 E. 2-3 fetchers over ONE real ndn.app.NDNApp whose face is a network given by a *schedule*: for every name the
    response to the j-th Interest the network sees for it (Data after a delay, Data failing validation, Nack with a
    reason form, nothing), with or without forwarder-like aggregation (an Interest for a name whose response is on its
    way triggers nothing).  The face logs, in one sequence, every Interest (with the fetch that sent it: the task that
    called send) and every packet handed to the application.  From this log alone the scenario each fetch met is read
    off with the words of the property (and of C03): the n-th Interest of a fetch for a key is *Delivered* / *Invalid*
    when a matching Data (same name; any longer name for the CanBePrefix discovery Interest) reached the application
    after it was sent and strictly before its lifetime ran out, *Nacked* when a Nack for its name did, *Lost*
    otherwise; the discovery answer is the Data that answered the discovery Interest.  One Data may so answer Interests
    of several fetches, expressed at different times, with different deadlines.
"""
import asyncio
import hashlib

from harness.lib import vtloop
from harness.props import c19 as H
from harness.props import _pipeline as P

EPS = 1e-4          # seconds; packets closer than this to a deadline they could decide are a tie: the case is not judged
SITE_D = 'segment_fetcher(concurrent)'
SITE_E = 'segment_fetcher+NDNApp(concurrent)'


def ms(t):
    return int(round(t * 1000))


def ending_of(e, box):
    from ndn import types as T
    if e is None:
        return (0,)
    if isinstance(e, T.InterestTimeout):
        return (1, (0,))
    if isinstance(e, T.InterestNack):
        box['reason'] = e.reason
        return (1, (1,))
    if isinstance(e, T.ValidationFailure):
        return (1, (2,))
    if isinstance(e, H.Other):
        return (1, (3, e.n))
    return (1, (4, H.exc_code(e)))


async def one_fetch(app, reg, f, fc, trace, out, validator):
    """fetch number f: wait for its start time, run the real segment_fetcher, record yields and the ending."""
    from ndn.app_support.segment_fetcher import segment_fetcher
    reg[asyncio.current_task()] = f
    if fc['start']:
        await asyncio.sleep(fc['start'] / 1000.0)
    box = {}
    kw = {'retry_times': fc['retry'], 'timeout': fc['lifetime'], 'must_be_fresh': fc['mbf']}
    if validator is not None:
        kw['validator'] = validator
    try:
        async for c in segment_fetcher(app, fc['prefix'], **kw):
            trace.append(['yield', bytes(c)])
            if len(trace) > 4000:
                out[f] = ((9,), box)
                return
        out[f] = ((0,), box)
    except Exception as e:  # noqa
        out[f] = (ending_of(e, box), box)


# =====================================================================================================
# D: one fake application, several fetches
# =====================================================================================================
class SharedFakeApp:
    def __init__(self, loop, fetches, share):
        self.loop = loop
        self.fetches = fetches          # per fetch: scenario s, answer, rtt, avail {data name tuple: absolute ms}, nack_reason
        self.share = share
        self.by_task = {}
        self.traces = [[] for _ in fetches]
        self.kwlogs = [[] for _ in fetches]
        self.counts = {}
        self.cache = {}
        self.t0 = loop.time()
        self.total = 0

    def express_interest(self, name, app_param=None, validator=None, need_raw_packet=False, **kwargs):
        from ndn.encoding import Name, MetaInfo, InterestParam
        from ndn import types as T
        f = self.by_task[asyncio.current_task()]
        fc = self.fetches[f]
        ip = InterestParam.from_dict(dict(kwargs))
        self.kwlogs[f].append((validator, app_param, need_raw_packet, sorted(kwargs)))
        q = (H.nb(Name.normalize(name)), bool(ip.can_be_prefix), bool(ip.must_be_fresh), ip.lifetime)
        key = (f, repr(q))
        n = self.counts.get(key, 0)
        self.counts[key] = n + 1
        self.total += 1
        if self.total > 3000:
            raise RuntimeError('runaway fetch: more than 3000 Interests')
        r = fc['answer'](q, n)
        self.traces[f].append(['ask', q, r, n])
        now = ms(self.loop.time() - self.t0)
        life = ip.lifetime if ip.lifetime is not None else 4000

        async def co():
            if r[0] == 'data':
                at = max(now + fc['rtt'], fc['avail'].get(tuple(r[1]), 0))
                at = min(at, now + max(1, life - 1))          # a delivered answer arrives inside the lifetime
                await asyncio.sleep((at - now) / 1000.0)
                ck = (tuple(r[1]), at) if self.share else (f, self.total, now)
                if ck not in self.cache:
                    self.cache[ck] = (list(r[1]), MetaInfo(final_block_id=r[3]), r[2])
                return self.cache[ck]
            x = r[1]
            if x[0] == 0:
                await asyncio.sleep(life / 1000.0)
                raise T.InterestTimeout()
            await asyncio.sleep(fc['rtt'] / 1000.0)
            if x[0] == 1:
                raise T.InterestNack(fc['nack_reason'])
            if x[0] == 2:
                raise T.ValidationFailure(q[0], MetaInfo(), b'', None)
            raise H.Other(x[1])
        return co()


def run_fake(fetches, share):
    loop = vtloop.new_loop()
    try:
        app = SharedFakeApp(loop, fetches, share)
        out = {}
        validators = [object() for _ in fetches]

        async def main():
            await asyncio.gather(*[one_fetch(app, app.by_task, f, fc, app.traces[f], out, validators[f])
                                   for f, fc in enumerate(fetches)])
        loop.run_until_complete(main())
        errors = loop.collect_errors()
    finally:
        loop.close()
        asyncio.set_event_loop(None)
    return app, out, validators, errors


def gen_object(rng, N, style, whole=False):
    """One published object; the per-fetch fields (prefix, disc, fates) are filled in per fetch."""
    s = H.mk_scenario(rng, N, None if whole else 0, style, {}, prefix_mode=0, whole_rel=rng.choice(H.WHOLE_RELS) if whole else None)
    return s


def for_fetch(rng, obj, prefix_mode, disc_k, fates):
    s = dict(obj)
    base = obj['base']
    s['prefix'] = base if prefix_mode == 0 or len(base) < 2 else base[:-1]
    if obj['disc'][0] == 'whole':
        s['disc'] = obj['disc']       # an unsegmented object named like / below the object's base name: below either prefix form
    else:
        s['disc'] = ('seg', disc_k)
    s['fates'] = fates
    return s


def rand_fates(rng, N, att, faulty):
    keys = [None] + list(range(N))
    losses = {k: rng.choice([0, 0, 0, 1, att - 1, att - 1, att, att + 1]) if rng.random() < 0.4 else 0 for k in keys}
    faults = {rng.choice(keys): rng.choice([H.NACKED, H.INVALID])} if faulty else None
    return H.fates_from(losses, faults)


def case_d(ctx, obj_list, plan, share, stratum):
    """plan: per fetch dict(obj=index, prefix_mode, disc_k, fates, retry, lifetime, mbf, start, rtt, avail, nack_reason)."""
    rng = ctx.rng
    fetches = []
    for p in plan:
        s = for_fetch(rng, obj_list[p['obj']], p['prefix_mode'], p['disc_k'], p['fates'])
        fetches.append({'s': s, 'retry': p['retry'], 'lifetime': p['lifetime'],
                        'mbf': p['mbf'], 'start': p['start'], 'rtt': p['rtt'], 'avail': p['avail'], 'nack_reason': p['nack_reason']})
    run_d(ctx, fetches, share, stratum)


def run_d(ctx, fetches, share, stratum):
    for fc in fetches:
        fc['answer'], fc['fate'] = H.scenario_answer(fc['s'])
        fc['prefix'] = fc['s']['prefix']
    app, out, validators, errors = run_fake(fetches, share)
    desc = [dict({k: fc[k] for k in ('retry', 'lifetime', 'mbf', 'start', 'rtt', 'nack_reason')}, scenario=fc['s'],
                 slow_data_available_at_ms=[[list(k), v] for k, v in fc['avail'].items()]) for fc in fetches]
    for f, fc in enumerate(fetches):
        ending, box = out.get(f, ((9,), {}))
        case = {'stream': 'concurrent fetches over one fake application', 'fetch_judged': f, 'scenario': fc['s'],
                'retry_times': fc['retry'], 'timeout': fc['lifetime'], 'must_be_fresh': fc['mbf'], 'share_data_tuple': share,
                'fetches': desc}
        if app.total > 3000 or ending == (9,):
            H.runaway(ctx, case)
            return
        H.judge_fetch(ctx, fc['s'], fc['retry'], fc['lifetime'], fc['mbf'], app.traces[f], ending, case, stratum, fate=fc['fate'],
                      kwlog=app.kwlogs[f], validator=validators[f], got_reason=box.get('reason'), nack_reason=fc['nack_reason'],
                      key=('D', f, repr(desc), repr([g['s'] for g in fetches]), share), site=SITE_D)
    if errors:
        ctx.violation(SITE_D, 'loop-exception', f'event loop handler called: {str(errors[0].get("message"))[:80]}',
                      {'stream': 'concurrent fetches over one fake application', 'share_data_tuple': share, 'fetches': desc})
    ctx.stat('D.fetches', len(fetches))


def stream_d(ctx):
    rng = ctx.rng
    # (1) table: two fetches of one object; segment [slow] only becomes available at T; staggered starts; the segment
    # before / at / after the slow one carries the FinalBlockId of the last; every combination of who waits for whom
    for N in (2, 3, 4):
        for slow in range(N):
            for style in ('all', 'exact'):
                for stagger in (0, 100, 450):
                    for T in (300, 700):
                        for disc_k in (0, N - 1):
                            obj = gen_object(rng, N, style)
                            avail = {tuple(obj['base'] + [H.seg(slow)]): T}
                            plan = []
                            for f in range(2):
                                plan.append({'obj': 0, 'prefix_mode': 0, 'disc_k': disc_k if f == 0 else rng.randrange(N),
                                             'fates': H.fates_from({}), 'retry': 2, 'lifetime': 1000, 'mbf': True,
                                             'start': f * stagger, 'rtt': 5, 'avail': avail, 'nack_reason': 150})
                            case_d(ctx, [obj], plan, True, 'D.slow-segment')
    # (2) sampled: 2-3 fetches, one or two objects, own fates / retry / lifetime / start / prefix form each
    for _ in range(ctx.n(400, 8000)):
        nf = rng.choice([2, 2, 3])
        objs = [gen_object(rng, rng.choice([1, 2, 3, 4, 6]), rng.choice(H.STYLES), whole=rng.random() < 0.1)]
        if rng.random() < 0.25:
            o2 = gen_object(rng, rng.choice([1, 2, 3]), rng.choice(H.STYLES))
            if o2['base'] == objs[0]['base']:
                # two DIFFERENT objects have different names (same name, other content would be two versions of one Data)
                o2 = H.mk_scenario(rng, o2['nseg'], 0, 'exact', {}, base=o2['base'] + [bytes([8, 2, 0x6f, 0x32])])
            objs.append(o2)
        avail = {}
        for o in objs:
            for i in range(o['nseg']):
                if rng.random() < 0.3:
                    avail[tuple(o['base'] + [H.seg(i)])] = rng.choice([50, 200, 400, 900, 1500])
        plan = []
        for f in range(nf):
            oi = rng.randrange(len(objs))
            N = objs[oi]['nseg']
            retry = rng.choice([0, 1, 2, 3, 3])
            plan.append({'obj': oi, 'prefix_mode': rng.choice([0, 0, 1]), 'disc_k': rng.randrange(N) if N else 0,
                         'fates': rand_fates(rng, N, max(1, retry), rng.random() < 0.25), 'retry': retry,
                         'lifetime': rng.choice([100, 500, 500, 1000]), 'mbf': rng.choice([True, False]),
                         'start': rng.choice([0, 0, 3, 100, 250, 600]), 'rtt': rng.choice([1, 5, 20, 80]), 'avail': avail,
                         'nack_reason': rng.choice(H.NACK_REASONS)})
        case_d(ctx, objs, plan, rng.random() < 0.8, 'D.sampled')


# =====================================================================================================
# E: one real NDNApp, several fetches, a scheduled network
# =====================================================================================================
class NetFace:
    def __init__(self, loop, objs, net, traces):
        self.loop = loop
        self.objs = objs
        self.net = net
        self.traces = traces          # per fetch: its Interests (answers filled in afterwards) and yields, in order
        self.asked = {}
        self.stray = 0
        self.running = True
        self.callback = None
        self.by_task = {}
        self.log = []                 # ('int', seq, t, fetch, q) | ('pkt', seq, t, kind, name, content, marker, form, obj)
        self.seq = 0
        self.count = {}
        self.inflight = {}
        self.segname = {}
        for oi, o in enumerate(objs):
            for i in range(o['nseg']):
                self.segname[tuple(o['base'] + [H.seg(i)])] = (oi, i)

    def data_of(self, key):
        """What the producer holds under a network key: (obj index, name, content, marker)."""
        if key[0] == 'seg':
            o = self.objs[key[1]]
            return key[1], o['base'] + [H.seg(key[2])], o['contents'][key[2]], o['markers'][key[2]]
        oi, k = self.net['disc'][key[1]]
        o = self.objs[oi]
        if k == 'whole':
            return oi, o['disc'][1], o['disc'][2], o['disc'][3]
        return oi, o['base'] + [H.seg(k)], o['contents'][k], o['markers'][k]

    def send(self, wire):
        from ndn.encoding import parse_interest, make_data, MetaInfo, parse_tl_num
        from ndn.security import DigestSha256Signer
        wire = bytes(wire)
        name, param, _, _ = parse_interest(wire, with_tl=True)
        q = (H.nb(name), bool(param.can_be_prefix), bool(param.must_be_fresh), param.lifetime)
        self.seq += 1
        if self.seq > 6000:
            raise RuntimeError('runaway fetch')
        f = self.by_task.get(asyncio.current_task())
        self.log.append(('int', self.seq, self.loop.time(), f, q))
        if f is None:
            self.stray += 1
        else:
            n = self.asked.get((f, repr(q)), 0)
            self.asked[(f, repr(q))] = n + 1
            self.traces[f].append(['ask', q, None, n])
        if q[1]:
            key = ('disc', tuple(q[0]))
            if key[1] not in self.net['disc']:
                return
        else:
            hit = self.segname.get(tuple(q[0]))
            if hit is None:
                return
            key = ('seg',) + hit
        if self.net['aggregate'] and self.inflight.get(key, 0) > 0:
            return
        j = self.count.get(key, 0)
        self.count[key] = j + 1
        lst, dflt = self.net['policy'].get(key, ([], ('data', self.net['rtt'])))
        resp = lst[j] if j < len(lst) else dflt
        if resp[0] == 'drop':
            return
        oi, dname, content, marker = self.data_of(key)
        if resp[0] == 'nack':
            pkt = P.nack_wire(wire, resp[2])
            rec = ('nack', q[0], None, None, resp[2], oi)
        else:
            pkt = bytearray(make_data(dname, MetaInfo(final_block_id=marker), content, signer=DigestSha256Signer()))
            if resp[0] == 'invalid':
                pkt[-1] ^= 0x55
            pkt = bytes(pkt)
            rec = (resp[0], dname, content, marker, None, oi)
        typ, _ = parse_tl_num(pkt)
        self.inflight[key] = self.inflight.get(key, 0) + 1

        async def arrive():
            self.inflight[key] -= 1
            self.seq += 1
            self.log.append(('pkt', self.seq, self.loop.time()) + rec)
            await self.callback(typ, pkt)       # the library's _receive does not suspend on the Data / Nack paths
        self.loop.call_later(resp[1] / 1000.0, lambda: self.loop.create_task(arrive()))

    def shutdown(self):
        self.running = False


async def digest_validator(name, sig):
    h = hashlib.sha256()
    for blk in sig.signature_covered_part:
        h.update(blk)
    return sig.signature_value_buf is not None and h.digest() == bytes(sig.signature_value_buf)


def run_net(objs, net, fetches):
    from ndn.app import NDNApp
    import logging
    logging.getLogger('ndn').setLevel(logging.CRITICAL)
    loop = vtloop.new_loop()
    try:
        traces = [[] for _ in fetches]
        face = NetFace(loop, objs, net, traces)
        app = NDNApp(face=face, keychain=object())
        out = {}

        async def main():
            await asyncio.gather(*[one_fetch(app, face.by_task, f, fc, traces[f], out, digest_validator)
                                   for f, fc in enumerate(fetches)])
        crashed = None
        try:
            loop.run_until_complete(main())
        except Exception as e:  # noqa
            crashed = e
        errors = loop.collect_errors()
        pending = len(app._int_tree)
    finally:
        loop.close()
        asyncio.set_event_loop(None)
    return face, traces, out, errors, pending, crashed


def matches(q, rec):
    """Does the packet [rec] answer an Interest with request [q]?  Data: same name, or a longer name when CanBePrefix;
    Nack: a Nack for exactly this name."""
    name = rec[4]
    if rec[3] == 'nack':
        return name == q[0]
    return name == q[0] or (q[1] and len(name) > len(q[0]) and name[:len(q[0])] == q[0])


def met_scenario(objs, net, fc, f, log, trace):
    """The scenario fetch f met, read off the face log; fills the answers into the fetch's own event list [trace]
    (its 'ask' entries, in the order sent).  Returns (scenario, reason form of the Nack that ended it, tie?, asks, deciding packets)."""
    asks = [e for e in log if e[0] == 'int' and e[3] == f]
    pkts = [e for e in log if e[0] == 'pkt']
    tie = False
    answers = []
    for a in asks:
        q = a[4]
        life = (q[3] if q[3] is not None else 4000) / 1000.0
        got = None
        for p in pkts:
            if p[1] < a[1] or not matches(q, p):
                continue
            if abs(p[2] - (a[2] + life)) <= EPS:
                tie = True
            if p[2] < a[2] + life:
                got = p
            break           # the first matching packet after the Interest decides (in time: the answer; late: nothing does)
        answers.append(got)
    # the object: the one whose Data answered the discovery Interest, else the one the fetch was aimed at
    oi = fc['obj']
    disc = None
    for a, got in zip(asks, answers):
        if a[4][1] and got is not None and got[3] != 'nack':
            oi = got[8]
            disc = got
            break
    o = objs[oi]
    s = dict(o)
    s['prefix'] = H.nb(fc['prefix'])
    seg_of = {tuple(o['base'] + [H.seg(i)]): i for i in range(o['nseg'])}
    if disc is None:
        s['disc'] = ('seg', 0) if o['disc'][0] != 'whole' else o['disc']
    elif tuple(disc[4]) in seg_of:
        s['disc'] = ('seg', seg_of[tuple(disc[4])])
    else:
        s['disc'] = ('whole', disc[4], disc[5], disc[6])
    fates = {}
    nack_form = None
    slots = [t for t in trace if t[0] == 'ask']
    for a, got, slot in zip(asks, answers, slots):
        q = a[4]
        if q[1]:
            k = None if q[0] == s['prefix'] else 'none'
        else:
            k = seg_of.get(tuple(q[0]), 'none')
        if got is None:
            fate, r = H.LOST, ('exc', (0,))
        elif got[3] == 'nack':
            fate, r = H.NACKED, ('exc', (1,))
            nack_form = got[7]
        elif got[3] == 'invalid':
            fate, r = H.INVALID, ('exc', (2,))
        else:
            fate, r = H.DELIVERED, ('data', got[4], got[5], got[6])
        if k != 'none':
            fates.setdefault(k, []).append(fate)
        slot[2] = r

    # what the network would have done with Interests this fetch did not send: its steady-state answer for the key
    def steady(k):
        key = ('disc', tuple(s['prefix'])) if k is None else ('seg', oi, k)
        d = net['policy'].get(key, ([], ('data', 0)))[1][0]
        return {'data': H.DELIVERED, 'drop': H.LOST, 'nack': H.NACKED, 'invalid': H.INVALID}[d]
    s['fates'] = {k: (fates.get(k, []), steady(k)) for k in [None] + list(range(o['nseg']))}
    return s, nack_form, tie, asks, [g[1] for g in answers if g is not None]


def case_e(ctx, objs, net, fetches, stratum):
    face, traces, out, errors, pending, crashed = run_net(objs, net, fetches)
    desc = [{k: fc[k] for k in ('obj', 'prefix', 'retry', 'lifetime', 'mbf', 'start')} for fc in fetches]
    netd = {'aggregate': net['aggregate'], 'rtt': net['rtt'],
            'discovery_answered_by': [[list(k), list(v)] for k, v in net['disc'].items()],
            'policy': [[[k[0], list(k[1])] if k[0] == 'disc' else list(k), v] for k, v in net['policy'].items()]}
    objd = [{k: o[k] for k in ('base', 'nseg', 'contents', 'markers', 'disc')} for o in objs]
    timeline = [[e[0], ms(e[2] - 1000.0), e[3], (e[4][0] if e[0] == 'int' else e[4])[-1:]] for e in face.log][:80]
    base_case = {'stream': 'concurrent fetches over one real NDNApp', 'objects': objd, 'network': netd, 'fetches': desc,
                 'timeline_ms(kind, t, fetch | packet kind, last name component)': timeline}
    if crashed is not None:
        ctx.violation(SITE_E, 'exception-out-of-the-run', f'{type(crashed).__name__}: {str(crashed)[:80]}', base_case)
        return
    if face.seq > 6000:
        H.runaway(ctx, base_case)
        return
    judged = []
    tied = False
    deciding = []
    for f, fc in enumerate(fetches):
        s, nack_form, tie, asks, dec = met_scenario(objs, net, fc, f, face.log, traces[f])
        tied = tied or tie
        deciding += dec
        judged.append((f, fc, s, nack_form, asks))
    if tied:
        ctx.stat('E.tie-not-judged')
        return
    for f, fc, s, nack_form, asks in judged:
        ending, box = out.get(f, ((9,), {}))
        case = dict(base_case, fetch_judged=f, scenario_as_this_fetch_met_it=s, retry_times=fc['retry'], timeout=fc['lifetime'],
                    must_be_fresh=fc['mbf'])
        H.judge_fetch(ctx, s, fc['retry'], fc['lifetime'], fc['mbf'], traces[f], ending, case, stratum,
                      got_reason=box.get('reason'), nack_reason=P.nack_reason_value(nack_form) if nack_form is not None else None,
                      key=('E', f, repr(desc), repr(netd), repr(objd)), site=SITE_E)
        # a lost Interest is re-expressed only after its lifetime (virtual clock)
        slots = [t for t in traces[f] if t[0] == 'ask']
        for j in range(1, min(len(slots), len(asks))):
            if slots[j - 1][2] == ('exc', (0,)) and slots[j][1] == slots[j - 1][1]:
                dt = asks[j][2] - asks[j - 1][2]
                if abs(dt - fc['lifetime'] / 1000.0) > 0.002:
                    ctx.violation(SITE_E, 'retry-before-lifetime',
                                  f'Interest re-expressed {dt:.3f}s after a lost one, lifetime {fc["lifetime"]} ms', case)
    if errors:
        ctx.violation(SITE_E, 'loop-exception', f'event loop handler called: {str(errors[0].get("message"))[:80]}', base_case)
    if pending:
        ctx.violation(SITE_E, 'pending-interests-left', f'{pending} entries left in the pending Interest table after every fetch ended',
                      base_case)
    if face.stray:
        ctx.stat('E.interest-sent-outside-a-fetch-task', face.stray)
    ctx.stat('E.fetches', len(fetches))
    ctx.stat('E.data-answering-several-interests', len(deciding) - len(set(deciding)))


def two_objects(rng, N1, N2, style1, style2):
    """Two objects below one parent name (the base names have at least two components)."""
    g = lambda t: bytes([8, len(t)]) + t      # noqa
    parent = [g(b'p' + bytes([97 + rng.randrange(26)]))] + ([g(b'q')] if rng.random() < 0.3 else [])
    last1 = rng.choice([g(b'o1'), bytes([54, 1, 1]), g(b'')])
    last2 = rng.choice([g(b'o2'), bytes([54, 1, 2]), g(b'zz')])
    o1 = H.mk_scenario(rng, N1, 0, style1, {}, base=parent + [last1])
    o2 = H.mk_scenario(rng, N2, 0, style2, {}, base=parent + [last2])
    return [o1, o2]


def stream_e(ctx):
    rng = ctx.rng
    g = lambda t: bytes([8, len(t)]) + t      # noqa
    # (1) table: two fetches of one 3-segment object over one application; ONE segment is slow (its first answer takes
    # Delta): Delta inside the first fetch's lifetime (one Data answers both pending Interests), between the deadline of the
    # earlier and of the later Interest (the earlier one times out while the later one is still waiting, then the Data
    # comes), after both; x which segment x where the FinalBlockId is announced x lifetime x stagger x retry limits (a fetch
    # with no spare attempt next to one with spares, both ways) x network with / without aggregation
    lifes = (400, 1000)
    for L in lifes:
        for stag in (100, L // 2 + 7):
            for delta in (300, L + stag // 2 + 3, L + stag + 57):
                for slow in (0, 1, 2):
                    for style in ('all', 'exact'):
                        for ra, rb in ((3, 1), (1, 3), (2, 2)):
                            for agg in (False, True):
                                if not ctx.thorough and (ra, rb) == (1, 3) and agg:
                                    continue
                                # the later fetch with the same lifetime, or with half of it (its Interest, expressed later,
                                # expires EARLIER than the one already waiting in the same table node)
                                for lb in ((L, L // 2) if ctx.thorough else ((L // 2,) if (ra, rb) == (3, 1) and agg else (L,))):
                                    obj = H.mk_scenario(rng, 3, 0, style, {}, base=[g(b'conc'), g(b'obj')])
                                    # discovery is answered by segment 0 (by segment 1 when segment 0 is the slow one: the
                                    # fetcher then asks for segment 0 by name)
                                    net = {'aggregate': agg, 'rtt': 5, 'disc': {tuple(obj['base']): (0, 1 if slow == 0 else 0)},
                                           'policy': {('seg', 0, slow): ([('data', delta)], ('data', 5))}}
                                    fetches = [{'obj': 0, 'prefix': obj['base'], 'retry': ra, 'lifetime': L, 'mbf': True, 'start': 0},
                                               {'obj': 0, 'prefix': obj['base'], 'retry': rb, 'lifetime': lb, 'mbf': True,
                                                'start': stag + (0 if lb == L else 3)}]
                                    case_e(ctx, [obj], net, fetches, 'E.slow-segment')
    # (2) sampled schedules: 2-3 fetches; one object or two below one parent; per fetch its own prefix form (the object's
    # name or the parent: another discovery name, the same segments), start, retry limit, lifetime, MustBeFresh; per name
    # the network's answers to the first Interests it sees (fast / slow / slower than a lifetime / none / Nack / invalid)
    for _ in range(ctx.n(350, 6000)):
        nf = rng.choice([2, 2, 3])
        if rng.random() < 0.3:
            objs = two_objects(rng, rng.choice([1, 2, 3]), rng.choice([1, 2, 4]), rng.choice(H.STYLES), rng.choice(H.STYLES))
        else:
            base = H.gen_base(rng)
            if len(base) < 2:
                base = [g(b'r')] + base
            whole = rng.random() < 0.1
            objs = [H.mk_scenario(rng, rng.choice([1, 2, 3, 4, 6]), None if whole else 0, rng.choice(H.STYLES), {}, base=base,
                                  whole_rel=rng.choice(H.WHOLE_RELS) if whole else None)]
            objs[0]['prefix'] = base
        lifes = [rng.choice([200, 500, 1000])]
        lifes = [lifes[0] if rng.random() < 0.6 else rng.choice([200, 500, 1000]) for _ in range(nf)]
        fetches = []
        for f in range(nf):
            oi = rng.randrange(len(objs))
            b = objs[oi]['base']
            fetches.append({'obj': oi, 'prefix': b if rng.random() < 0.7 else b[:-1], 'retry': rng.choice([1, 1, 2, 3]),
                            'lifetime': lifes[f], 'mbf': rng.choice([True, False]),
                            'start': rng.choice([0, 0, 10, 100, lifes[f] // 2, lifes[f] + 20])})
        rtt = rng.choice([3, 7, 31])
        lo, hi = min(lifes), max(lifes)

        def resp():
            c = rng.random()
            if c < 0.62:
                return ('data', rng.choice([rtt, rtt, 121, max(1, lo - 33), lo + 37, hi + 37, 2 * hi + 11]))
            if c < 0.88:
                return ('drop',)
            if c < 0.94:
                return ('nack', rtt, rng.choice(P.NACK_POOL))
            return ('invalid', rtt)
        disc = {}
        for fc in fetches:
            pk = tuple(fc['prefix'])
            if pk not in disc:
                under = [oi for oi, o in enumerate(objs) if o['base'][:len(pk)] == list(pk)]
                oi = rng.choice(under)
                disc[pk] = (oi, 'whole' if objs[oi]['disc'][0] == 'whole' else rng.randrange(objs[oi]['nseg']))
        policy = {}
        keys = [('disc', pk) for pk in disc] + [('seg', oi, i) for oi, o in enumerate(objs) for i in range(o['nseg'])]
        for key in keys:
            if rng.random() < 0.45:
                policy[key] = ([resp() for _ in range(rng.choice([1, 1, 2, 3]))],
                               ('data', rtt) if rng.random() < 0.85 else ('drop',))
        net = {'aggregate': rng.random() < 0.5, 'rtt': rtt, 'disc': disc, 'policy': policy}
        case_e(ctx, objs, net, fetches, 'E.sampled')


# =====================================================================================================
# replay of one concurrent case from a replay file (the 'case' of a violation / disagreement)
# =====================================================================================================
def _tup(x):
    return tuple(_tup(y) for y in x) if isinstance(x, list) else x


def _scn(s):
    s = dict(s)
    s['disc'] = tuple(s['disc'])
    s['fates'] = {(None if k == 'None' else int(k)): (list(v[0]), v[1]) for k, v in s.get('fates', {}).items()}
    return s


def replay(ctx, case):
    if 'fake' in case['stream']:
        fetches = []
        for d in case['fetches']:
            fetches.append({'s': _scn(d['scenario']), 'retry': d['retry'], 'lifetime': d['lifetime'], 'mbf': bool(d['mbf']),
                            'start': d['start'], 'rtt': d['rtt'], 'nack_reason': d['nack_reason'],
                            'avail': {tuple(k): v for k, v in d['slow_data_available_at_ms']}})
        run_d(ctx, fetches, bool(case['share_data_tuple']), 'replay')
        return
    objs = [_scn(o) for o in case['objects']]
    n = case['network']
    net = {'aggregate': bool(n['aggregate']), 'rtt': n['rtt'],
           'disc': {tuple(k): tuple(v) for k, v in n['discovery_answered_by']},
           'policy': {(('disc', tuple(k[1])) if k[0] == 'disc' else tuple(k)): ([_tup(r) for r in v[0]], _tup(v[1]))
                      for k, v in n['policy']}}
    fetches = [dict(fc, mbf=bool(fc['mbf'])) for fc in case['fetches']]
    case_e(ctx, objs, net, fetches, 'replay')
