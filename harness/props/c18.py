"""C18 — state-vector sync merges monotonically and announces exactly when needed.

The real ``SvsInst`` runs on the virtual-time loop (harness/lib/vtloop.py) with ``time`` and ``secrets`` of
``ndn.app_support.svs.sync`` patched and a recording application front-end.  A history is a list of concrete,
JSON-able events

    ['recv', r, [component, ...]]   sync Interest whose name is base_prefix + components (r = randbits value)
    ['pub', r]                      new_data()
    ['adv', dticks, r]              let dticks clock ticks pass (1 tick = 2**-18 s), firing the timer on the way
    ['stop']                        stop()
    ['start', r]                    start() again (r = randbits value of the first timer run)
The instance is constructed, publishes cfg['k'] times BEFORE start() (each of these is a judged step as well), is started, and
then the events follow; while it is not running only publications and clock moves happen (the handler is detached).

After every micro-step (one handler call / one publication / one timer expiry / one quiet clock move, each
followed by running the loop to quiescence) two things are checked:
 * correspondence: the extracted Coq model (Model/Svs.v) is stepped with the same event and its state
   (local vector, aggregate while in suppression, state, own sequence number, next timer) and outputs
   (callback, emitted vectors, raised) are compared with the implementation (vectors as maps, zero = absent);
 * direct oracle: the statements of Properties/C18.v are evaluated on the implementation's observations
   alone, using the extracted specification (Spec/SvsSpec.v: acceptedb, denote, pmax, newerb, heard_step).
Decoding of the StateVec component into the model's input (list of optional id / optional seq, or the class
of decoding failure) is done here with the real ndn classes.
"""
import logging
import types

from harness.lib import gen as G
from harness.lib import vtloop

RULE = ('histories of 15..60 events on an SvsInst that is constructed, publishes, is started (and now and then stopped and started again) (sync_interval in {1.25,2.5,5,30} s, suppression_interval in '
        '{0.25,0.5,1,2} s, last_used_seq_num in {0,1,5,255,65535,2^32-1,2^32,2^63}, 0..2 publications before start): received vectors '
        'newer / older / equal / incomparable / subset / unknown-node / over-claiming / self-ok / duplicate ids / '
        'entries without name or without sequence number / byte-mutated / random bytes / wrong name length; '
        'hand-encoded vectors (no library encoder): one entry of every presence shape {Name only, SeqNo only, empty entry, '
        'empty Name + SeqNo, empty Name only} for a known / unknown / own / fresh node at the first / middle / last position of a '
        'newer / older / equal / mixed / over-claiming / empty rest, SeqNo in 1/2/4/8 bytes, singly, inside suppression windows and '
        'as directed sweeps from one state; the oracle reads every received component of canonical layout off the wire itself '
        '(accepted / denote are evaluated on those entries, not on what the library decoded); '
        'publications; clock moves that stop short of, hit exactly, or pass the timer; directed suppression windows '
        '(opener + 1..3 further vectors + expiry); sequence numbers of every width: for each edge 2^8, 2^16, 2^24, 2^32, 2^40, 2^56, '
        '2^63, 2^64 directed histories in which the own counter starts 1..5 below the edge and crosses it by publishing (at 2^64: '
        'ends exactly at 2^64-1) while peers announce edge-1, edge, a random value of the next width and 2^64-1 for other nodes '
        '(library-encoded or hand-encoded), each followed by a timer expiry, a publication or a suppression window; an input vector '
        'the library encoder refuses is written by hand; after every step the timer task of the running instance must be alive '
        '(an exception that ended it is the observation), a steady expiry must emit exactly one sync Interest, new_data() must not '
        'raise; life cycle: for every initial sequence number {0,1,7,255,65535,2^32-1,2^32,2^63,random < 2^64} x 0..3 publications before '
        'start(): first timer run, honest vector (own node at the number the history gives it + one raised peer), publication, expiry, '
        'stop(), 0..2 publications and clock moves while stopped, start() again, honest vector, expiry, publication, second stop / '
        'publish / start round (also drawn inside random histories); the adapter only constructs: every publication -- before start, '
        'running, after stop -- is judged by the publishing clause against the extracted spec_step HPublish (own number + 1, own entry, '
        'RETURNED number, no exception; running: one prompt sync Interest; not running: none, and the first timer run after start() '
        'announces it); after EVERY step the own number, the local vector and every emitted vector must equal the fold of the '
        'extracted spec_step over the whole history from the constructor\'s number (acceptance judged with the spec\'s own number, '
        'start() = own entry := own number).  One case = one micro-step; non-trivial = it changed or read a '
        'vector (accepted/rejected vector, publication, timer expiry); distinct by (state, event) hash')
ASSUMPTIONS = [
    'time is counted in ticks of 2**-18 s; the float arithmetic of sample_sync_timer/sample_sup_timer is exact to far '
    'below one tick for the intervals used, and times are compared after rounding to ticks',
    'decoding of the StateVec name component is performed by the real ndn.app_support.svs.tlv classes in the adapter; '
    'the model starts from the decoded entries (or the class of decoding failure); the ORACLE takes the entries of a component '
    'of canonical layout (StateVec{Entry{Name{generic components}? SeqNo(1|2|4|8 bytes)?}*}, shortest-form numbers, exact '
    'lengths) from a 40-line strict reader in the harness instead, and reports a decoder that reads something else there',
    'last_used_seq_num >= 0; life cycle: construct, publish*, start, events*, (stop, (publish | clock move)*, start, events*)*; '
    'the loop runs to quiescence between stop() and the next start() (the old timer task has ended before the new one is '
    'created); while the instance is not running no packet is delivered (the handler is detached)',
    'between events the loop runs to quiescence (DESIGN 2.6): a packet is never handled between new_data() and the '
    'timer task waking up',
]

TICK = 2.0 ** -18
SITE_H = 'SvsInst.sync_handler'
SITE_P = 'SvsInst.new_data'
SITE_T = 'SvsInst.on_timer'


def norm(items):
    """vector as a map (read through vget: the first pair of a key counts): sorted, zero entries dropped"""
    d = {}
    for k, v in items:
        d.setdefault(bytes(k), int(v))
    return sorted((k, v) for k, v in d.items() if v != 0)


def opt(x):
    return [] if x is None else [x]


class Env:
    """One SvsInst on its own virtual-time loop."""

    def __init__(self, cfg):
        import ndn.app_support.svs.sync as S
        import ndn.encoding as enc
        from ndn.app_support.svs.tlv import StateVecWrapper
        self.S, self.enc, self.Wrapper = S, enc, StateVecWrapper
        self.loop = vtloop.new_loop(1000.0)
        self.rnd = 0
        S.time = types.SimpleNamespace(time=self.loop.time)
        S.secrets = types.SimpleNamespace(randbits=lambda n: self.rnd if n == 16 else 0)
        self.cb = 0
        self.sent = []
        self.base = enc.Name.normalize('/sync/grp')
        self.self_id = bytes(enc.Name.to_bytes(cfg['self']))
        env = self

        class App:
            def attach_handler(self, *a, **k):
                pass

            def detach_handler(self, *a, **k):
                pass

            def express(self, name, validator, **kw):
                try:
                    vec = read_state_vector(bytes(name[-1]))
                except Exception as e:   # noqa
                    vec = ('undecodable', repr(e))
                env.sent.append((vec, len(name) - len(env.base), kw.get('no_response')))

        def on_missing(inst):
            env.cb += 1

        self.inst = S.SvsInst(self.base, cfg['self'], on_missing, None, None,
                              sync_interval=cfg['I'], suppression_interval=cfg['S'], last_used_seq_num=cfg['last'])
        self.App = App
        # NB: constructed only.  Publications before start() and start() itself are steps of the Runner (judged like any other)

    def start_inst(self):
        async def st():
            self.inst.start(self.App())
        self.loop.run_until_complete(st())
        # NB: the timer task has not run yet; the following settle (with the clock where it is) lets it run.

    def now_tick(self):
        return int(round(self.loop._vt / TICK))

    def snap(self):
        i = self.inst
        return {'local': [(bytes(k), v) for k, v in i.local_sv.items()],
                'agg': [(bytes(k), v) for k, v in i.agg_sv.items()],
                'supp': i.state == self.S.SvsState.SyncSuppression,
                'seq': i.self_seq, 'next': i.next_sync_timing, 'cb': self.cb, 'nsent': len(self.sent)}

    def close(self):
        try:
            self.inst.stop()
            self.loop.settle()
            self.loop.close()
        except Exception:   # noqa
            pass

    def classify(self, comps):
        """What the part of sync_handler before the comparison makes of this name -> model recv_class."""
        enc = self.enc
        if len(comps) != 2:
            return [0]
        try:
            val = self.Wrapper.parse(comps[0]).val
        except (enc.DecodeError, IndexError):
            return [1]
        except Exception:   # noqa
            return [2]
        if val is None:
            return [3]
        if not val.entries:
            return [4, []]
        es = []
        for e in val.entries:
            nid = bytes(enc.Name.to_bytes(e.node_id)) if e.node_id else None
            es.append([opt(nid), opt(e.seq_no)])
        return [4, es]


def read_tlv(buf, off):
    """strict reader: (type, value, offset after the element); raises on truncation"""
    def num(o):
        b = buf[o]
        if b < 253:
            return b, o + 1
        n = {253: 2, 254: 4, 255: 8}[b]
        if o + 1 + n > len(buf):
            raise ValueError('truncated number')
        return int.from_bytes(buf[o + 1:o + 1 + n], 'big'), o + 1 + n
    t, o = num(off)
    ln, o = num(o)
    if o + ln > len(buf):
        raise ValueError('element overruns its container')
    return t, buf[o:o + ln], o + ln


def wire_types():
    """(StateVec, entry, SeqNo) type numbers as the library defines them today (T1 pins them to 201/202/204)"""
    from ndn.app_support.svs import tlv as T
    val = T.StateVecWrapper._encoded_fields[0]
    ent = T.StateVec._encoded_fields[0].element_type
    seq = [f for f in T.StateVecEntry._encoded_fields if f.name == 'seq_no'][0]
    return int(val.type_num), int(ent.type_num), int(seq.type_num)


def read_state_vector(comp):
    """Strict decoding of an emitted StateVec component into [(node-name TLV bytes, seq)].  The node name is
    kept opaque: what is observed is the bytes put on the wire, independently of how leniently
    ndn.encoding would read them back."""
    t_vec, t_ent, t_seq = wire_types()
    t, body, end = read_tlv(comp, 0)
    if t != t_vec or end != len(comp):
        raise ValueError('not a StateVec component')
    vec, off, inner = [], 0, body
    # the StateVec value is the sequence of entries, each Name (0x07) then SeqNo
    while off < len(inner):
        t, ent, nxt = read_tlv(inner, off)
        if t != t_ent:
            raise ValueError('entry type')
        t1, v1, o1 = read_tlv(ent, 0)
        t2, v2, o2 = read_tlv(ent, o1)
        if t1 != 7 or t2 != t_seq or o2 != len(ent):
            raise ValueError('entry layout')
        vec.append((bytes(ent[:o1]), int.from_bytes(v2, 'big')))
        off = nxt
    return vec


def mk_component(entries):
    """entries: list of (name-or-None, seq-or-None) -> bytes of the StateVecWrapper (a 0xc9 name component).
    Built with the library's encoder; a vector it refuses to encode (it is an INPUT here, what a peer put on the wire) is
    written by hand instead"""
    try:
        return mk_component_lib(entries)
    except Exception:   # noqa
        STATS['gen:library-encoder-refused-input-vector'] = STATS.get('gen:library-encoder-refused-input-vector', 0) + 1
        return hand_component(entries)


STATS = {}


def mk_component_lib(entries):
    import ndn.encoding as enc
    from ndn.app_support.svs.tlv import StateVec, StateVecWrapper, StateVecEntry
    w = StateVecWrapper()
    w.val = StateVec()
    w.val.entries = []
    for n, q in entries:
        e = StateVecEntry()
        e.node_id = None if n is None else enc.Name.from_bytes(n)
        e.seq_no = q
        w.val.entries.append(e)
    return bytes(w.encode())


DIGEST = b'\x02\x20' + bytes(32)

# ---------------------------------------------------------------------------------------------------
# an independent reading of received vectors.  What counts as "the received vector" in the property is what is on the
# WIRE; for components that have exactly the canonical layout below the oracle therefore reads the entries itself and
# does not depend on what ndn.app_support.svs.tlv makes of them (a decoder that fills in, drops or reorders something
# would otherwise blind the oracle together with the code under test).
def read_num_min(buf, o):
    """one TLV-VAR number in its shortest encoding -> (value, next offset); anything else raises"""
    b = buf[o]
    if b < 253:
        return b, o + 1
    n, lo = {253: (2, 253), 254: (4, 1 << 16), 255: (8, 1 << 32)}[b]
    if o + 1 + n > len(buf):
        raise ValueError('truncated number')
    v = int.from_bytes(buf[o + 1:o + 1 + n], 'big')
    if v < lo:
        raise ValueError('number not in shortest form')
    return v, o + 1 + n


def read_tlv_min(buf, off):
    t, o = read_num_min(buf, off)
    ln, o = read_num_min(buf, o)
    if o + ln > len(buf):
        raise ValueError('element overruns its container')
    return t, bytes(buf[o:o + ln]), o + ln


def strict_entries(comp):
    """entries [[node-name TLV bytes]?, [seq]?] of a StateVec name component of the canonical layout
         StateVec { Entry { Name{generic components}?  SeqNo(1|2|4|8 bytes)? } * }
    (shortest-form type/length numbers, elements in this order, nothing else, every length exact), or None when the
    component is anything else (then the adapter's classification through the library's decoder is all there is).
    An absent Name and a Name without components both read as 'no id', as the model's input convention has it."""
    try:
        comp = bytes(comp)
        t_vec, t_ent, t_seq = wire_types()
        t, body, end = read_tlv_min(comp, 0)
        if t != t_vec or end != len(comp):
            return None
        out, off = [], 0
        while off < len(body):
            t, ent, off = read_tlv_min(body, off)
            if t != t_ent:
                return None
            o, nid, seq = 0, None, None
            if o < len(ent) and ent[o] == 7:
                _, nm, o2 = read_tlv_min(ent, o)
                p = 0
                while p < len(nm):
                    ct, cv, p = read_tlv_min(nm, p)
                    if ct != 8:
                        return None
                if nm:
                    nid = ent[o:o2]
                o = o2
            if o < len(ent):
                t, v, o = read_tlv_min(ent, o)
                if t != t_seq or len(v) not in (1, 2, 4, 8):
                    return None
                seq = int.from_bytes(v, 'big')
            if o != len(ent):
                return None
            out.append([opt(nid), opt(seq)])
        return out
    except Exception:   # noqa
        return None


def seq_bytes(rng, q):
    """a NonNegativeInteger for q: the shortest of 1/2/4/8 bytes, or (when rng is given) sometimes a wider one"""
    ws = [w for w in (1, 2, 4, 8) if q < (1 << (8 * w))]
    w = ws[0] if rng is None or rng.random() < 0.7 else rng.choice(ws)
    return q.to_bytes(w, 'big')


def hand_component(entries, rng=None):
    """entries: (name TLV bytes | None, seq | None) -> StateVec component written byte by byte (no library encoder):
    an entry is exactly the elements it is given, so every presence combination of Name / SeqNo can be put on the wire"""
    t_vec, t_ent, t_seq = wire_types()
    body = b''
    for n, q in entries:
        body += G.tlv(t_ent, (n or b'') + (b'' if q is None else G.tlv(t_seq, seq_bytes(rng, q))))
    return G.tlv(t_vec, body)




# ---------------------------------------------------------------------------------------------------
class Runner:
    def __init__(self, ctx, cfg, report=True):
        self.ctx, self.cfg, self.report = ctx, cfg, report
        self.env = Env(cfg)
        self.I = int(round(cfg['I'] / TICK))
        self.Sup = int(round(cfg['S'] / TICK))
        self.mcfg = [self.env.self_id, self.I, self.Sup]
        self.mstate = ctx.call([4, cfg['last']])          # Model.construct: not started yet
        self.running = False         # between start() and stop()
        self.ever_started = False
        self.pending_pub = False     # a publication made while not running has not been announced yet
        self.spec = [[], cfg['last']]   # Spec.spec_run over the whole history so far: (local vector, own sequence number)
        self.spec_bad = set()
        self.heard = None            # spec: Some vec (as list) while in a suppression window
        self.log = []                # concrete events executed so far
        self.found = []              # (site, cls) of oracle failures in this history
        self.broken = False
        self.nsteps = 0
        self.running_step, self.announce_due = False, False
        self.timer_dead = False      # the timer task ended although the instance is running (reported once per history)

    # -- reporting ---------------------------------------------------------------------------------
    def case_repr(self):
        return {'cfg': self.cfg, 'events': list(self.log)}

    def violation(self, site, cls, what):
        self.found.append((site, cls))
        if self.report:
            self.ctx.violation(site, cls, what, self.case_repr())

    def disagree(self, site, what, m, i):
        self.broken = True
        if self.report:
            self.ctx.disagree(site, what, self.case_repr(), m, i)

    # -- one micro-step ----------------------------------------------------------------------------
    def micro(self, kind, action, mevents, wire=None):
        """kind: 'recv'|'pub'|'fire'|'idle'; action(): acts on the implementation; mevents: model events."""
        ctx, env = self.ctx, self.env
        before = env.snap()
        raised, ret = None, None
        try:
            ret = action()
        except Exception as e:   # noqa
            raised = e
        env.loop.settle()
        after = env.snap()
        errs = env.loop.errors
        if errs:
            self.disagree(kind, 'exception reached the loop exception handler', None, repr(errs[0])[:300])
            env.loop.errors = []
        emitted = env.sent[before['nsent']:]
        cbs = after['cb'] - before['cb']
        self.timer_alive(kind)

        # the model is stepped and compared only while it still agrees; the oracle below goes on regardless
        if not self.broken:
            self.correspond(kind, mevents, before, after, emitted, cbs, raised)
        else:
            self.nsteps += 1
            ctx.case((kind, 'diverged', repr(before['local']), repr(mevents)[:400]), True, None, f'{kind}:after-divergence')

        # ---- direct oracle on the implementation's observations -------------------------------------
        self.oracle(kind, before, after, cbs, emitted, raised, wire, ret, mevents)

    def timer_alive(self, kind):
        """the timer task is what emits (periodically, at suppression expiry, promptly after a publication): once it has ended
        on a running instance -- an exception out of the code it runs is swallowed by the task -- nothing is ever emitted again"""
        inst = self.env.inst
        t = getattr(inst, 'timer_task', None)
        if self.timer_dead or t is None or not getattr(inst, 'running', False) or not t.done():
            return
        self.timer_dead = True
        try:
            exc = t.exception() if not t.cancelled() else 'cancelled'
        except BaseException as e:   # noqa
            exc = e
        self.ctx.stat('timer-task-ended')
        self.violation(SITE_T, 'timer-task-ended-' + (type(exc).__name__ if isinstance(exc, BaseException) else str(exc)),
                       f'after this {kind} step the timer task of the running instance has ended ({exc!r}): no sync Interest '
                       f'can be emitted any more (local vector {norm(self.env.snap()["local"])!r})')

    def correspond(self, kind, mevents, before, after, emitted, cbs, raised):
        ctx = self.ctx
        # ---- model ------------------------------------------------------------------------------
        m_emit, m_cb, m_raise, tags = [], 0, False, []
        ms = self.mstate
        for ev in mevents:
            if ev == ['start']:
                ms = ctx.call([5, self.mcfg, ms])        # Model.start
                tags.append(20)
                continue
            ms, o = ctx.call([2, self.mcfg, ms, ev])
            m_cb += o[0]
            if o[1]:
                m_emit.append(o[1][0])
            m_raise = m_raise or bool(o[2])
            tags.append(o[3])
        self.mstate = ms
        self.nsteps += 1
        if not tags:
            tags = [13]                                  # nothing happens in the model (not running: stop / clock move)
        if not self.running_step:
            kind = kind + '@' + self.phase()
        key = (kind, tuple(tags), repr(before['local']), repr(mevents)[:400])
        ctx.case(key, tags[0] not in (0, 1, 2, 8, 13), {'cfg': self.cfg, 'kind': kind, 'event': self.log[-1] if self.log else None,
                                                       'local_before': before['local'], 'local_after': after['local']},
                 f'{kind}:tag' + '+'.join(str(t) for t in tags))

        # ---- correspondence -----------------------------------------------------------------------
        i_emit = [norm(v) if isinstance(v, list) else v for v, _, _ in emitted]
        obs_i = {'local': norm(after['local']), 'supp': after['supp'], 'seq': after['seq'],
                 'next': int(round(after['next'] / TICK)), 'cb': cbs, 'emit': i_emit, 'raise': raised is not None}
        obs_m = {'local': norm(ms[0]), 'supp': bool(ms[2]), 'seq': ms[3], 'next': ms[4], 'cb': m_cb,
                 'emit': [norm(v) for v in m_emit], 'raise': m_raise}
        if after['supp'] and ms[2]:
            obs_i['agg'] = norm(after['agg'])
            obs_m['agg'] = norm(ms[1])
        if obs_i != obs_m:
            diff = [k for k in obs_m if obs_m[k] != obs_i.get(k)]
            self.disagree(kind, 'state/outputs differ after the step: ' + ','.join(diff),
                          {k: obs_m[k] for k in diff}, {k: obs_i.get(k) for k in diff})
        elif [k for k, _ in after['local']] != [k for k, _ in ms[0]]:
            ctx.stat('order-of-entries-differs')
        for v, ncomp, noresp in emitted:
            if ncomp != 1 or not noresp:
                self.disagree(kind, 'sync Interest name/flags', [1, True], [ncomp, noresp])

    def phase(self):
        return 'running' if self.running else 'after-stop' if self.ever_started else 'before-start'

    def once(self, site, cls, what):
        if cls not in self.spec_bad:
            self.spec_bad.add(cls)
            self.violation(site, cls, what)

    def oracle(self, kind, before, after, cbs, emitted, raised, wire, ret=None, mevents=()):
        ctx, env = self.ctx, self.env
        M = ctx.call
        lb, la = dict(before['local']), dict(after['local'])
        nb, na = norm(before['local']), norm(after['local'])
        sid = env.self_id
        site = SITE_H if kind == 'recv' else SITE_P if kind == 'pub' else SITE_T
        phase = self.phase() if not self.running_step else 'running'
        # ---- the whole history (C18_local_history, C18_start): the local vector and the own sequence number are what
        # Spec.spec_step computes from the constructor's number, the publications (in whatever phase of the life cycle) and the
        # accepted vectors; start() makes the own entry the own sequence number.  Judged with the SPEC's own number, not with
        # the number the implementation believes it has
        if ['start'] in list(mevents):
            self.spec = [M([12, self.spec[0], [(sid, self.spec[1])]]), self.spec[1]]
        hev = [0, wire] if kind == 'recv' and wire is not None else [1] if kind == 'pub' else [2]
        self.spec = M([16, sid, self.spec[0], self.spec[1], hev])
        if after['seq'] != self.spec[1]:
            self.once(site, 'history-own-seq', f"own sequence number is {after['seq']} after this {kind} step ({phase}); the "
                      f"constructor's number plus the publications so far give {self.spec[1]}")
        if na != norm(self.spec[0]):
            self.once(site, 'history-local-vector', f'local vector is {na!r} after this {kind} step ({phase}); the accepted '
                      f'vectors and publications of the history give {norm(self.spec[0])!r}')
        for v, _, _ in emitted:
            if not isinstance(v, list) or norm(v) != norm(self.spec[0]):
                self.once(SITE_T, 'emit-not-history-vector', f'sync Interest carries {v!r}; the accepted vectors and '
                          f'publications of the history give {norm(self.spec[0])!r}')
        if not self.running_step and emitted:
            self.violation(SITE_T, 'emit-while-not-running', f'{len(emitted)} sync Interest(s) emitted in a {kind} step {phase}')
        # monotone: no entry ever decreases (every kind of step)
        for k, v in lb.items():
            if la.get(k, 0) < v:
                self.violation(SITE_H if kind == 'recv' else SITE_P if kind == 'pub' else SITE_T, 'local-decreased',
                               f'entry {k.hex()} went from {v} to {la.get(k, 0)} in a {kind} step')
        # every emitted Interest carries the full local vector
        for v, _, _ in emitted:
            if not isinstance(v, list) or norm(v) != na:
                self.violation(SITE_T, 'emit-not-full-vector', f'emitted {v!r} but local vector is {na!r}')
        acc_vec = None
        if kind == 'recv':
            is_vec = wire is not None
            acc = bool(M([10, sid, before['seq'], wire])) if is_vec else False
            if acc:
                den = M([11, wire])
                acc_vec = den
                want = norm(M([12, before['local'], den]))
                if na != want:
                    self.violation(SITE_H, 'merge-not-pointwise-max',
                                   f'local after accepted vector is {na!r}, entry-wise max is {want!r}')
            else:
                same = (before['local'] == after['local'] and before['supp'] == after['supp'] and
                        before['next'] == after['next'] and before['seq'] == after['seq'] and
                        (not before['supp'] or norm(before['agg']) == norm(after['agg'])) and cbs == 0 and not emitted)
                if not same:
                    over = is_vec and bool(M([15, sid, before['seq'], wire]))
                    self.violation(SITE_H, 'overclaim-not-ignored' if over else 'rejected-vector-changed-state',
                                   f'a vector that is not accepted changed the instance: local {nb!r} -> {na!r}, '
                                   f'callbacks {cbs}, emitted {len(emitted)}')
            rose = any(la.get(k, 0) > lb.get(k, 0) for k in la)
            if (cbs == 1) != rose or cbs > 1:
                self.violation(SITE_H, 'callback-not-iff-raised',
                               f'on_missing_data called {cbs} time(s); some entry raised: {rose}')
        elif kind == 'pub':
            # C18_publish holds for every state -- constructed, running, stopped: Spec.spec_step ... HPublish on what was observed
            want_vec, want_seq = M([16, sid, before['local'], before['seq'], [1]])
            if after['seq'] != want_seq:
                self.violation(SITE_P, 'publish-seq-not-plus-one', f"self_seq {before['seq']} -> {after['seq']} ({phase})")
            if norm(want_vec) != na:
                self.violation(SITE_P, 'publish-entry', f'local after publication {na!r}, expected {norm(want_vec)!r} ({phase})')
            if raised is not None:
                self.violation(SITE_P, 'publish-raised-' + type(raised).__name__, f'new_data() raised {raised!r} ({phase})')
            elif ret != want_seq:
                self.violation(SITE_P, 'publish-returned-number', f"new_data() returned {ret!r}, the own sequence number was "
                               f"{before['seq']} ({phase})")
            if self.running_step and len(emitted) != 1:
                self.violation(SITE_P, 'publish-no-prompt-sync-interest',
                               f'{len(emitted)} sync Interests emitted promptly after new_data()')
        elif kind == 'fire' and self.announce_due and len(emitted) != 1:
            # a publication made while the instance was not running is announced by the first timer run after start()
            self.violation(SITE_T, 'publish-not-announced-after-start', f'{len(emitted)} sync Interests emitted by the first '
                           f'timer run after start() although a publication was made while not running (local {na!r})')
        elif kind == 'fire' and not before['supp']:
            # C18_periodic: a timer expiry in the steady state emits (exactly one sync Interest, the full vector: above)
            if len(emitted) != 1:
                self.violation(SITE_T, 'steady-expiry-missing-emit' if not emitted else 'steady-expiry-several-emits',
                               f'{len(emitted)} sync Interests emitted at a timer expiry in the steady state (local {nb!r})')
        elif kind == 'fire' and before['supp']:
            hd = self.heard if self.heard is not None else []
            need = bool(M([13, before['local'], hd]))
            if need and not emitted:
                self.violation(SITE_T, 'suppression-expiry-missing-emit' + ('' if self.heard is not None else '-nothing-heard'),
                               f'local {nb!r} is newer in some entry than the merge {norm(hd)!r} of the vectors heard in '
                               'the suppression period, but no sync Interest was emitted at its expiry')
            if not need and emitted:
                self.violation(SITE_T, 'suppression-expiry-spurious-emit',
                               f'local {nb!r} is nowhere newer than the merge {norm(hd)!r} of the heard vectors, '
                               'but a sync Interest was emitted')
        # window bookkeeping (Spec.heard_step)
        r = M([14, opt(self.heard), opt(acc_vec), after['supp']])
        self.heard = r[0] if r else None

    # -- events ------------------------------------------------------------------------------------
    def do(self, ev, log=True):
        env = self.env
        if log:
            self.log.append(ev)
        now = env.now_tick()
        self.running_step, self.announce_due = self.running, False
        if ev[0] == 'recv':
            if not self.running:
                return                                   # the handler is detached: nothing is delivered
            _, r, comps = ev
            env.rnd = r
            cls = env.classify(comps)
            name = list(env.base) + [bytes(c) for c in comps]
            wire = cls[1] if cls[0] == 4 and cls[1] else None
            # the oracle judges the vector that is on the wire: read independently whenever the layout is canonical
            sw = strict_entries(comps[0]) if len(comps) == 2 else None
            if sw is not None:
                self.ctx.stat('recv:wire-read-independently')
                if (sw or None) != wire:
                    self.ctx.stat('recv:decoder-differs-from-wire')
                    if not self.broken:
                        self.disagree('StateVecWrapper.parse', 'the entries the library decodes from a canonically laid out '
                                      'StateVec component are not the entries on the wire', sw, cls)
                wire = sw or None
            self.micro('recv', lambda: env.inst.sync_handler(name, None, None, None),
                       [[0, now, r, cls], [2, now, r]], wire=wire)
        elif ev[0] == 'pub':
            env.rnd = ev[1]
            if self.running:
                self.micro('pub', env.inst.new_data, [[1], [2, now, ev[1]]])
            else:
                self.ctx.stat('gen:publication-' + self.phase())
                self.micro('pub', env.inst.new_data, [[1]])          # no timer task: the publication and nothing else
                self.pending_pub = True
        elif ev[0] == 'stop':
            if not self.running:
                return
            self.ctx.stat('gen:stop')
            self.micro('stop', env.inst.stop, [])
            self.running = False
        elif ev[0] == 'start':
            if self.running:
                return
            env.rnd = ev[1]
            self.ctx.stat('gen:start-' + self.phase() + ('-unannounced-publication' if self.pending_pub else ''))
            # start() and the first run of the new timer task: it fires when the timer is due (always after a publication)
            due = self.pending_pub or int(round(env.inst.next_sync_timing / TICK)) <= now
            self.running_step, self.announce_due = True, self.pending_pub
            self.micro('fire' if due else 'idle', env.start_inst, [['start'], [2, now, ev[1]]])
            self.running, self.ever_started, self.pending_pub = True, True, False
        elif ev[0] == 'adv' and not self.running:
            target = now + ev[1]

            def act():
                env.loop._vt = target * TICK
            self.micro('idle', act, [])
        elif ev[0] == 'adv':
            _, d, r = ev
            env.rnd = r
            target = now + d
            for _ in range(8):
                nxt = env.inst.next_sync_timing
                nt = int(round(nxt / TICK))
                if nt <= target:
                    t = max(nxt, env.loop._vt)

                    def act(t=t):
                        env.loop._vt = t
                    self.micro('fire', act, [[2, max(nt, env.now_tick()), r]])
                else:
                    def act():
                        env.loop._vt = target * TICK
                    self.micro('idle', act, [[2, target, r]])
                    return

    def start(self):
        """cfg['k'] publications on the constructed instance, then start() and the first settle after it: the timer task
        runs for the first time (next_sync_timing = 0.0).  None of these is part of the event list (the cfg says it all)."""
        for _ in range(self.cfg['k']):
            self.do(['pub', 0], log=False)
        self.do(['start', self.cfg.get('r0', 0)], log=False)

    def close(self):
        self.env.close()


def execute(ctx, cfg, events, report=True):
    """Replay a concrete history from scratch; returns the Runner."""
    rn = Runner(ctx, cfg, report)
    try:
        rn.start()
        for ev in events:
            rn.do(ev)
    finally:
        rn.close()
    return rn


# ---------------------------------------------------------------------------------------------------
# generators
NODES = [b'\x07\x04\x08\x02n0', b'\x07\x04\x08\x02n1', b'\x07\x04\x08\x02n2', b'\x07\x07\x08\x01a\x08\x02bb',
         b'\x07\x03\x08\x01z', b'\x07\x06\x08\x04long']
SELVES = ['/me', '/a/bb', '/n0']


MAXSEQ = 2 ** 64 - 1


def gen_seq(rng, base):
    return min(MAXSEQ, gen_seq0(rng, base))


def gen_seq0(rng, base):
    c = rng.random()
    if c < 0.55:
        return max(0, base + rng.choice([-3, -2, -1, -1, 0, 0, 1, 1, 2, 5]))
    if c < 0.85:
        return rng.randint(0, 12)
    return rng.choice([0, 1, 255, 256, 65535, 65536, 2 ** 32 - 1, 2 ** 32, 2 ** 63, 2 ** 64 - 1])


def gen_vector(rng, rn, kind):
    """(name, seq) entries relative to the implementation's current local vector"""
    env = rn.env
    loc = dict(env.snap()['local'])
    sid = env.self_id
    # ids that came out of mutated vectors are reused, but only while short: with the lenient Name.decode a
    # re-encoded garbage id can grow at every round trip
    known = [k for k in loc if k != sid and len(k) <= 24]
    if len(known) > 8:
        known = rng.sample(known, 8)
    pool = list(dict.fromkeys(known + [n for n in NODES if n != sid]))
    ids = [k for k in pool if rng.random() < 0.6] or [rng.choice(pool)]
    rng.shuffle(ids)
    es = []
    for k in ids:
        b = loc.get(k, 0)
        if kind == 'newer':
            q = min(MAXSEQ, b + rng.choice([0, 1, 1, 2, 7]))
        elif kind == 'older':
            q = max(0, b - rng.choice([0, 1, 1, 2])) if b else 0
        elif kind == 'equal':
            q = b
        else:
            q = gen_seq(rng, b)
        es.append((k, q))
    if kind == 'equal':
        es = [(k, loc[k]) for k in loc if k != sid] or es
    selfq = env.inst.self_seq
    if kind == 'overclaim':
        es.insert(rng.randint(0, len(es)), (sid, min(MAXSEQ, selfq + rng.choice([1, 1, 2, 100]))))
        if rng.random() < 0.3:
            es.append((sid, max(0, selfq - 1)))        # a later, harmless entry for the own node
    elif kind == 'equal' or rng.random() < 0.45:
        es.insert(rng.randint(0, len(es)), (sid, selfq if kind in ('equal', 'newer') or rng.random() < 0.5 else rng.randint(0, selfq)))
    if kind == 'dup' and es:
        k, q = rng.choice(es)
        es.insert(rng.randint(0, len(es)), (k, gen_seq(rng, q)))
    if kind == 'noid':
        es.insert(rng.randint(0, len(es)), (rng.choice([None, b'\x07\x00']), rng.choice([None, 3, 2 ** 40])))
    if kind == 'noseq':
        es.insert(rng.randint(0, len(es)), (rng.choice(pool + [sid]), None))
    return es


VEC_KINDS = ['newer', 'older', 'equal', 'mixed', 'mixed', 'mixed', 'overclaim', 'dup', 'noid', 'noseq']


# presence shapes of ONE entry, written by hand: (has Name, Name has components, has SeqNo)
ENTRY_SHAPES = {
    'name-only': (True, True, False),           # an id but no sequence number: the whole vector is malformed
    'seq-only': (False, False, True),           # no id: the entry says nothing, the rest of the vector counts
    'empty-entry': (False, False, False),
    'empty-name+seq': (True, False, True),
    'empty-name-only': (True, False, False),
}
SHAPE_WHO = ['known', 'unknown', 'self', 'fresh']
SHAPE_REST = ['newer', 'older', 'equal', 'mixed', 'none', 'overclaim']


def shaped_vector(rng, rn, shape, who, rest, pos):
    """hand-encoded vector: the entries of a well-formed vector of kind `rest` (relative to the local vector) with one
    entry of presence shape `shape` (for node `who`) inserted at relative position `pos` in 0..1 (+ rarely a second one)"""
    env = rn.env
    loc = dict(env.snap()['local'])
    sid = env.self_id
    es = [] if rest == 'none' else [(k, q) for (k, q) in gen_vector(rng, rn, rest) if k is not None and q is not None]
    has_name, has_comps, has_seq = ENTRY_SHAPES[shape]
    known = [k for k in loc if k != sid and len(k) <= 24]
    if who == 'known' and known:
        nid = rng.choice(known)
    elif who == 'self':
        nid = sid
    elif who == 'fresh':
        nid = b'\x07\x05\x08\x03f' + bytes([0x30 + rng.randrange(10), 0x30 + rng.randrange(10)])
    else:
        nid = rng.choice([n for n in NODES if n not in loc and n != sid] or NODES)
    name = None if not has_name else nid if has_comps else b'\x07\x00'
    base = loc.get(nid, 0)
    seq = None if not has_seq else min(MAXSEQ, rng.choice([0, 1, base, base + 1, base + 9, 2 ** 32, MAXSEQ]))
    bad = (name, seq)
    es.insert(int(round(pos * len(es))), bad)
    if rng.random() < 0.1:
        es.insert(rng.randint(0, len(es)), bad)
    return es


def gen_shaped(rng, rn):
    shape = rng.choice(list(ENTRY_SHAPES))
    who, rest, pos = rng.choice(SHAPE_WHO), rng.choice(SHAPE_REST), rng.choice([0.0, 0.5, 1.0, rng.random()])
    rn.ctx.stat('gen:shape-' + shape)
    return hand_component(shaped_vector(rng, rn, shape, who, rest, pos), rng)


def run_shapes(rng, rn):
    """directed: at the current state (whatever it is: steady or inside a suppression window), every presence shape of
    an entry x whose id it carries x what the rest of the vector is, at the first / middle / last position.  A vector
    that is not accepted must leave the instance untouched, so the enumeration proceeds from one state for those."""
    n = 0
    full = rn.ctx.thorough and rng.random() < 0.2           # the full product (120 vectors) now and then, else a slice of it
    whos = SHAPE_WHO if full else [rng.choice(SHAPE_WHO[:2]), rng.choice(SHAPE_WHO[2:])]
    for shape in ENTRY_SHAPES:
        for who in whos:
            for rest in (SHAPE_REST if full else rng.sample(SHAPE_REST[:4] + SHAPE_REST[5:], 2) + ['none']):
                pos = rng.choice([0.0, 0.5, 1.0])
                rn.ctx.stat('gen:shape-' + shape)
                rn.do(['recv', rng.getrandbits(16), [hand_component(shaped_vector(rng, rn, shape, who, rest, pos), rng), DIGEST]])
                n += 1
    return n


def gen_recv(rng, rn):
    r = rng.choice([0, 65535, rng.getrandbits(16), rng.getrandbits(16)])
    c = rng.random()
    if c < 0.12:
        return ['recv', r, [gen_shaped(rng, rn), DIGEST]]
    if c < 0.18:
        # a well-formed vector of any kind, but written by hand (SeqNo in 1/2/4/8 bytes, not only the shortest)
        kind = rng.choice(VEC_KINDS[:8])
        rn.ctx.stat('gen:hand-' + kind)
        return ['recv', r, [hand_component(gen_vector(rng, rn, kind), rng), DIGEST]]
    if c < 0.80:
        kind = rng.choice(VEC_KINDS)
        comp = mk_component(gen_vector(rng, rn, kind))
        rn.ctx.stat('gen:vec-' + kind)
        return ['recv', r, [comp, DIGEST]]
    kind = rng.choice(['mutate', 'mutate', 'random', 'badlen', 'empty', 'othertype', 'extra-tlv', 'truncate'])
    rn.ctx.stat('gen:' + kind)
    good = mk_component(gen_vector(rng, rn, 'mixed'))
    body = good[G_hdr(good):]
    # NB the components of a name that reached the handler are well-formed TLVs (the Interest was decoded);
    # only their content is arbitrary.
    if kind == 'mutate':
        return ['recv', r, [G.tlv(0xc9, G.mutate_bytes(rng, body)), DIGEST]]
    if kind == 'truncate':
        return ['recv', r, [G.tlv(0xc9, body[:rng.randint(0, len(body))]), DIGEST]]
    if kind == 'random':
        return ['recv', r, [G.tlv(rng.choice([0xc9, 0xc9, 8]), G.rand_bytes(rng, rng.randint(0, 12))), DIGEST]]
    if kind == 'badlen':
        return ['recv', r, rng.choice([[good], [good, DIGEST, DIGEST], [], [b'\x08\x01x', good, DIGEST]])]
    if kind == 'empty':
        return ['recv', r, [rng.choice([b'\xc9\x00', b'\xc9\x02\xca\x00', mk_component([])]), DIGEST]]
    if kind == 'othertype':
        return ['recv', r, [rng.choice([G.tlv(8, body), G.tlv(0xc8, body), G.tlv(0xcb, body), G.tlv(0xca, b'')]), DIGEST]]
    # unknown elements inside the vector: non-critical (even >= 32) is skipped, critical (odd) is a decode error
    extra = G.tlv(rng.choice([0xf0, 0xf1, 0x20, 0x21]), b'zz')
    return ['recv', r, [G.tlv(0xc9, rng.choice([extra + body, body + extra])), DIGEST]]


def G_hdr(w):
    """length of the T and L of a TLV whose type is one byte"""
    return 2 if w[1] < 253 else 4 if w[1] == 253 else 6


def gen_adv(rng, rn):
    env = rn.env
    r = rng.choice([0, 65535, rng.getrandbits(16)])
    rem = max(1, int(round(env.inst.next_sync_timing / TICK)) - env.now_tick())
    c = rng.random()
    if c < 0.30:
        d = max(1, rem * rng.randint(1, 9) // 10)       # stop short of the timer
        if d >= rem:
            d = max(1, rem - 1)
    elif c < 0.40:
        d = max(1, rem - 1)                              # one tick before
    elif c < 0.75:
        d = rem                                          # exactly at expiry
    elif c < 0.85:
        d = rem + 1
    else:
        d = rem + rng.randint(1, rn.I)                   # past it (possibly several expiries)
    return ['adv', d, r]


def run_window(rng, rn, allow_pub=True):
    """directed: open a suppression window with an outdated vector, 0..3 further vectors, then its expiry"""
    def vec(kind):
        return ['recv', rng.getrandbits(16), [mk_component(gen_vector(rng, rn, kind)), DIGEST]]
    plan = [lambda: vec('older')]
    for _ in range(rng.randint(0, 3)):
        k = rng.choice(['older', 'older', 'newer', 'equal', 'mixed', 'overclaim', 'noseq', 'shaped'])
        if rng.random() < 0.3:
            plan.append(lambda: ['adv', max(1, rn.Sup // 8), 0])
        if k == 'shaped':
            plan.append(lambda: ['recv', rng.getrandbits(16), [gen_shaped(rng, rn), DIGEST]])
        else:
            plan.append(lambda k=k: vec(k))
    if allow_pub and rng.random() < 0.15:
        plan.append(lambda: ['pub', rng.getrandbits(16)])
    plan.append(lambda: gen_adv_fire(rng, rn))
    n = 0
    for f in plan:
        rn.do(f())
        n += 1
    return n


def gen_adv_fire(rng, rn):
    env = rn.env
    rem = max(1, int(round(env.inst.next_sync_timing / TICK)) - env.now_tick())
    return ['adv', rem, rng.getrandbits(16)]


def gen_cfg(rng):
    return {'self': rng.choice(SELVES), 'I': rng.choice([1.25, 2.5, 5.0, 30.0]), 'S': rng.choice([0.25, 0.5, 1.0, 2.0]),
            'last': rng.choice([0, 0, 1, 5, 5, 7, 2 ** 32, 2 ** 63, 255, 65535, 2 ** 32 - 1]), 'k': rng.choice([0, 0, 0, 1, 2, 3]),
            'r0': rng.getrandbits(16)}


def random_history(ctx, rng, nev):
    cfg = gen_cfg(rng)
    rn = Runner(ctx, cfg)
    try:
        rn.start()
        n = 0
        while n < nev:
            c = rng.random()
            if c < 0.50:
                rn.do(gen_recv(rng, rn))
                n += 1
            elif c < 0.60:
                rn.do(['pub', rng.getrandbits(16)])
                n += 1
            elif c < 0.82:
                rn.do(gen_adv(rng, rn))
                n += 1
            elif c < 0.95 or n + 20 > nev:
                n += run_window(rng, rn)
            elif c < 0.975:
                n += run_restart(rng, rn)
            else:
                n += run_shapes(rng, rn)
    finally:
        rn.close()
    return rn


# ---------------------------------------------------------------------------------------------------
# life cycle: construct(last_used_seq_num), publish*, start, events*, (stop, (publish | clock)*, start, events*)*
def honest_vector(rng, rn, raise_peer=True):
    """a vector a peer that has heard everything would send: the own node at the number the HISTORY gives it (the constructor's
    number + the publications so far -- not what the instance believes), the known peers as they are, one peer raised by one"""
    env = rn.env
    sid = env.self_id
    loc = dict(rn.spec[0])
    es = [(k, v) for k, v in loc.items() if k != sid and len(k) <= 24 and v]
    if raise_peer:
        x = rng.choice([n for n in NODES if n != sid])
        es = [(k, v) for k, v in es if k != x] + [(x, min(MAXSEQ, loc.get(x, 0) + 1))]
    if rn.spec[1]:
        es.insert(rng.randint(0, len(es)), (sid, rn.spec[1]))
    return es


def run_restart(rng, rn, pubs=None):
    """directed: stop(), 0..2 publications while stopped (clock moves in between), start() again, then an honest vector"""
    n0 = len(rn.log)
    rn.do(['stop'])
    if rng.random() < 0.5:
        rn.do(['adv', rng.choice([1, rn.Sup, rn.I, 3 * rn.I]), 0])
    for _ in range(rng.choice([0, 1, 1, 2]) if pubs is None else pubs):
        rn.do(['pub', rng.getrandbits(16)])
        if rng.random() < 0.3:
            rn.do(['adv', rng.choice([1, rn.Sup, rn.I]), 0])
    rn.do(['start', rng.getrandbits(16)])
    rn.do(['recv', rng.getrandbits(16), [mk_component(honest_vector(rng, rn)), DIGEST]])
    return len(rn.log) - n0


LIFE_LAST = [0, 1, 7, 255, 65535, 2 ** 32 - 1, 2 ** 32, 2 ** 63]
LIFE_PRE = [0, 1, 2, 3]


def lifecycle_history(ctx, rng, last, pre, variant):
    """every initial sequence number x 0..3 publications before start(); then, running: the first timer run, an honest vector
    (own node at the number it has really reached), a publication, a timer expiry; stop; 0..2 publications after stop(); start
    again; honest vector, publication, expiry; a second stop / publication / start round.  Every publication, in whatever
    phase, is judged by the publishing clause; every step by the history clause"""
    cfg = {'self': SELVES[variant % len(SELVES)], 'I': rng.choice([1.25, 2.5, 5.0, 30.0]), 'S': rng.choice([0.25, 0.5, 1.0, 2.0]),
           'last': last, 'k': pre, 'r0': rng.getrandbits(16)}
    rn = Runner(ctx, cfg)
    ctx.stat('gen:lifecycle-history')
    hand = variant % 2 == 1

    def vec(raise_peer=True):
        es = honest_vector(rng, rn, raise_peer)
        if not es:
            es = [(NODES[3], 1)]
        return ['recv', rng.getrandbits(16), [hand_component(es, rng) if hand else mk_component(es), DIGEST]]

    def pub():
        return ['pub', rng.getrandbits(16)]
    try:
        rn.start()
        rn.do(vec())
        rn.do(gen_adv_fire(rng, rn))
        if variant % 3 != 2:
            rn.do(pub())
        rn.do(vec(raise_peer=False))
        rn.do(gen_adv_fire(rng, rn))
        run_restart(rng, rn, pubs=variant % 3)
        rn.do(gen_adv_fire(rng, rn))
        rn.do(pub())
        rn.do(vec())
        rn.do(gen_adv_fire(rng, rn))
        run_restart(rng, rn, pubs=(variant + 1) % 3)
        rn.do(gen_adv_fire(rng, rn))
    finally:
        rn.close()
    return rn


# sequence numbers of every width: a SeqNo is a NonNegativeInteger of 1 / 2 / 4 / 8 bytes, any value up to 2**64-1 is legal, in a
# received vector as well as in the own counter.  Directed histories around every power of two at which the encoded width (or
# the width of any fixed-size representation) changes.
WIDTH_EDGES = [1 << 8, 1 << 16, 1 << 24, 1 << 32, 1 << 40, 1 << 56, 1 << 63, 1 << 64]
WIDTH_PUBS = 4


def width_history(ctx, rng, edge, variant):
    """the own counter is started just below `edge` and crosses it by publishing (at `1 << 64`: ends exactly at 2**64-1, the
    largest sequence number there is); peers announce edge-1, edge, and a random value of the next width for other nodes;
    after every step that changes the vector: a timer expiry / a publication / a suppression window, each of which must emit"""
    k = variant % 3
    slack = 0 if edge > MAXSEQ else (variant // 3) % 3
    last = min(edge, MAXSEQ + 1) - 1 - k - (WIDTH_PUBS if edge > MAXSEQ else slack)
    cfg = {'self': SELVES[variant % len(SELVES)], 'I': rng.choice([1.25, 2.5, 5.0, 30.0]), 'S': rng.choice([0.25, 0.5, 1.0, 2.0]),
           'last': last, 'k': k, 'r0': rng.getrandbits(16)}
    rn = Runner(ctx, cfg)
    ctx.stat(f'gen:width-history-2^{edge.bit_length() - 1}')
    sid = rn.env.self_id
    others = [n for n in NODES if n != sid]
    x, y, z = rng.sample(others, 3)
    hand = variant % 2 == 1

    def vec(entries):
        comp = hand_component(entries, rng) if hand else mk_component(entries)
        return ['recv', rng.getrandbits(16), [comp, DIGEST]]

    def pub():
        return ['pub', rng.getrandbits(16)]

    def fire():
        return gen_adv_fire(rng, rn)
    hi = min(MAXSEQ, 2 * edge - 1)
    steps = [pub, fire,
             lambda: vec([(x, edge - 1)]), fire,
             pub,
             lambda: vec([(x, min(MAXSEQ, edge)), (sid, rn.env.inst.self_seq)]), fire,
             lambda: vec([(y, rng.randint(min(MAXSEQ, edge), hi)), (x, edge - 2)]), fire,
             pub, fire,
             lambda: vec([(z, MAXSEQ)] if variant % 4 == 0 else [(z, rng.randint(min(MAXSEQ, edge), hi))]),
             'window', pub, fire]
    try:
        rn.start()
        for f in steps:
            if f == 'window':
                run_window(rng, rn, allow_pub=False)
            else:
                rn.do(f())
    finally:
        rn.close()
    return rn


def shrink(ctx, cfg, events, target, budget=150):
    """greedy: drop events while the same (site, class) still fails"""
    cur = list(events)
    i = len(cur) - 1
    while i >= 0 and budget > 0:
        cand = cur[:i] + cur[i + 1:]
        budget -= 1
        try:
            rn = execute(ctx, cfg, cand, report=False)
            if target in rn.found:
                cur = cand
        except Exception:   # noqa
            pass
        i -= 1
    return cur


# a fixed regression corpus: the two defects found on the original code (see docs/C18.md)
def corpus():
    a, b, me = NODES[0], NODES[1], b'\x07\x04\x08\x02me'
    cfg = {'self': '/me', 'I': 30.0, 'S': 0.25, 'last': 3, 'k': 0, 'r0': 0}
    first = ['recv', 0, [mk_component([(a, 5), (b, 7)]), DIGEST]]
    return [
        # F1: a second, still outdated vector in the suppression period must not suppress the sync Interest
        (cfg, [first, ['adv', 1 << 18, 0],
               ['recv', 0, [mk_component([(a, 2), (b, 7), (me, 3)]), DIGEST]],
               ['recv', 0, [mk_component([(a, 3), (b, 7), (me, 3)]), DIGEST]],
               ['adv', 1 << 18, 0]]),
        # F2: an entry without sequence number after an entry that raises
        (cfg, [first, ['recv', 0, [mk_component([(a, 9), (b, None)]), DIGEST]],
               ['recv', 0, [mk_component([(a, 9), (b, 7)]), DIGEST]]]),
    ]


def run(ctx):
    logging.getLogger('ndn.app_support.svs.sync').disabled = True
    rng = ctx.rng
    seen = set()
    for cfg, evs in corpus():
        execute(ctx, cfg, evs)
    nhist = ctx.n(160, 6000)
    nwidth = ctx.n(2, 36)
    nlife = ctx.n(1, 6)
    lasts = LIFE_LAST + [rng.randint(2, 2 ** 64 - 64) for _ in range(ctx.n(1, 4))]
    plan = ([('life', a, b, v + b + i) for i, a in enumerate(lasts) for b in LIFE_PRE for v in range(nlife)] +
            [('width', e, v) for e in WIDTH_EDGES for v in range(nwidth)] + [('random',)] * nhist)
    for h in plan:
        rn = (lifecycle_history(ctx, rng, h[1], h[2], h[3]) if h[0] == 'life' else
              width_history(ctx, rng, h[1], h[2]) if h[0] == 'width' else random_history(ctx, rng, rng.randint(15, 60)))
        new = [f for f in dict.fromkeys(rn.found) if f not in seen]
        for f in new:
            seen.add(f)
            small = shrink(ctx, rn.cfg, rn.log, f)
            if len(small) < len(rn.log):
                execute(ctx, rn.cfg, small)      # reports the smaller witness (ctx keeps the smallest per class)
    for k, v in STATS.items():
        ctx.stat(k, v)
    STATS.clear()
    ctx.extra['histories'] = nhist + 2 + len(WIDTH_EDGES) * nwidth + len(lasts) * len(LIFE_PRE) * nlife
    ctx.extra['tick_seconds'] = TICK


def replay(ctx, data):
    logging.getLogger('ndn.app_support.svs.sync').disabled = True
    from harness.lib.core import unjson
    case = unjson(data['case'])
    execute(ctx, case['cfg'], case['events'])
