"""Shared machinery of the Light VerSec properties C11, C12, C13.

 * a Python mirror of the parser AST (tuples), printed to LVS *text* so that lark + parser.py are
   inside the tested tie, and encoded to the s-expressions Extract/LvsRun.v understands;
 * a seeded generator of schemas (references, redefinitions, temporary rules/patterns, multi-set /
   multi-option constraints, user functions, signing relations) and of static-error injections;
 * adapters to the real compiler / Checker (step budget = number of node look-ups);
 * canonical dumps of binary models, single-field corruptions.

AST:  rule = (id, [comp], [[(pat, [opt])]], [signer id])
      comp = ('lit', uri) | ('pat', ident) | ('ref', '#rule')
      opt  = ('lit', uri) | ('pat', ident) | ('fn', '$f', [arg]);  arg = ('lit', uri) | ('pat', ident)
"""
import itertools

E_LVSMODEL = 101
E_SEMANTIC = 102
E_FUEL = 99

MODEL_FUEL = 60000          # loop iterations granted to the model's _match
IMPL_BUDGET = 200000        # node look-ups granted to the implementation (a diverging query exceeds both)


# ---------------------------------------------------------------------------------------------
# encodings
def comp_bytes(uri):
    from ndn.encoding import Component
    return bytes(Component.from_str(uri))


def b(s):
    return s.encode()


def sx_arg(a):
    return [0, comp_bytes(a[1])] if a[0] == 'lit' else [1, b(a[1])]


def sx_opt(o):
    if o[0] == 'lit':
        return [0, comp_bytes(o[1])]
    if o[0] == 'pat':
        return [1, b(o[1])]
    return [2, b(o[1]), [sx_arg(a) for a in o[2]]]


def sx_comp(c):
    return [{'lit': 0, 'pat': 1, 'ref': 2}[c[0]], comp_bytes(c[1]) if c[0] == 'lit' else b(c[1])]


def sx_rule(r):
    rid, name, cons, sign = r
    return [b(rid), [sx_comp(c) for c in name],
            [[[b(p), [sx_opt(o) for o in opts]] for (p, opts) in cs] for cs in cons],
            [b(s) for s in sign]]


def sx_ast(ast):
    return [sx_rule(r) for r in ast]


def txt_arg(a):
    return '"%s"' % a[1] if a[0] == 'lit' else a[1]


def txt_opt(o):
    if o[0] == 'fn':
        return '%s(%s)' % (o[1], ', '.join(txt_arg(a) for a in o[2]))
    return txt_arg(o)


def txt_rule(r, rng=None):
    rid, name, cons, sign = r
    lead = '/' if (rng is not None and rng.random() < 0.3) else ''
    s = '%s: %s%s' % (rid, lead, '/'.join(txt_arg(c) if c[0] != 'ref' else c[1] for c in name))
    if cons:
        s += ' & ' + ' | '.join('{' + ', '.join('%s: %s' % (p, '|'.join(txt_opt(o) for o in opts)) for (p, opts) in cs) + '}'
                                for cs in cons)
    if sign:
        s += ' <= ' + ' | '.join(sign)
    return s


def txt_ast(ast, rng=None):
    lines = []
    for r in ast:
        if rng is not None and rng.random() < 0.1:
            lines.append('// comment')
        lines.append(txt_rule(r, rng))
    return '\n'.join(lines) + '\n'


# ---------------------------------------------------------------------------------------------
# user functions
def sx_fnenv(fe):
    """fe: dict name -> 'eq' | 'eq_type' | ('table', rows) ; rows = [(value bytes, [arg bytes|None])]"""
    out = []
    for k, v in fe.items():
        if v == 'eq':
            out.append([b(k), 0])
        elif v == 'eq_type':
            out.append([b(k), 1])
        else:
            out.append([b(k), [2, [[val, [[] if a is None else [a] for a in args]] for (val, args) in v[1]]]])
    return out


def py_fns(fe):
    from ndn.app_support.light_versec import DEFAULT_USER_FNS
    d = {}
    for k, v in fe.items():
        if v == 'eq':
            d[k] = DEFAULT_USER_FNS['$eq']
        elif v == 'eq_type':
            d[k] = DEFAULT_USER_FNS['$eq_type']
        else:
            rows = set((val, tuple(args)) for (val, args) in v[1])
            d[k] = (lambda rows: lambda c, args: (bytes(c), tuple(None if a is None else bytes(a) for a in args)) in rows)(rows)
    return d


# ---------------------------------------------------------------------------------------------
# binary model <-> nested lists (same shape as LvsRun.s_model)
def o_(x):
    return [] if x is None else [x]


def ob_(x):
    return [] if x is None else [bytes(x)]


def os_(x):
    if x is None:
        return []
    return [x.encode() if isinstance(x, str) else bytes(x)]


def dump_model(m):
    def arg(a):
        return [ob_(a.value), o_(a.tag)]

    def fn(f):
        return [os_(f.fn_id), [arg(a) for a in (f.args or [])]]

    def copt(op):
        return [ob_(op.value), o_(op.tag), [] if op.fn is None else [fn(op.fn)]]

    def node(n):
        return [o_(n.id), o_(n.parent), [x.encode() for x in (n.rule_name or [])],
                [[o_(e.dest), ob_(e.value)] for e in (n.v_edges or [])],
                [[o_(e.dest), o_(e.tag), [[copt(op) for op in (c.options or [])] for c in (e.cons_sets or [])]] for e in (n.p_edges or [])],
                list(n.sign_cons or [])]
    return [o_(m.version), o_(m.start_id), o_(m.named_pattern_cnt), [node(n) for n in (m.nodes or [])],
            [[o_(s.tag), os_(s.ident)] for s in (m.symbols or [])]]


def canon(x):
    """nested lists with bytes/ints only (tuples -> lists, memoryview -> bytes)"""
    if isinstance(x, (list, tuple)):
        return [canon(y) for y in x]
    if isinstance(x, (bytes, bytearray, memoryview)):
        return bytes(x)
    return x


# ---------------------------------------------------------------------------------------------
# implementation adapters
class Budget(Exception):
    pass


class CountingList(list):
    def __init__(self, l, budget):
        super().__init__(l)
        self.left = budget

    def __getitem__(self, i):
        self.left -= 1
        if self.left < 0:
            raise Budget()
        return super().__getitem__(i)


def exc_code(e):
    from ndn.app_support.light_versec import SemanticError, LvsModelError
    if isinstance(e, Budget):
        return E_FUEL
    if isinstance(e, RecursionError):
        return E_FUEL
    if isinstance(e, LvsModelError):
        return E_LVSMODEL
    if isinstance(e, SemanticError):
        return E_SEMANTIC
    from harness.lib.model import exc_code as base
    return base(e)


class _LarkMemo:
    """lark.Lark(grammar, ...) analyses the grammar on every call (~60 ms); compile_lvs builds one per schema.
    The real compile_lvs still runs unchanged; only the construction is memoised per (grammar text, options)."""

    def __init__(self, real):
        self._real = real
        self._cache = {}

    def __getattr__(self, k):
        return getattr(self._real, k)

    def Lark(self, grammar, **kw):
        key = (grammar, kw.get('parser'), type(kw.get('transformer')).__name__)
        if key not in self._cache:
            self._cache[key] = self._real.Lark(grammar, **kw)
        return self._cache[key]


def _memo_lark():
    import ndn.app_support.light_versec.compiler as C
    if not isinstance(C.lark, _LarkMemo):
        C.lark = _LarkMemo(C.lark)


REPEAT_DIFFS = []      # schema texts whose SECOND compilation in this process differed from the first (read by c11)


def impl_compile(text):
    """compile_lvs(text), twice: a compilation is a function of the text, so the second result (the one handed on, which
    every correspondence and oracle downstream then judges) must be the first one again"""
    from ndn.app_support.light_versec import compile_lvs
    _memo_lark()

    def once():
        try:
            return ('ok', compile_lvs(text))
        except Exception as e:   # noqa
            return ('err', exc_code(e), type(e).__name__ + ': ' + str(e)[:120])
    r1 = once()
    r2 = once()
    try:
        # compared through the structural dump (linear); TlvModel.encode of a large model is quadratic in its size
        same = (r1[0] == r2[0]) and (r1[0] == 'err' and r1[1] == r2[1] or
                                     r1[0] == 'ok' and canon(dump_model(r1[1])) == canon(dump_model(r2[1])))
    except Exception:   # noqa
        same = False
    if not same:
        REPEAT_DIFFS.append(text)
    return r2


def impl_checker(model, fns):
    from ndn.app_support.light_versec import Checker
    try:
        return ('ok', Checker(model, fns))
    except BaseException as e:   # noqa  (RecursionError is an Exception; keep KeyboardInterrupt out)
        if isinstance(e, KeyboardInterrupt):
            raise
        return ('err', exc_code(e), type(e).__name__ + ': ' + str(e)[:120])


MAX_MODEL_NODES = 4000


def too_big(r):
    """compiled model too large for the extracted model to answer within its per-call timeout (its node look-up is linear
    in the node id; a few generated schemas expand to > 10^5 nodes)"""
    return r[0] == 'ok' and len(r[1].nodes) > MAX_MODEL_NODES


def with_budget(chk, budget=IMPL_BUDGET):
    chk.model.nodes = CountingList(list(chk.model.nodes), budget)
    return chk


def impl_match(chk, name):
    """-> ('ok', [[rule names], sorted [(key, value)]]) | ('err', code, text)"""
    if isinstance(chk.model.nodes, CountingList):
        chk.model.nodes.left = IMPL_BUDGET
    try:
        out = []
        for rn, cx in chk.match(name):
            out.append([[x.encode() for x in rn], sorted([[k.encode() if isinstance(k, str) else k, bytes(v)] for k, v in cx.items()])])
        return ('ok', out)
    except Exception as e:   # noqa
        return ('err', exc_code(e), type(e).__name__ + ': ' + str(e)[:120])


def impl_check(chk, pkt, key):
    if isinstance(chk.model.nodes, CountingList):
        chk.model.nodes.left = IMPL_BUDGET
    try:
        return ('ok', bool(chk.check(pkt, key)))
    except Exception as e:   # noqa
        return ('err', exc_code(e), type(e).__name__ + ': ' + str(e)[:120])


def model_match_result(ans):
    """model answer of op 3 (payload) -> same shape as impl_match's"""
    return [[list(rn), sorted([[(k[0] if k else None), v] for k, v in cx])] for rn, cx in ans]


def is_err(a):
    return isinstance(a, list) and len(a) == 2 and a[0] == 0 and isinstance(a[1], int)


def same_outcome(m, r):
    """model answer (1 payload)|(0 code) vs impl ('ok', v)|('err', code, txt): equal class?"""
    if is_err(m):
        return r[0] == 'err' and r[1] == m[1]
    return r[0] == 'ok'


# ---------------------------------------------------------------------------------------------
# schema generator
LIT_POOL = ['a', 'b', 'c', 'k', 'KEY', 'v=0', 'seg=1', 'x%00']
PAT_POOL = ['x', 'y', 'z', 'w', 'site']
TEMP_POOL = ['_', '_t', '_u']
RULE_NAMES = ['#a', '#b', '#c', '#d', '#e', '#k', '#KEY', '#r1', '#r2', '#zz', '#Ab', '#pkt', '#key']
TEMP_RULES = ['#_', '#_t']


class Gen:
    def __init__(self, rng, signing=True, fns=True, size=None):
        self.rng = rng
        self.signing = signing
        self.fns = fns
        self.size = size

    def schema(self):
        """-> (ast, fnenv description, literal uris)"""
        rng = self.rng
        nlit = rng.randint(2, 4)
        lits = rng.sample(LIT_POOL, nlit)
        pats = rng.sample(PAT_POOL, rng.randint(1, 3))
        temps = rng.sample(TEMP_POOL, rng.randint(1, 2))
        nrules = self.size or rng.randint(2, 6)
        names = rng.sample(RULE_NAMES, nrules)
        # definition order is random w.r.t. the reference order: rule i may refer to rules j < i of [names]
        fe = {}
        ast = []
        used_pats = []
        for i, rid in enumerate(names):
            t = rng.random()
            ndefs = 3 if t < 0.06 else 2 if t < 0.25 else 1
            first = None
            for d in range(ndefs):
                r = self.rule(rid, names[:i], lits, pats, temps, fe, ast)
                if d > 0 and first is not None and rng.random() < 0.5:
                    # an alternative of another length that shares a prefix / the constraints of the first definition
                    k = rng.randint(0, len(first[1]))
                    ext = [('pat', rng.choice(temps)) if rng.random() < 0.6 else ('lit', rng.choice(lits)) for _ in range(rng.randint(0, 2))]
                    r = (rid, (first[1][:k] + ext + first[1][k:])[:5] or first[1], first[2] if rng.random() < 0.7 else r[2], [])
                    r = (rid, r[1], [[(p, o) for (p, o) in cs if any(c == ('pat', p) for c in r[1]) or p[0] != '_'] for cs in r[2]], [])
                    r = (rid, r[1], [cs for cs in r[2] if cs], [])
                ast.append(r)
                first = first or r
        # temporary rules
        for _ in range(rng.choice([0, 0, 1, 2])):
            ast.append(self.rule(rng.choice(TEMP_RULES), names, lits, pats, temps, fe, ast))
        if self.signing:
            rank = {n: i for i, n in enumerate(rng.sample(names, len(names)))}
            cyclic = rng.random() < 0.1
            for idx, r in enumerate(ast):
                if rng.random() < 0.7:
                    k = rng.choice([1, 1, 2])
                    cands = names if cyclic else [n for n in names if rank[n] > rank.get(r[0], -1)]
                    if cands:
                        ast[idx] = (r[0], r[1], r[2], rng.sample(cands, min(k, len(cands))))
        rng.shuffle(ast)
        return ast, fe, lits

    def rule(self, rid, earlier, lits, pats, temps, fe, ast):
        rng = self.rng
        name = []
        for _ in range(rng.randint(1, 4)):
            t = rng.random()
            if t < 0.35:
                name.append(('lit', rng.choice(lits)))
            elif t < 0.6:
                name.append(('pat', rng.choice(pats)))
            elif t < 0.75:
                name.append(('pat', rng.choice(temps)))
            elif earlier:
                name.append(('ref', rng.choice(earlier)))
            else:
                name.append(('lit', rng.choice(lits)))
        # patterns that may be constrained: own ones, inherited ones, (rarely) any named one
        own = [c[1] for c in name if c[0] == 'pat']
        inherited = []
        for c in name:
            if c[0] == 'ref':
                for r in ast:
                    if r[0] == c[1]:
                        inherited += [d[1] for d in r[1] if d[0] == 'pat' and d[1][0] != '_']
        cons = []
        nsets = rng.choice([0, 0, 1, 1, 1, 2])
        for _ in range(nsets):
            cs = []
            cands = own + inherited + ([rng.choice(pats)] if rng.random() < 0.08 else [])
            if not cands:
                break
            for _ in range(rng.randint(1, 3)):
                p = rng.choice(cands)
                used = [c[1] for r in ast for c in r[1] if c[0] == 'pat' and c[1][0] != '_'] + [x for x in own if x[0] != '_']
                opats = used if (used and rng.random() < 0.93) else pats
                opts = [self.option(lits, opats, fe) for _ in range(rng.choice([1, 1, 2, 3]))]
                cs.append((p, opts))
            cons.append(cs)
        return (rid, name, cons, [])

    def option(self, lits, pats, fe):
        rng = self.rng
        t = rng.random()
        if t < 0.5 or not self.fns and t < 0.75:
            return ('lit', rng.choice(lits + ['q1']))
        if t < 0.75:
            return ('pat', rng.choice(pats))
        f = rng.choice(['$eq', '$eq', '$eq', '$eq_type', '$eq_type', '$tab', '$tab', '$tab2', '$tab2', '$tab2', '$nofn'])
        if f == '$tab':
            arity = 0
        elif f == '$tab2':
            arity = 1
        else:
            arity = rng.choice([0, 1, 1, 2])
        args = [('lit', rng.choice(lits)) if rng.random() < 0.5 else ('pat', rng.choice(pats)) for _ in range(arity)]
        if f == '$eq':
            fe[f] = 'eq'
        elif f == '$eq_type':
            fe[f] = 'eq_type'
        elif f in ('$tab', '$tab2') and f not in fe:
            alpha = [comp_bytes(u) for u in lits + ['q1', 'q2']]
            if f == '$tab':
                rows = [(v, []) for v in alpha if rng.random() < 0.5]
            else:
                rows = [(v, [w]) for v in alpha for w in alpha + [None] if rng.random() < 0.4]
            fe[f] = ('table', rows)
        return ('fn', f, args)


def alphabet(lits):
    """component bytes: every literal of the schema + 2 fresh components"""
    return [comp_bytes(u) for u in dict.fromkeys(list(lits) + ['q1', 'q2'])]


DIGEST = bytes([1, 32]) + bytes(range(32))
PDIGEST = bytes([2, 32]) + bytes(range(32))      # a ParametersSha256Digest component: an ORDINARY component for a schema


def names_upto(alpha, maxlen):
    for n in range(0, maxlen + 1):
        for t in itertools.product(alpha, repeat=n):
            yield list(t)


def guided_names(rng, model, alpha, count):
    """names obtained by random walks from the root of a compiled tree: value edges give their value,
    pattern edges a literal of their constraints / an earlier component / a random component"""
    out = []
    nodes = list(model.nodes)
    if not nodes or model.start_id is None:
        return out
    for _ in range(count):
        cur = model.start_id
        name = []
        for _ in range(8):
            nd = nodes[cur]
            edges = [('v', e) for e in nd.v_edges] + [('p', e) for e in nd.p_edges]
            if not edges or (nd.rule_name and rng.random() < 0.35):
                break
            kind, e = rng.choice(edges)
            if kind == 'v':
                name.append(bytes(e.value))
            else:
                cands = [bytes(op.value) for c in e.cons_sets for op in c.options if op.value is not None]
                t = rng.random()
                if cands and t < 0.6:
                    name.append(rng.choice(cands))
                elif name and t < 0.8:
                    name.append(rng.choice(name))
                else:
                    name.append(rng.choice(alpha))
            cur = e.dest
        out.append(name)
    return out


def all_lits(ast):
    out = []
    for r in ast:
        for c in r[1]:
            if c[0] == 'lit':
                out.append(c[1])
        for cs in r[2]:
            for (_, opts) in cs:
                for o in opts:
                    if o[0] == 'lit':
                        out.append(o[1])
                    elif o[0] == 'fn':
                        out += [a[1] for a in o[2] if a[0] == 'lit']
    return list(dict.fromkeys(out))


# ---------------------------------------------------------------------------------------------
# static error injection (C13): returns a list of (kind, ast')
def inject_errors(ast, rng):
    out = []
    ids = [r[0] for r in ast]
    for i, r in enumerate(ast):
        rid, name, cons, sign = r
        for j in range(len(name) + 1):
            # reference to an undefined / temporary rule at every position of the name
            for kind, ref in (('undefined-rule', '#nope'), ('temporary-rule', '#_t')):
                nm = name[:j] + [('ref', ref)] + name[j:]
                a2 = list(ast)
                a2[i] = (rid, nm, cons, sign)
                if kind == 'temporary-rule' and '#_t' not in ids:
                    a2.append(('#_t', [('lit', 'a')], [], []))
                out.append((kind, a2))
            # self reference -> cycle
            if rid[1] != '_':
                nm = name[:j] + [('ref', rid)] + name[j:]
                a2 = list(ast)
                a2[i] = (rid, nm, cons, sign)
                out.append(('cyclic-reference', a2))
        # unknown pattern on the left / right of a constraint, temporary on the right, at every constraint position
        own = [c[1] for c in name if c[0] == 'pat']
        base = own[0] if own else None
        sets = cons if cons else [[]]
        for si in range(len(sets)):
            for ti in range(len(sets[si]) + 1):
                for kind, term in (('unknown-lhs', ('nowhere', [('lit', 'a')])),
                                   ('unknown-temp-lhs', ('_nowhere', [('lit', 'a')])),
                                   ('unknown-rhs', (base, [('lit', 'a'), ('pat', 'nowhere')])),
                                   ('temp-rhs', (base, [('pat', '_')])),
                                   ('unknown-fn-arg', (base, [('fn', '$eq', [('pat', 'nowhere')])])),
                                   ('temp-fn-arg', (base, [('fn', '$eq', [('lit', 'a'), ('pat', '_t')])]))):
                    if term[0] is None:
                        continue
                    cs2 = [list(s) for s in sets]
                    cs2[si] = cs2[si][:ti] + [term] + cs2[si][ti:]
                    a2 = list(ast)
                    a2[i] = (rid, name, cs2, sign)
                    out.append((kind, a2))
        # unknown / temporary signer at every position
        for j in range(len(sign) + 1):
            for kind, s in (('unknown-signer', '#nope'), ('temporary-signer', '#_')):
                a2 = list(ast)
                a2[i] = (rid, name, cons, sign[:j] + [s] + sign[j:])
                out.append((kind, a2))
    # two-rule reference cycle
    named = [r for r in ast if r[0][1] != '_']
    if len(named) >= 2:
        r1, r2 = rng.sample(named, 2)
        a2 = []
        for r in ast:
            if r is r1:
                a2.append((r[0], r[1] + [('ref', r2[0])], r[2], r[3]))
            elif r is r2:
                a2.append((r[0], [('ref', r1[0])] + r[1], r[2], r[3]))
            else:
                a2.append(r)
        out.append(('cyclic-reference', a2))
    return out


# ---------------------------------------------------------------------------------------------
# single-field corruptions of a compiled model (C13)
def corruptions(mk):
    """mk() -> fresh LvsModel.  Yields (label, mutate function)."""
    m = mk()
    n = len(m.nodes)

    def idvals(cur):
        vals = [0, None, n, n + 7, (1 << 63)]
        vals += [v for v in range(n) if v != cur][:3]
        return [v for v in dict.fromkeys(vals) if v != cur]
    yield ('version=None', lambda mm: setattr(mm, 'version', None))
    for v in (0, 1, m.version - 1, m.version + 1, 1 << 40):
        yield (f'version={v}', (lambda v: lambda mm: setattr(mm, 'version', v))(v))
    for v in idvals(m.start_id):
        yield (f'start_id={v}', (lambda v: lambda mm: setattr(mm, 'start_id', v))(v))
    for v in (None, 0, (m.named_pattern_cnt or 0) + 3):
        if v != m.named_pattern_cnt:
            yield (f'npc={v}', (lambda v: lambda mm: setattr(mm, 'named_pattern_cnt', v))(v))
    for i, nd in enumerate(m.nodes):
        for v in idvals(nd.id):
            yield (f'node[{i}].id={v}', (lambda i, v: lambda mm: setattr(mm.nodes[i], 'id', v))(i, v))
        for v in idvals(nd.parent):
            yield (f'node[{i}].parent={v}', (lambda i, v: lambda mm: setattr(mm.nodes[i], 'parent', v))(i, v))
        for j, e in enumerate(nd.v_edges):
            for v in idvals(e.dest):
                yield (f'node[{i}].v[{j}].dest={v}', (lambda i, j, v: lambda mm: setattr(mm.nodes[i].v_edges[j], 'dest', v))(i, j, v))
            for v in (None, b''):
                yield (f'node[{i}].v[{j}].value={v!r}', (lambda i, j, v: lambda mm: setattr(mm.nodes[i].v_edges[j], 'value', v))(i, j, v))
        for j, e in enumerate(nd.p_edges):
            for v in idvals(e.dest):
                yield (f'node[{i}].p[{j}].dest={v}', (lambda i, j, v: lambda mm: setattr(mm.nodes[i].p_edges[j], 'dest', v))(i, j, v))
            yield (f'node[{i}].p[{j}].tag=None', (lambda i, j: lambda mm: setattr(mm.nodes[i].p_edges[j], 'tag', None))(i, j))
            for ci, c in enumerate(e.cons_sets):
                for oi, op in enumerate(c.options):
                    for label, f in option_shapes():
                        yield (f'node[{i}].p[{j}].cons[{ci}].opt[{oi}]:{label}',
                               (lambda i, j, ci, oi, f: lambda mm: f(mm.nodes[i].p_edges[j].cons_sets[ci].options[oi]))(i, j, ci, oi, f))
        sc = list(nd.sign_cons)
        for k in range(len(sc) + 1):
            for v in [0, n, n + 7, i] + [x for x in range(n)][:2]:
                def mut(mm, i=i, k=k, v=v):
                    l = list(mm.nodes[i].sign_cons)
                    if k < len(l):
                        l[k] = v
                    else:
                        l.append(v)
                    mm.nodes[i].sign_cons = l
                yield (f'node[{i}].sign[{k}]={v}', mut)


def option_shapes():
    from ndn.app_support.light_versec import binary as bny

    def fn(name):
        f = bny.UserFnCall()
        f.fn_id = name
        f.args = []
        return f

    def setter(value, tag, f):
        def go(op):
            op.value, op.tag, op.fn = value, tag, f
        return go
    v = comp_bytes('a')
    return [('none', setter(None, None, None)),
            ('value+tag', setter(v, 1, None)),
            ('value+fn', setter(v, None, fn('$eq'))),
            ('tag+fn', setter(None, 1, fn('$eq'))),
            ('all', setter(v, 1, fn('$eq'))),
            ('emptyvalue+tag', setter(b'', 1, None)),
            ('emptyvalue+fn', setter(b'', None, fn('$eq'))),
            ('fn-noname', setter(None, None, fn(None))),
            ('fn-emptyname', setter(None, None, fn(''))),
            ('tag-only', setter(None, 1, None)),
            ('value-only', setter(v, None, None))]
